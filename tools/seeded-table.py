#!/usr/bin/env python3
"""Regenerates the table of independently seeded changes in DESIGN.md (between the SEEDED markers)
from /verif/seeded/*/meta.json."""
import glob, json, re
rows = []
for p in sorted(glob.glob('/verif/seeded/*/meta.json')):
    m = json.load(open(p))
    sid = p.split('/')[-2]
    det = [c for c, v in m.get('checks', {}).items() if v.get('reported')]
    missed = [c for c, v in m.get('checks', {}).items() if not v.get('reported')]
    keys = []
    for c in det[:1]:
        keys = m['checks'][c].get('keys', [])[:2]
    summ = m.get('summary', '').replace('|', '/').replace('\n', ' ')
    needs = m.get('needs', '').replace('|', '/').replace('\n', ' ')
    if len(summ) > 230: summ = summ[:227] + '...'
    if len(needs) > 200: needs = needs[:197] + '...'
    rep = f"{', '.join(det) or '-'}{' (first keys: ' + ', '.join('`'+k+'`' for k in keys) + ')' if keys else ''}"
    if m.get('status') == 'superseded-by-fix':
        rep = 'superseded: led to a `fix:` in /repo, after which the change is behaviour-preserving (see note in meta.json); checks quiet on the repaired tree'
        missed = []
    rows.append(f"| {sid} | {m.get('property')} | {summ} | {needs} | {rep} | {', '.join(missed) or '-'} |")
table = "| seed | property | change | needs | reported by | also run, silent |\n|---|---|---|---|---|---|\n" + "\n".join(rows) + "\n"
s = open('/verif/DESIGN.md').read()
s = re.sub(r"<!-- SEEDED-BEGIN -->.*<!-- SEEDED-END -->", "<!-- SEEDED-BEGIN -->\n" + table + "<!-- SEEDED-END -->", s, flags=re.S)
open('/verif/DESIGN.md', 'w').write(s)
print(len(rows), 'rows')
