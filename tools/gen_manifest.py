#!/usr/bin/env python3
"""Regenerates /verif/MANIFEST.json from tools/manifest_table.json (one row per claimed property)
and validates it against /root/.vp/MANIFEST.schema.json when jsonschema is importable."""
import json, os, subprocess, sys

ROOT = os.path.dirname(os.path.dirname(os.path.abspath(__file__)))
table = json.load(open(os.path.join(ROOT, "tools", "manifest_table.json")))
props = [json.loads(l) for l in open(os.path.join(ROOT, "properties.jsonl"))]
ids = [p["id"] for p in props]

checks = []
engines_json = {}
for row in table["checks"]:
    pid = row["property_id"]
    assert pid in ids, pid
    engines_json[pid] = {"package": row["package"], "bin": row["bin"]}
    checks.append({
        "property_id": pid,
        "quick_cmd": f"./check {pid} --tier quick",
        "thorough_cmd": f"./check {pid} --tier thorough",
        "evidence_file": f"/verif/evidence/{pid}.json",
        "replay_cmd_template": f"./check {pid} --replay {{path}}",
        "engine": row["engine"],
        "level_claimed": {
            "category": row.get("category", "model_checking"),
            "text": row["level_text"],
            "design_ref": row.get("design_ref", ""),
        },
        "level_note": row["level_note"],
        "technique": row["technique"],
    })
claimed = {c["property_id"] for c in checks}
na = []
for pid in ids:
    if pid not in claimed:
        reason = table.get("not_applicable", {}).get(pid, "check not built yet (build-out in progress); not claimed in this commit")
        na.append({"property_id": pid, "reason": reason})

manifest = {
    "version": 1,
    "setup_cmd": table["setup_cmd"],
    "hooks": table["hooks"],
    "engines": table.get("engines", []),
    "checks": checks,
    "notes": table.get("notes", ""),
    "not_applicable": na,
}
json.dump(manifest, open(os.path.join(ROOT, "MANIFEST.json"), "w"), indent=1)
json.dump(engines_json, open(os.path.join(ROOT, "engines.json"), "w"), indent=1)
try:
    import jsonschema
    jsonschema.validate(manifest, json.load(open("/root/.vp/MANIFEST.schema.json")))
    print("MANIFEST.json valid;", len(checks), "checks,", len(na), "not_applicable")
except ImportError:
    print("jsonschema not importable; wrote MANIFEST.json unvalidated")
