#!/usr/bin/env python3
"""Records in every /verif/seeded/*/meta.json the newest /repo commit its patch.diff applies to
(`applies_to`), checking HEAD first and walking back through the history. Patches are made against
the tree as it was when the seed was written; later hook or fix commits can touch the same lines."""
import glob, json, subprocess
revs = subprocess.run("git -C /repo log --format=%h -n 40", shell=True, stdout=subprocess.PIPE, text=True).stdout.split()
wt = "/tmp/seed-bases-wt"
subprocess.run(f"git -C /repo worktree remove --force {wt}", shell=True, stderr=subprocess.DEVNULL)
subprocess.run(f"git -C /repo worktree add -q --detach {wt} HEAD", shell=True, check=True)
try:
    for p in sorted(glob.glob('/verif/seeded/*/meta.json')):
        d = p.rsplit('/', 1)[0]
        m = json.load(open(p))
        found = None
        for r in revs:
            subprocess.run(f"git -C {wt} checkout -q --detach {r}", shell=True, check=True)
            if subprocess.run(f"git -C {wt} apply --check {d}/patch.diff", shell=True, stderr=subprocess.DEVNULL).returncode == 0:
                found = r
                break
        m['applies_to'] = found if found != revs[0] else f"{found} (HEAD when recorded)"
        json.dump(m, open(p, 'w'), indent=1)
        print(d.rsplit('/', 1)[1], m['applies_to'])
finally:
    subprocess.run(f"git -C /repo worktree remove --force {wt}", shell=True)
