//! C18: every interleaving of {first poll, shell fires, app clears, handle dropped, request dropped,
//! clear answered, late / duplicate answers} for 1-2 timers, against the property's protocol
//! written as a small reference machine per timer.

use std::collections::BTreeSet;
use std::sync::Mutex;
use std::time::{Duration, SystemTime};

use crux_core::{Command, Core, Request};
use crux_time::command::{Time, TimerHandle, TimerOutcome};
use crux_time::{TimeRequest, TimeResponse, TimerId};
use serde::{Deserialize, Serialize};
use serde_json::{json, Value};

// ---------------------------------------------------------------------------------------------
// command API, directly held command

pub enum TEffect {
    Time(Request<TimeRequest>),
}

impl From<Request<TimeRequest>> for TEffect {
    fn from(r: Request<TimeRequest>) -> Self {
        TEffect::Time(r)
    }
}

#[derive(Clone, Debug, PartialEq, Eq, PartialOrd, Ord)]
pub enum TEvent {
    Completed(usize),
    Cleared(usize),
    /// an outcome of a kind this harness does not know (crux's enum may grow): never predicted
    Unknown(usize),
}

#[derive(Clone, Copy, Debug, PartialEq, Eq, PartialOrd, Ord, Serialize, Deserialize)]
pub enum TKind {
    After,
    At,
    /// `notify_after(..).into_future(ctx)` created first, then a gate request is awaited, then the
    /// timer future is awaited: builder conversion and first poll are separated (direct host only)
    AfterGated,
    AtGated,
}

/// The payload carries the timer's index: the i-th timer of a history gets the i-th of these
/// boundary values (zero, the smallest, an ordinary one, the largest the protocol type holds).
const AFTER_PAYLOADS: [Duration; 4] = [Duration::ZERO, Duration::from_nanos(1), Duration::from_millis(300), Duration::from_nanos(u64::MAX)];

fn after_payload(i: usize) -> Duration {
    // beyond the boundary table (long scripted histories): ordinary, pairwise distinct values
    AFTER_PAYLOADS.get(i).copied().unwrap_or(Duration::from_millis(1000 + i as u64))
}

fn after_index(d: Duration) -> usize {
    if let Some(i) = AFTER_PAYLOADS.iter().position(|x| *x == d) {
        return i;
    }
    let ms = d.as_millis();
    if d == Duration::from_millis(ms as u64) && ms >= 1004 && ms < 1_000_000 {
        (ms - 1000) as usize
    } else {
        usize::MAX
    }
}

fn at_payloads() -> [SystemTime; 4] {
    [
        SystemTime::UNIX_EPOCH,
        SystemTime::UNIX_EPOCH + Duration::from_nanos(1),
        SystemTime::UNIX_EPOCH + Duration::from_secs(1000),
        SystemTime::UNIX_EPOCH + Duration::new(u64::MAX / 4, 999_999_999),
    ]
}

fn at_payload(i: usize) -> SystemTime {
    at_payloads().get(i).copied().unwrap_or(SystemTime::UNIX_EPOCH + Duration::from_secs(5000 + i as u64))
}

fn at_index(t: SystemTime) -> usize {
    if let Some(i) = at_payloads().iter().position(|x| *x == t) {
        return i;
    }
    match t.duration_since(SystemTime::UNIX_EPOCH) {
        Ok(d) if d.subsec_nanos() == 0 && d.as_secs() >= 5004 && d.as_secs() < 1_000_000 => (d.as_secs() - 5000) as usize,
        _ => usize::MAX,
    }
}

impl TKind {
    fn is_after(self) -> bool {
        matches!(self, TKind::After | TKind::AfterGated)
    }
    fn gated(self) -> bool {
        matches!(self, TKind::AfterGated | TKind::AtGated)
    }
}

#[derive(Clone, Copy, Debug, PartialEq, Eq, PartialOrd, Ord, Serialize, Deserialize)]
pub enum TAct {
    /// take outputs (polls the command)
    Poll,
    /// shell answers the timer's request (elapsed / arrived)
    Fire(usize),
    /// shell answers the timer's request with another timer's id / wrong kind: outside the
    /// property ("the shell answered its request"), not generated
    /// app clears through the handle
    Clear(usize),
    /// gated timers: the shell answers / drops the gate request the task awaits before it first
    /// polls the timer future
    OpenGate(usize),
    DropGate(usize),
    DropHandle(usize),
    DropRequest(usize),
    AnswerClear(usize),
    DropClearRequest(usize),
}

#[derive(Clone, Copy, Debug, PartialEq, Eq, PartialOrd, Ord, Serialize, Deserialize)]
pub struct TStep {
    pub act: TAct,
    pub observe: bool,
}

#[derive(Clone, Copy, Debug, PartialEq, Eq, PartialOrd, Ord)]
enum ReqSt {
    NotIssued,
    Pending,
    /// answered, the task has not run since
    Answered,
    /// answered and consumed / or answered late
    Spent,
    Dropped,
}

#[derive(Clone, Copy, Debug, PartialEq, Eq, PartialOrd, Ord)]
enum HandleSt {
    Held,
    ClearSent,
    Dropped,
}

#[derive(Clone, Copy, Debug, PartialEq, Eq, PartialOrd, Ord)]
enum Phase {
    Idle,
    Requested,
    Clearing,
    Done,
}

/// The property's protocol for one timer.
#[derive(Clone, Debug, PartialEq, Eq, PartialOrd, Ord)]
struct RefTimer {
    phase: Phase,
    handle: HandleSt,
    req: ReqSt,
    clear_req: ReqSt,
    woken: bool,
    outcome: Option<bool>, // Some(true)=completed, Some(false)=cleared
    /// None = not gated
    gate: Option<ReqSt>,
}

#[derive(Clone, Debug, PartialEq, Eq, PartialOrd, Ord)]
enum RefOut {
    Gate(usize),
    Request(usize),
    ClearRequest(usize),
    Completed(usize),
    Cleared(usize),
}

impl RefTimer {
    fn new() -> Self {
        RefTimer { phase: Phase::Idle, handle: HandleSt::Held, req: ReqSt::NotIssued, clear_req: ReqSt::NotIssued, woken: true, outcome: None, gate: None }
    }

    fn new_kind(k: TKind) -> Self {
        let mut t = RefTimer::new();
        if k.gated() {
            t.gate = Some(ReqSt::NotIssued);
        }
        t
    }

    fn live(&self) -> bool {
        self.phase != Phase::Done
    }

    fn run(&mut self, i: usize, out: &mut Vec<RefOut>) {
        if !self.woken {
            return;
        }
        self.woken = false;
        match self.phase {
            Phase::Idle => {
                match self.gate {
                    Some(ReqSt::NotIssued) => {
                        // the task asks for its gate and waits; the timer future exists but has
                        // not been polled
                        self.gate = Some(ReqSt::Pending);
                        out.push(RefOut::Gate(i));
                        return;
                    }
                    Some(ReqSt::Pending) => return,
                    Some(ReqSt::Dropped) => {
                        self.phase = Phase::Done;
                        return;
                    }
                    _ => {}
                }
                if self.handle == HandleSt::ClearSent {
                    // cleared before it was ever requested: nothing goes to the shell
                    self.phase = Phase::Done;
                    self.outcome = Some(false);
                    out.push(RefOut::Cleared(i));
                } else {
                    self.phase = Phase::Requested;
                    self.req = ReqSt::Pending;
                    out.push(RefOut::Request(i));
                }
            }
            Phase::Requested => {
                if self.req == ReqSt::Answered {
                    // the shell's answer was already waiting: completed, no clear
                    self.req = ReqSt::Spent;
                    self.phase = Phase::Done;
                    self.outcome = Some(true);
                    out.push(RefOut::Completed(i));
                } else if self.handle == HandleSt::ClearSent {
                    self.phase = Phase::Clearing;
                    self.clear_req = ReqSt::Pending;
                    out.push(RefOut::ClearRequest(i));
                } else if self.req == ReqSt::Dropped && self.handle == HandleSt::Dropped {
                    // nothing can wake it any more
                    self.phase = Phase::Done;
                }
            }
            Phase::Clearing => {
                if self.clear_req == ReqSt::Answered {
                    self.clear_req = ReqSt::Spent;
                    self.phase = Phase::Done;
                    self.outcome = Some(false);
                    out.push(RefOut::Cleared(i));
                } else if self.clear_req == ReqSt::Dropped {
                    self.phase = Phase::Done;
                }
            }
            Phase::Done => {}
        }
    }

    /// Returns the predicted result of a resolve where applicable: Some(true)=Ok, Some(false)=Err.
    fn apply(&mut self, act: TAct) -> Option<bool> {
        match act {
            TAct::Fire(_) => match self.req {
                ReqSt::Pending => {
                    self.req = ReqSt::Answered;
                    if self.phase == Phase::Requested {
                        self.woken = true;
                    } else {
                        // the timer no longer listens (clearing / done): ignored
                        self.req = ReqSt::Spent;
                    }
                    Some(true)
                }
                ReqSt::Answered | ReqSt::Spent => Some(false),
                _ => None,
            },
            TAct::OpenGate(_) => match self.gate {
                Some(ReqSt::Pending) => {
                    self.gate = Some(ReqSt::Answered);
                    self.woken = true;
                    Some(true)
                }
                Some(ReqSt::Answered) => Some(false),
                _ => None,
            },
            TAct::DropGate(_) => {
                if self.gate == Some(ReqSt::Pending) {
                    self.gate = Some(ReqSt::Dropped);
                    self.woken = true;
                }
                None
            }
            TAct::Clear(_) => {
                if self.handle == HandleSt::Held {
                    self.handle = HandleSt::ClearSent;
                    if self.phase == Phase::Requested {
                        self.woken = true;
                    }
                }
                None
            }
            TAct::DropHandle(_) => {
                if self.handle == HandleSt::Held {
                    self.handle = HandleSt::Dropped;
                    if self.phase == Phase::Requested {
                        self.woken = true;
                    }
                }
                None
            }
            TAct::DropRequest(_) => {
                if matches!(self.req, ReqSt::Pending) {
                    self.req = ReqSt::Dropped;
                    if self.phase == Phase::Requested {
                        self.woken = true;
                    }
                } else if self.req == ReqSt::Answered {
                    // answered and dropped: the answer is still waiting for the task
                }
                None
            }
            TAct::AnswerClear(_) => match self.clear_req {
                ReqSt::Pending => {
                    self.clear_req = ReqSt::Answered;
                    self.woken = true;
                    Some(true)
                }
                ReqSt::Answered | ReqSt::Spent => Some(false),
                _ => None,
            },
            TAct::DropClearRequest(_) => {
                if self.clear_req == ReqSt::Pending {
                    self.clear_req = ReqSt::Dropped;
                    self.woken = true;
                }
                None
            }
            TAct::Poll => None,
        }
    }
}

struct RealTimers {
    cmd: Command<TEffect, TEvent>,
    handles: Vec<Option<TimerHandle>>,
    ids: Vec<Option<TimerId>>,
    reqs: Vec<Option<Request<TimeRequest>>>,
    clear_reqs: Vec<Option<Request<TimeRequest>>>,
    gates: Vec<Option<Request<TimeRequest>>>,
    gate_seen: Vec<bool>,
    kinds: Vec<TKind>,
}

fn build(kinds: &[TKind]) -> RealTimers {
    let mut cmds = vec![];
    let mut handles = vec![];
    for (i, k) in kinds.iter().enumerate() {
        let (cmd, h): (Command<TEffect, TEvent>, TimerHandle) = match k {
            TKind::After => {
                let (b, h) = Time::<TEffect, TEvent>::notify_after(after_payload(i));
                (b.then_send(move |o| outcome_event(i, o)), h)
            }
            TKind::At => {
                let (b, h) = Time::<TEffect, TEvent>::notify_at(at_payload(i));
                (b.then_send(move |o| outcome_event(i, o)), h)
            }
            TKind::AfterGated => {
                let (b, h) = Time::<TEffect, TEvent>::notify_after(after_payload(i));
                let cmd = Command::new(move |ctx| async move {
                    let fut = b.into_future(ctx.clone());
                    let _gate = ctx.request_from_shell(TimeRequest::Now).await;
                    let o = fut.await;
                    ctx.send_event(outcome_event(i, o));
                });
                (cmd, h)
            }
            TKind::AtGated => {
                let (b, h) = Time::<TEffect, TEvent>::notify_at(at_payload(i));
                let cmd = Command::new(move |ctx| async move {
                    let fut = b.into_future(ctx.clone());
                    let _gate = ctx.request_from_shell(TimeRequest::Now).await;
                    let o = fut.await;
                    ctx.send_event(outcome_event(i, o));
                });
                (cmd, h)
            }
        };
        cmds.push(cmd);
        handles.push(Some(h));
    }
    let cmd = if cmds.len() == 1 { cmds.pop().unwrap() } else { Command::all(cmds) };
    let n = kinds.len();
    RealTimers {
        cmd,
        handles,
        ids: vec![None; n],
        reqs: (0..n).map(|_| None).collect(),
        clear_reqs: (0..n).map(|_| None).collect(),
        gates: (0..n).map(|_| None).collect(),
        gate_seen: vec![false; n],
        kinds: kinds.to_vec(),
    }
}

fn outcome_event(i: usize, o: TimerOutcome) -> TEvent {
    match o {
        TimerOutcome::Completed(_) => TEvent::Completed(i),
        TimerOutcome::Cleared => TEvent::Cleared(i),
        #[allow(unreachable_patterns)]
        _ => TEvent::Unknown(i),
    }
}

/// Every timer id seen in this process: a growable bit set (ids come from a counter, so they are
/// dense; hundreds of millions of them fit in a few MB).
pub struct IdSet(Vec<u64>);

impl IdSet {
    /// true if `id` was not present before
    pub fn insert(&mut self, id: usize) -> bool {
        let (w, b) = (id / 64, id % 64);
        if w >= self.0.len() {
            if w > (1 << 28) {
                // an id far outside anything a counter could have produced: keep it exact elsewhere
                return SPARSE_IDS.lock().unwrap().insert(id);
            }
            self.0.resize(w + 1 + w / 2, 0);
        }
        let fresh = self.0[w] & (1 << b) == 0;
        self.0[w] |= 1 << b;
        fresh
    }
}

static SPARSE_IDS: Mutex<BTreeSet<usize>> = Mutex::new(BTreeSet::new());
pub static ALL_IDS: Mutex<IdSet> = Mutex::new(IdSet(Vec::new()));

#[derive(Debug)]
pub struct TFail {
    pub key: String,
    pub what: String,
}

impl RealTimers {
    /// Polls and classifies the outputs. Returns them in reference terms.
    fn observe(&mut self, id_log: &mut Vec<usize>) -> Result<(Vec<RefOut>, bool), TFail> {
        let effects: Vec<TEffect> = self.cmd.effects().collect();
        let events: Vec<TEvent> = self.cmd.events().collect();
        let done = self.cmd.is_done();
        let mut out = vec![];
        for e in effects {
            let TEffect::Time(r) = e;
            match r.operation.clone() {
                TimeRequest::NotifyAfter { id, duration } => {
                    let i = after_index(std::time::Duration::from(duration));
                    if !self.kinds.get(i).map_or(false, |k| k.is_after()) {
                        return Err(TFail { key: "request/payload-altered".into(), what: format!("unexpected NotifyAfter payload {:?}", r.operation) });
                    }
                    if self.ids[i].is_some() {
                        return Err(TFail { key: "request/duplicate".into(), what: format!("timer {i} requested twice") });
                    }
                    self.ids[i] = Some(id);
                    id_log.push(id.0);
                    self.reqs[i] = Some(r);
                    out.push(RefOut::Request(i));
                }
                TimeRequest::NotifyAt { id, instant } => {
                    let i = at_index(SystemTime::from(instant));
                    if !self.kinds.get(i).map_or(false, |k| !k.is_after()) {
                        return Err(TFail { key: "request/payload-altered".into(), what: format!("unexpected NotifyAt payload {:?}", r.operation) });
                    }
                    if self.ids[i].is_some() {
                        return Err(TFail { key: "request/duplicate".into(), what: format!("timer {i} requested twice") });
                    }
                    self.ids[i] = Some(id);
                    id_log.push(id.0);
                    self.reqs[i] = Some(r);
                    out.push(RefOut::Request(i));
                }
                TimeRequest::Clear { id } => {
                    let Some(i) = self.ids.iter().position(|x| *x == Some(id)) else {
                        return Err(TFail { key: "clear/unknown-id".into(), what: format!("Clear for an id no timer was requested under: {id:?}") });
                    };
                    if self.clear_reqs[i].is_some() {
                        return Err(TFail { key: "clear/sent-twice".into(), what: format!("second Clear request for timer {i}") });
                    }
                    self.clear_reqs[i] = Some(r);
                    out.push(RefOut::ClearRequest(i));
                }
                TimeRequest::Now => {
                    // gate of the next gated timer (tasks are polled in index order)
                    let Some(i) = (0..self.kinds.len()).find(|i| self.kinds[*i].gated() && !self.gate_seen[*i]) else {
                        return Err(TFail { key: "request/unexpected-now".into(), what: "unexpected Now request".into() });
                    };
                    self.gate_seen[i] = true;
                    self.gates[i] = Some(r);
                    out.push(RefOut::Gate(i));
                }
            }
        }
        for e in events {
            out.push(match e {
                TEvent::Completed(i) => RefOut::Completed(i),
                TEvent::Cleared(i) => RefOut::Cleared(i),
                TEvent::Unknown(i) => return Err(TFail { key: "outcome/unknown-kind".into(), what: format!("timer {i} reported an outcome of a kind this harness does not know") }),
            });
        }
        out.sort();
        Ok((out, done))
    }

    fn apply(&mut self, act: TAct) -> Option<bool> {
        match act {
            TAct::Poll => None,
            TAct::Fire(i) => {
                let id = self.ids[i]?;
                let resp = if self.kinds[i].is_after() { TimeResponse::DurationElapsed { id } } else { TimeResponse::InstantArrived { id } };
                self.reqs[i].as_mut().map(|r| r.resolve(resp).is_ok())
            }
            TAct::OpenGate(i) => self.gates[i]
                .as_mut()
                .map(|r| r.resolve(TimeResponse::Now { instant: crux_time::Instant::new(1, 0) }).is_ok()),
            TAct::DropGate(i) => {
                self.gates[i] = None;
                None
            }
            TAct::Clear(i) => {
                if let Some(h) = self.handles[i].take() {
                    h.clear();
                }
                None
            }
            TAct::DropHandle(i) => {
                self.handles[i] = None;
                None
            }
            TAct::DropRequest(i) => {
                self.reqs[i] = None;
                None
            }
            TAct::AnswerClear(i) => {
                let id = self.ids[i]?;
                self.clear_reqs[i].as_mut().map(|r| r.resolve(TimeResponse::Cleared { id }).is_ok())
            }
            TAct::DropClearRequest(i) => {
                self.clear_reqs[i] = None;
                None
            }
        }
    }
}

#[derive(Default, Clone)]
pub struct TStats {
    pub states: u64,
    pub transitions: u64,
    pub histories: u64,
    pub steps: u64,
    pub outcomes: BTreeSet<Vec<Option<bool>>>,
    pub ids_seen: u64,
}

pub struct TFound {
    pub fail: TFail,
    pub kinds: Vec<TKind>,
    pub history: Vec<TStep>,
}

/// Replays `hist` on fresh real timers with the reference alongside; Err on the first divergence.
fn replay(kinds: &[TKind], hist: &[TStep], trace: bool) -> Result<(Vec<RefTimer>, Vec<usize>), TFail> {
    let mut real = build(kinds);
    let mut refs: Vec<RefTimer> = kinds.iter().map(|k| RefTimer::new_kind(*k)).collect();
    let mut ids = vec![];
    let mut outcomes_seen: Vec<u8> = vec![0; kinds.len()];
    for (n, st) in hist.iter().enumerate() {
        let r = mc_kit::catch(|| real.apply(st.act));
        let real_res = match r {
            Ok(v) => v,
            Err(p) => return Err(TFail { key: format!("panic/{}", p.key()), what: format!("step {n} {:?} panicked: {} at {}:{}", st.act, p.message, p.file, p.line) }),
        };
        let i = match st.act {
            TAct::Poll => None,
            TAct::Fire(i) | TAct::Clear(i) | TAct::DropHandle(i) | TAct::DropRequest(i) | TAct::AnswerClear(i) | TAct::DropClearRequest(i)
            | TAct::OpenGate(i) | TAct::DropGate(i) => Some(i),
        };
        let pred_res = i.and_then(|i| refs[i].apply(st.act));
        if trace {
            println!("  step {n}: {:?} -> result {:?} (reference {:?})", st, real_res, pred_res);
        }
        if real_res != pred_res {
            return Err(TFail {
                key: "resolve-result/differs".into(),
                what: format!("step {n} {:?}: resolve accepted = {:?}, protocol says {:?}", st.act, real_res, pred_res),
            });
        }
        if st.observe {
            let r = mc_kit::catch(|| real.observe(&mut ids));
            let (obs, done) = match r {
                Ok(Ok(v)) => v,
                Ok(Err(f)) => return Err(f),
                Err(p) => return Err(TFail { key: format!("panic/{}", p.key()), what: format!("poll after step {n} panicked: {} at {}:{}", p.message, p.file, p.line) }),
            };
            let mut pred = vec![];
            // the directly held command polls every woken task
            for (i, t) in refs.iter_mut().enumerate() {
                t.run(i, &mut pred);
            }
            pred.sort();
            let pred_done = refs.iter().all(|t| !t.live());
            if trace {
                println!("      observed {:?} done {done}; protocol {:?} done {pred_done}", obs, pred);
            }
            for o in &obs {
                if let RefOut::Completed(i) | RefOut::Cleared(i) = o {
                    outcomes_seen[*i] += 1;
                    if outcomes_seen[*i] > 1 {
                        return Err(TFail { key: "outcome/more-than-one".into(), what: format!("timer {i} reported a second outcome at step {n}") });
                    }
                }
            }
            if obs != pred {
                let key = if obs.iter().any(|o| matches!(o, RefOut::ClearRequest(_))) != pred.iter().any(|o| matches!(o, RefOut::ClearRequest(_))) {
                    "clear-request/differs"
                } else if obs.iter().any(|o| matches!(o, RefOut::Completed(_) | RefOut::Cleared(_))) != pred.iter().any(|o| matches!(o, RefOut::Completed(_) | RefOut::Cleared(_))) {
                    "outcome/differs"
                } else {
                    "outputs/differ"
                };
                return Err(TFail { key: key.into(), what: format!("after step {n} {:?}: observed {:?}, protocol {:?}", st.act, obs, pred) });
            }
            if done != pred_done {
                return Err(TFail { key: "done/differs".into(), what: format!("after step {n}: is_done {done}, protocol {pred_done}") });
            }
        }
    }
    Ok((refs, ids))
}

fn enabled(refs: &[RefTimer], depth: usize, max_depth: usize, silent_used: usize, max_silent: usize, late_used: usize, max_late: usize) -> Vec<TStep> {
    let mut v = vec![];
    if depth >= max_depth {
        return v;
    }
    if depth == 0 {
        // first poll, or something before it
        v.push(TStep { act: TAct::Poll, observe: true });
        for i in 0..refs.len() {
            v.push(TStep { act: TAct::Clear(i), observe: false });
            v.push(TStep { act: TAct::DropHandle(i), observe: false });
        }
        return v;
    }
    let mut push = |act: TAct, late: bool, v: &mut Vec<TStep>| {
        if late && late_used >= max_late {
            return;
        }
        v.push(TStep { act, observe: true });
        if silent_used < max_silent {
            v.push(TStep { act, observe: false });
        }
    };
    let any_unpolled = refs.iter().any(|t| t.phase == Phase::Idle && t.gate.map_or(true, |g| g == ReqSt::NotIssued));
    if any_unpolled {
        v.push(TStep { act: TAct::Poll, observe: true });
    }
    for (i, t) in refs.iter().enumerate() {
        match t.req {
            ReqSt::Pending => {
                push(TAct::Fire(i), t.phase != Phase::Requested, &mut v);
                push(TAct::DropRequest(i), t.phase != Phase::Requested, &mut v);
            }
            ReqSt::Answered | ReqSt::Spent => push(TAct::Fire(i), true, &mut v), // duplicate answer
            _ => {}
        }
        match t.gate {
            Some(ReqSt::Pending) => {
                push(TAct::OpenGate(i), false, &mut v);
                push(TAct::DropGate(i), false, &mut v);
            }
            Some(ReqSt::Answered) => push(TAct::OpenGate(i), true, &mut v),
            _ => {}
        }
        match t.handle {
            HandleSt::Held => {
                push(TAct::Clear(i), t.phase == Phase::Done, &mut v);
                push(TAct::DropHandle(i), t.phase == Phase::Done, &mut v);
            }
            _ => {}
        }
        match t.clear_req {
            ReqSt::Pending => {
                push(TAct::AnswerClear(i), false, &mut v);
                push(TAct::DropClearRequest(i), false, &mut v);
            }
            ReqSt::Answered | ReqSt::Spent => push(TAct::AnswerClear(i), true, &mut v),
            _ => {}
        }
    }
    v
}

pub fn explore(kinds: &[TKind], max_depth: usize, max_silent: usize, max_late: usize, stats: &mut TStats, found: &mut Vec<TFound>, sample: &mut Option<Vec<TStep>>) {
    fn is_late(refs: &[RefTimer], st: &TStep) -> bool {
        match st.act {
            TAct::Fire(i) => refs[i].phase != Phase::Requested || refs[i].req != ReqSt::Pending,
            TAct::DropRequest(i) => refs[i].phase != Phase::Requested,
            TAct::Clear(i) | TAct::DropHandle(i) => refs[i].phase == Phase::Done,
            TAct::AnswerClear(i) => refs[i].clear_req != ReqSt::Pending,
            TAct::OpenGate(i) => refs[i].gate != Some(ReqSt::Pending),
            _ => false,
        }
    }
    fn dfs(
        kinds: &[TKind], hist: &mut Vec<TStep>, refs: &[RefTimer], silent: usize, late: usize, max_depth: usize, max_silent: usize,
        max_late: usize, stats: &mut TStats, found: &mut Vec<TFound>, sample: &mut Option<Vec<TStep>>,
    ) {
        let steps = enabled(refs, hist.len(), max_depth, silent, max_silent, late, max_late);
        if steps.is_empty() {
            stats.histories += 1;
            stats.outcomes.insert(refs.iter().map(|t| t.outcome).collect());
            if sample.as_ref().map_or(true, |s| s.len() < hist.len()) {
                *sample = Some(hist.clone());
            }
            return;
        }
        for st in steps {
            let l = late + usize::from(is_late(refs, &st));
            hist.push(st);
            stats.transitions += 1;
            stats.steps += hist.len() as u64;
            match replay(kinds, hist, false) {
                Ok((refs2, ids)) => {
                    stats.states += 1;
                    // ids: pairwise distinct within the history, and never seen in the process
                    // before this history's timers were created (every replay creates new timers)
                    let mut all = ALL_IDS.lock().unwrap();
                    let mut dup = None;
                    for id in &ids {
                        if !all.insert(*id) {
                            dup = Some(*id);
                        }
                    }
                    stats.ids_seen += ids.len() as u64;
                    drop(all);
                    if let Some(id) = dup {
                        found.push(TFound {
                            fail: TFail { key: "timer-id/not-unique".into(), what: format!("timer id {id} was handed out twice in this process") },
                            kinds: kinds.to_vec(),
                            history: hist.clone(),
                        });
                    } else {
                        let s2 = silent + usize::from(!st.observe && hist.len() > 1);
                        dfs(kinds, hist, &refs2, s2, l, max_depth, max_silent, max_late, stats, found, sample);
                    }
                }
                Err(f) => {
                    stats.histories += 1;
                    if found.len() < 20 {
                        found.push(TFound { fail: f, kinds: kinds.to_vec(), history: hist.clone() });
                    }
                }
            }
            hist.pop();
        }
    }
    stats.states += 1;
    let refs: Vec<RefTimer> = kinds.iter().map(|k| RefTimer::new_kind(*k)).collect();
    dfs(kinds, &mut vec![], &refs, 0, 0, max_depth, max_silent, max_late, stats, found, sample);
}

/// Canary: a history whose real outcome is `Completed` must be rejected when the shell's answer is
/// withheld from the protocol machine.
pub fn canary() -> Result<(), String> {
    let kinds = [TKind::After];
    let good = [TStep { act: TAct::Poll, observe: true }, TStep { act: TAct::Fire(0), observe: true }];
    if replay(&kinds, &good, false).is_err() {
        return Err("timers canary: the plain fire history is rejected".into());
    }
    // same real steps, but tell the protocol the app cleared first (it did not)
    let mut real = build(&kinds);
    let mut ids = vec![];
    let _ = real.observe(&mut ids);
    real.apply(TAct::Fire(0));
    let (obs, _) = real.observe(&mut ids).map_err(|f| f.what)?;
    let mut t = RefTimer::new();
    let mut pred = vec![];
    t.run(0, &mut pred);
    t.apply(TAct::Clear(0));
    pred.clear();
    t.run(0, &mut pred);
    if obs == pred {
        return Err("timers canary: a completed timer was accepted as clearing".into());
    }
    Ok(())
}

pub fn replay_case(case: &Value) -> i32 {
    if case["engine"] == "timers-concurrent" {
        return concurrent::replay_case(case);
    }
    if case["api"] == "legacy" {
        return legacy::replay_case(case);
    }
    if case["api"] == "command-via-core" {
        return viacore::replay_case(case);
    }
    let kinds: Vec<TKind> = serde_json::from_value(case["timers"].clone()).unwrap();
    let hist: Vec<TStep> = serde_json::from_value(case["history"].clone()).unwrap();
    println!("replay: timers {:?}", kinds);
    match replay(&kinds, &hist, true) {
        Ok(_) => {
            println!("  no divergence");
            0
        }
        Err(f) => {
            println!("  DIVERGENCE {}: {}", f.key, f.what);
            1
        }
    }
}

pub fn case_json(kinds: &[TKind], hist: &[TStep]) -> Value {
    json!({"engine": "timers", "api": "command", "timers": kinds, "history": hist})
}

// ---------------------------------------------------------------------------------------------
// legacy capability API through Core

pub mod legacy {
    use super::*;
    use crux_core::render::Render;

    #[derive(Clone, Debug, PartialEq, Eq, Serialize, Deserialize)]
    pub enum LEvent {
        StartAfter,
        StartAt,
        /// start a timer and clear it again in the same update (before its task has run once)
        StartAfterCleared,
        StartAtCleared,
        Clear(usize),
        Outcome(usize, TimeResponse),
    }

    #[derive(Default)]
    pub struct LModel {
        pub ids: Vec<TimerId>,
        pub outcomes: Vec<(usize, TimeResponse)>,
    }

    #[derive(crux_core::macros::Effect)]
    pub struct LCaps {
        pub time: crux_time::Time<LEvent>,
        pub render: Render<LEvent>,
    }

    #[derive(Default)]
    pub struct LApp;

    impl crux_core::App for LApp {
        type Event = LEvent;
        type Model = LModel;
        type ViewModel = Vec<(usize, TimeResponse)>;
        type Capabilities = LCaps;
        type Effect = Effect;

        fn update(&self, event: LEvent, model: &mut LModel, caps: &LCaps) -> Command<Effect, LEvent> {
            match event {
                LEvent::StartAfter => {
                    let i = model.ids.len();
                    let id = caps.time.notify_after(after_payload(i), move |r| LEvent::Outcome(i, r));
                    model.ids.push(id);
                }
                LEvent::StartAt => {
                    let i = model.ids.len();
                    let id = caps
                        .time
                        .notify_at(at_payload(i), move |r| LEvent::Outcome(i, r));
                    model.ids.push(id);
                }
                LEvent::StartAfterCleared => {
                    let i = model.ids.len();
                    let id = caps.time.notify_after(after_payload(i), move |r| LEvent::Outcome(i, r));
                    model.ids.push(id);
                    caps.time.clear(id);
                }
                LEvent::StartAtCleared => {
                    let i = model.ids.len();
                    let id = caps
                        .time
                        .notify_at(at_payload(i), move |r| LEvent::Outcome(i, r));
                    model.ids.push(id);
                    caps.time.clear(id);
                }
                LEvent::Clear(i) => {
                    if let Some(id) = model.ids.get(i) {
                        caps.time.clear(*id);
                    }
                }
                LEvent::Outcome(i, r) => model.outcomes.push((i, r)),
            }
            Command::done()
        }

        fn view(&self, model: &LModel) -> Self::ViewModel {
            model.outcomes.clone()
        }
    }

    #[derive(Clone, Copy, Debug, PartialEq, Eq, PartialOrd, Ord, Serialize, Deserialize)]
    pub enum LAct {
        Start(TKind),
        /// start + clear within one update: the timer is cleared before its task first runs, so
        /// the shell is never asked for it: one clear notification, outcome Cleared at once
        StartCleared(TKind),
        Clear(usize),
        Fire(usize),
        DropRequest(usize),
    }

    /// Legacy protocol per timer: the clear notification goes out at once; the outcome is
    /// reported when the timer's task next runs, i.e. when the shell answers its request.
    #[derive(Clone, Debug, PartialEq, Eq)]
    struct LRef {
        cleared: bool,
        answered: bool,
        dropped: bool,
        outcome: Option<bool>,
    }

    pub struct LFound {
        pub fail: TFail,
        pub history: Vec<LAct>,
    }

    fn replay(hist: &[LAct], trace: bool) -> Result<Vec<LRef>, TFail> {
        let core: Core<LApp> = Core::new();
        let mut refs: Vec<LRef> = vec![];
        let mut kinds: Vec<TKind> = vec![];
        let mut ids: Vec<Option<TimerId>> = vec![];
        let mut reqs: Vec<Option<Request<TimeRequest>>> = vec![];
        let mut seen_outcomes = 0usize;
        for (n, act) in hist.iter().enumerate() {
            let mut expect_clear: Vec<usize> = vec![];
            let mut expect_request: Option<usize> = None;
            let mut expect_outcome: Option<(usize, bool)> = None;
            let mut id_from_clear: Option<usize> = None;
            let r = mc_kit::catch(|| match act {
                LAct::StartCleared(k) if k.is_after() => Some(core.process_event(LEvent::StartAfterCleared)),
                LAct::StartCleared(_) => Some(core.process_event(LEvent::StartAtCleared)),
                LAct::Start(k) if k.is_after() => Some(core.process_event(LEvent::StartAfter)),
                LAct::Start(_) => Some(core.process_event(LEvent::StartAt)),
                LAct::Clear(i) => Some(core.process_event(LEvent::Clear(*i))),
                LAct::Fire(i) => {
                    let id = ids[*i].unwrap();
                    let resp = if kinds[*i].is_after() { TimeResponse::DurationElapsed { id } } else { TimeResponse::InstantArrived { id } };
                    let req = reqs[*i].as_mut().unwrap();
                    match req.resolve(resp) {
                        Ok(()) => Some(core.process_event(LEvent::Clear(usize::MAX))), // no-op event runs the core
                        Err(_) => None,
                    }
                }
                LAct::DropRequest(i) => {
                    reqs[*i] = None;
                    Some(core.process_event(LEvent::Clear(usize::MAX)))
                }
            });
            let effects = match r {
                Ok(e) => e,
                Err(p) => return Err(TFail { key: format!("panic/{}", p.key()), what: format!("step {n} {:?} panicked: {} at {}:{}", act, p.message, p.file, p.line) }),
            };
            match act {
                LAct::Start(k) => {
                    kinds.push(*k);
                    ids.push(None);
                    reqs.push(None);
                    refs.push(LRef { cleared: false, answered: false, dropped: false, outcome: None });
                    expect_request = Some(refs.len() - 1);
                }
                LAct::StartCleared(k) => {
                    kinds.push(*k);
                    ids.push(None);
                    reqs.push(None);
                    // `dropped` = there is no request the shell could answer or drop
                    refs.push(LRef { cleared: true, answered: false, dropped: true, outcome: Some(false) });
                    let i = refs.len() - 1;
                    expect_clear.push(i);
                    expect_outcome = Some((i, false));
                    id_from_clear = Some(i);
                }
                LAct::Clear(i) => {
                    // exactly one clear notification for its id, every time the app asks
                    expect_clear.push(*i);
                    refs[*i].cleared = true;
                }
                LAct::Fire(i) => {
                    let t = &mut refs[*i];
                    if effects.is_none() {
                        if !t.answered {
                            return Err(TFail { key: "resolve-result/differs".into(), what: format!("step {n}: first answer to timer {i} rejected") });
                        }
                    } else if t.answered {
                        return Err(TFail { key: "resolve-result/differs".into(), what: format!("step {n}: second answer to timer {i} accepted") });
                    } else {
                        t.answered = true;
                        if t.outcome.is_none() && !t.dropped {
                            // cleared (and not yet noticed) -> Cleared, else completed
                            let cleared = t.cleared;
                            t.outcome = Some(!cleared);
                            expect_outcome = Some((*i, !cleared));
                        }
                    }
                }
                LAct::DropRequest(i) => refs[*i].dropped = true,
            }
            let effects = effects.unwrap_or_default();
            let mut got_clear = vec![];
            let mut got_request = None;
            for e in effects {
                match e {
                    Effect::Time(r) => match r.operation.clone() {
                        TimeRequest::NotifyAfter { id, duration } => {
                            let i = after_index(std::time::Duration::from(duration));
                            if i >= ids.len() {
                                return Err(TFail { key: "request/payload-altered".into(), what: format!("unexpected NotifyAfter payload {:?}", r.operation) });
                            }
                            ids[i] = Some(id);
                            reqs[i] = Some(r);
                            got_request = Some(i);
                            if !ALL_IDS.lock().unwrap().insert(id.0) {
                                return Err(TFail { key: "timer-id/not-unique".into(), what: format!("timer id {} handed out twice", id.0) });
                            }
                        }
                        TimeRequest::NotifyAt { id, instant } => {
                            let i = at_index(SystemTime::from(instant));
                            if i >= ids.len() {
                                return Err(TFail { key: "request/payload-altered".into(), what: format!("unexpected NotifyAt payload {:?}", r.operation) });
                            }
                            ids[i] = Some(id);
                            reqs[i] = Some(r);
                            got_request = Some(i);
                            if !ALL_IDS.lock().unwrap().insert(id.0) {
                                return Err(TFail { key: "timer-id/not-unique".into(), what: format!("timer id {} handed out twice", id.0) });
                            }
                        }
                        TimeRequest::Clear { id } => {
                            let i = match (ids.iter().position(|x| *x == Some(id)), id_from_clear) {
                                (Some(i), _) => i,
                                (None, Some(i)) if ids[i].is_none() => {
                                    // the timer was never requested: its id first shows in its clear notification
                                    ids[i] = Some(id);
                                    if !ALL_IDS.lock().unwrap().insert(id.0) {
                                        return Err(TFail { key: "timer-id/not-unique".into(), what: format!("timer id {} handed out twice", id.0) });
                                    }
                                    i
                                }
                                _ => return Err(TFail { key: "clear/unknown-id".into(), what: format!("Clear for unknown id {id:?}") }),
                            };
                            got_clear.push(i);
                        }
                        TimeRequest::Now => {}
                        #[allow(unreachable_patterns)]
                        other => return Err(TFail { key: "request/unknown-kind".into(), what: format!("request of a kind this harness does not know: {other:?}") }),
                    },
                    Effect::Render(_) => {}
                }
            }
            let view = core.view();
            let new_outcomes = &view[seen_outcomes..];
            seen_outcomes = view.len();
            if trace {
                println!("  step {n}: {:?} -> request {:?} clear {:?} outcomes {:?}", act, got_request, got_clear, new_outcomes);
            }
            if got_request != expect_request {
                return Err(TFail { key: "request/differs".into(), what: format!("step {n} {:?}: timer request {:?}, protocol {:?}", act, got_request, expect_request) });
            }
            if got_clear != expect_clear {
                return Err(TFail { key: "clear-request/differs".into(), what: format!("step {n} {:?}: clear notifications for {:?}, protocol {:?}", act, got_clear, expect_clear) });
            }
            let got_outcome: Vec<(usize, bool)> = new_outcomes
                .iter()
                .map(|(i, r)| (*i, !matches!(r, TimeResponse::Cleared { .. })))
                .collect();
            let want: Vec<(usize, bool)> = expect_outcome.into_iter().collect();
            if got_outcome != want {
                let key = if got_outcome.len() > want.len() { "outcome/unexpected" } else { "outcome/differs" };
                return Err(TFail { key: key.into(), what: format!("step {n} {:?}: outcomes (timer, completed) {:?}, protocol {:?}", act, got_outcome, want) });
            }
            for (i, r) in new_outcomes {
                let id = ids[*i].unwrap();
                let ok = match r {
                    TimeResponse::Cleared { id: x } | TimeResponse::DurationElapsed { id: x } | TimeResponse::InstantArrived { id: x } => *x == id,
                    TimeResponse::Now { .. } => false,
                    #[allow(unreachable_patterns)]
                    _ => false,
                };
                if !ok {
                    return Err(TFail { key: "outcome/wrong-id".into(), what: format!("outcome of timer {i} carries {:?}, its id is {:?}", r, id) });
                }
            }
        }
        Ok(refs)
    }

    pub fn explore(max_depth: usize, max_timers: usize, stats: &mut TStats, found: &mut Vec<LFound>, sample: &mut Option<Vec<LAct>>) {
        fn dfs(hist: &mut Vec<LAct>, refs: &[LRef], max_depth: usize, max_timers: usize, stats: &mut TStats, found: &mut Vec<LFound>, sample: &mut Option<Vec<LAct>>) {
            let mut steps = vec![];
            if hist.len() < max_depth {
                if refs.len() < max_timers {
                    steps.push(LAct::Start(TKind::After));
                    steps.push(LAct::Start(TKind::At));
                    steps.push(LAct::StartCleared(TKind::After));
                    steps.push(LAct::StartCleared(TKind::At));
                }
                for (i, t) in refs.iter().enumerate() {
                    let clears = hist.iter().filter(|a| **a == LAct::Clear(i)).count();
                    if clears < 2 {
                        steps.push(LAct::Clear(i));
                    }
                    let fires = hist.iter().filter(|a| **a == LAct::Fire(i)).count();
                    if !t.dropped && fires < 2 {
                        steps.push(LAct::Fire(i));
                    }
                    if !t.dropped && !t.answered {
                        steps.push(LAct::DropRequest(i));
                    }
                }
            }
            if steps.is_empty() {
                stats.histories += 1;
                stats.outcomes.insert(refs.iter().map(|t| t.outcome).collect());
                if sample.as_ref().map_or(true, |s| s.len() < hist.len()) {
                    *sample = Some(hist.clone());
                }
                return;
            }
            for st in steps {
                hist.push(st);
                stats.transitions += 1;
                stats.steps += hist.len() as u64;
                match replay(hist, false) {
                    Ok(refs2) => {
                        stats.states += 1;
                        dfs(hist, &refs2, max_depth, max_timers, stats, found, sample);
                    }
                    Err(f) => {
                        stats.histories += 1;
                        if found.len() < 20 {
                            found.push(LFound { fail: f, history: hist.clone() });
                        }
                    }
                }
                hist.pop();
            }
        }
        stats.states += 1;
        dfs(&mut vec![], &[], max_depth, max_timers, stats, found, sample);
    }

    /// Scripted long histories (an explicit list, each executed and checked step by step): many more
    /// timers than the tree explores come and go while one cleared timer waits for its answer - sizes
    /// around constants that bookkeeping of ids might use (64, 128).
    pub fn scale_histories() -> Vec<Vec<LAct>> {
        let mut out = vec![];
        for n in [63usize, 64, 65, 130] {
            for first in [TKind::After, TKind::At] {
                // cleared while pending, then n timers come and go, then the late answer
                let mut h = vec![LAct::Start(first), LAct::Clear(0)];
                for k in 1..=n {
                    h.push(LAct::Start(if k % 2 == 0 { TKind::At } else { TKind::After }));
                    h.push(LAct::Fire(k));
                }
                h.push(LAct::Fire(0));
                out.push(h);
                // the same with the n timers all still pending when the late answer arrives
                let mut h = vec![LAct::Start(first), LAct::Clear(0)];
                for k in 1..=n {
                    h.push(LAct::Start(if k % 3 == 0 { TKind::At } else { TKind::After }));
                }
                h.push(LAct::Fire(0));
                for k in 1..=n {
                    h.push(LAct::Fire(k));
                }
                out.push(h);
            }
            // n cleared timers wait at once; one uncleared timer completes; then all answers arrive
            let mut h = vec![LAct::Start(TKind::After)];
            for k in 1..=n {
                h.push(LAct::Start(if k % 2 == 0 { TKind::At } else { TKind::After }));
                h.push(LAct::Clear(k));
            }
            h.push(LAct::Fire(0));
            for k in (1..=n).rev() {
                h.push(LAct::Fire(k));
            }
            out.push(h);
            // n timers cleared in the update that started them, then an ordinary clear-while-pending
            let mut h = vec![];
            for k in 0..n {
                h.push(LAct::StartCleared(if k % 2 == 0 { TKind::At } else { TKind::After }));
            }
            h.push(LAct::Start(TKind::After));
            h.push(LAct::Clear(n));
            h.push(LAct::Fire(n));
            out.push(h);
        }
        out
    }

    pub fn run_scale(stats: &mut TStats, found: &mut Vec<LFound>) -> usize {
        let hs = scale_histories();
        let n = hs.len();
        for h in hs {
            stats.histories += 1;
            stats.transitions += h.len() as u64;
            stats.steps += h.len() as u64;
            match replay(&h, false) {
                Ok(refs) => {
                    stats.states += h.len() as u64;
                    stats.outcomes.insert(refs.iter().map(|t| t.outcome).take(8).collect());
                }
                Err(f) => found.push(LFound { fail: f, history: h }),
            }
        }
        n
    }

    pub fn case_json(hist: &[LAct]) -> Value {
        json!({"engine": "timers", "api": "legacy", "history": hist})
    }

    pub fn replay_case(case: &Value) -> i32 {
        let hist: Vec<LAct> = serde_json::from_value(case["history"].clone()).unwrap();
        match replay(&hist, true) {
            Ok(_) => {
                println!("  no divergence");
                0
            }
            Err(f) => {
                println!("  DIVERGENCE {}: {}", f.key, f.what);
                1
            }
        }
    }
}

// ---------------------------------------------------------------------------------------------
// command API through a real Core: handles live in the model, the app clears / drops them in update

pub mod viacore {
    use super::*;
    use crux_core::render::Render;

    #[derive(Clone, Debug, PartialEq, Eq, Serialize, Deserialize)]
    pub enum CEvent {
        Start(TKind),
        Clear(usize),
        DropHandle(usize),
        Noop,
        Outcome(usize, bool),
    }

    #[derive(Default)]
    pub struct CModel {
        pub handles: Vec<Option<TimerHandle>>,
        pub outcomes: Vec<(usize, bool)>,
    }

    #[derive(crux_core::macros::Effect)]
    pub struct CCaps {
        pub time: crux_time::Time<CEvent>,
        pub render: Render<CEvent>,
    }

    #[derive(Default)]
    pub struct CApp;

    impl crux_core::App for CApp {
        type Event = CEvent;
        type Model = CModel;
        type ViewModel = Vec<(usize, bool)>;
        type Capabilities = CCaps;
        type Effect = Effect;

        fn update(&self, event: CEvent, model: &mut CModel, _caps: &CCaps) -> Command<Effect, CEvent> {
            match event {
                CEvent::Start(k) => {
                    let i = model.handles.len();
                    let (cmd, h) = match k {
                        TKind::After | TKind::AfterGated => {
                            let (b, h) = Time::<Effect, CEvent>::notify_after(after_payload(i));
                            (b.then_send(move |o| CEvent::Outcome(i, matches!(o, TimerOutcome::Completed(_)))), h)
                        }
                        TKind::At | TKind::AtGated => {
                            let (b, h) = Time::<Effect, CEvent>::notify_at(at_payload(i));
                            (b.then_send(move |o| CEvent::Outcome(i, matches!(o, TimerOutcome::Completed(_)))), h)
                        }
                    };
                    model.handles.push(Some(h));
                    return cmd;
                }
                CEvent::Clear(i) => {
                    if let Some(h) = model.handles.get_mut(i).and_then(Option::take) {
                        h.clear();
                    }
                }
                CEvent::DropHandle(i) => {
                    if let Some(slot) = model.handles.get_mut(i) {
                        *slot = None;
                    }
                }
                CEvent::Noop => {}
                CEvent::Outcome(i, c) => model.outcomes.push((i, c)),
            }
            Command::done()
        }

        fn view(&self, model: &CModel) -> Self::ViewModel {
            model.outcomes.clone()
        }
    }

    #[derive(Clone, Copy, Debug, PartialEq, Eq, PartialOrd, Ord, Serialize, Deserialize)]
    pub enum CAct {
        Start(TKind),
        Fire(usize),
        Clear(usize),
        DropHandle(usize),
        DropRequest(usize),
        AnswerClear(usize),
    }

    pub struct CFound {
        pub fail: TFail,
        pub history: Vec<CAct>,
    }

    fn replay(hist: &[CAct], trace: bool) -> Result<Vec<RefTimer>, TFail> {
        let core: Core<CApp> = Core::new();
        let mut refs: Vec<RefTimer> = vec![];
        let mut kinds: Vec<TKind> = vec![];
        let mut ids: Vec<Option<TimerId>> = vec![];
        let mut reqs: Vec<Option<Request<TimeRequest>>> = vec![];
        let mut clear_reqs: Vec<Option<Request<TimeRequest>>> = vec![];
        let mut seen = 0usize;
        for (n, act) in hist.iter().enumerate() {
            // reference: apply the input, then the call settles
            let mut pred_res = None;
            match act {
                CAct::Start(k) => {
                    kinds.push(*k);
                    ids.push(None);
                    reqs.push(None);
                    clear_reqs.push(None);
                    refs.push(RefTimer::new());
                }
                CAct::Fire(i) => pred_res = refs[*i].apply(TAct::Fire(*i)),
                CAct::Clear(i) => {
                    refs[*i].apply(TAct::Clear(*i));
                }
                CAct::DropHandle(i) => {
                    refs[*i].apply(TAct::DropHandle(*i));
                }
                CAct::DropRequest(i) => {
                    refs[*i].apply(TAct::DropRequest(*i));
                }
                CAct::AnswerClear(i) => pred_res = refs[*i].apply(TAct::AnswerClear(*i)),
            }
            let r = mc_kit::catch(|| -> (Option<bool>, Vec<Effect>) {
                match act {
                    CAct::Start(k) => (None, core.process_event(CEvent::Start(*k))),
                    CAct::Clear(i) => (None, core.process_event(CEvent::Clear(*i))),
                    CAct::DropHandle(i) => (None, core.process_event(CEvent::DropHandle(*i))),
                    CAct::DropRequest(i) => {
                        reqs[*i] = None;
                        (None, core.process_event(CEvent::Noop))
                    }
                    CAct::Fire(i) => {
                        let id = ids[*i].unwrap();
                        let resp = if kinds[*i].is_after() { TimeResponse::DurationElapsed { id } } else { TimeResponse::InstantArrived { id } };
                        match reqs[*i].as_mut() {
                            Some(r) => match r.resolve(resp) {
                                Ok(()) => (Some(true), core.process_event(CEvent::Noop)),
                                Err(_) => (Some(false), vec![]),
                            },
                            None => (None, vec![]),
                        }
                    }
                    CAct::AnswerClear(i) => {
                        let id = ids[*i].unwrap();
                        match clear_reqs[*i].as_mut() {
                            Some(r) => match r.resolve(TimeResponse::Cleared { id }) {
                                Ok(()) => (Some(true), core.process_event(CEvent::Noop)),
                                Err(_) => (Some(false), vec![]),
                            },
                            None => (None, vec![]),
                        }
                    }
                }
            });
            let (real_res, effects) = match r {
                Ok(v) => v,
                Err(p) => return Err(TFail { key: format!("panic/{}", p.key()), what: format!("step {n} {:?} panicked: {} at {}:{}", act, p.message, p.file, p.line) }),
            };
            if real_res != pred_res {
                return Err(TFail { key: "resolve-result/differs".into(), what: format!("step {n} {:?}: resolve accepted = {:?}, protocol says {:?}", act, real_res, pred_res) });
            }
            let mut obs = vec![];
            for e in effects {
                match e {
                    Effect::Time(r) => match r.operation.clone() {
                        TimeRequest::NotifyAfter { id, duration } => {
                            let i = after_index(std::time::Duration::from(duration));
                            if i >= ids.len() || ids[i].is_some() {
                                return Err(TFail { key: "request/duplicate-or-altered".into(), what: format!("{:?}", r.operation) });
                            }
                            ids[i] = Some(id);
                            if !ALL_IDS.lock().unwrap().insert(id.0) {
                                return Err(TFail { key: "timer-id/not-unique".into(), what: format!("timer id {} handed out twice", id.0) });
                            }
                            reqs[i] = Some(r);
                            obs.push(RefOut::Request(i));
                        }
                        TimeRequest::NotifyAt { id, instant } => {
                            let i = at_index(SystemTime::from(instant));
                            if i >= ids.len() || ids[i].is_some() {
                                return Err(TFail { key: "request/duplicate-or-altered".into(), what: format!("{:?}", r.operation) });
                            }
                            ids[i] = Some(id);
                            if !ALL_IDS.lock().unwrap().insert(id.0) {
                                return Err(TFail { key: "timer-id/not-unique".into(), what: format!("timer id {} handed out twice", id.0) });
                            }
                            reqs[i] = Some(r);
                            obs.push(RefOut::Request(i));
                        }
                        TimeRequest::Clear { id } => {
                            let Some(i) = ids.iter().position(|x| *x == Some(id)) else {
                                return Err(TFail { key: "clear/unknown-id".into(), what: format!("Clear for unknown id {id:?}") });
                            };
                            if clear_reqs[i].is_some() {
                                return Err(TFail { key: "clear/sent-twice".into(), what: format!("second Clear request for timer {i}") });
                            }
                            clear_reqs[i] = Some(r);
                            obs.push(RefOut::ClearRequest(i));
                        }
                        TimeRequest::Now => {}
                        #[allow(unreachable_patterns)]
                        other => return Err(TFail { key: "request/unknown-kind".into(), what: format!("request of a kind this harness does not know: {other:?}") }),
                    },
                    Effect::Render(_) => {}
                }
            }
            let view = core.view();
            for (i, c) in &view[seen..] {
                obs.push(if *c { RefOut::Completed(*i) } else { RefOut::Cleared(*i) });
            }
            seen = view.len();
            obs.sort();
            let mut pred = vec![];
            if real_res != Some(false) {
                for (i, t) in refs.iter_mut().enumerate() {
                    t.run(i, &mut pred);
                }
            }
            pred.sort();
            if trace {
                println!("  step {n}: {:?} -> observed {:?}; protocol {:?}", act, obs, pred);
            }
            if obs != pred {
                let key = if obs.iter().any(|o| matches!(o, RefOut::ClearRequest(_))) != pred.iter().any(|o| matches!(o, RefOut::ClearRequest(_))) {
                    "clear-request/differs"
                } else {
                    "outcome/differs"
                };
                return Err(TFail { key: key.into(), what: format!("after step {n} {:?}: observed {:?}, protocol {:?}", act, obs, pred) });
            }
        }
        Ok(refs)
    }

    pub fn explore(max_depth: usize, max_timers: usize, stats: &mut TStats, found: &mut Vec<CFound>, sample: &mut Option<Vec<CAct>>) {
        fn dfs(hist: &mut Vec<CAct>, refs: &[RefTimer], late: usize, max_depth: usize, max_timers: usize, stats: &mut TStats, found: &mut Vec<CFound>, sample: &mut Option<Vec<CAct>>) {
            let mut steps: Vec<(CAct, bool)> = vec![];
            if hist.len() < max_depth {
                if refs.len() < max_timers {
                    steps.push((CAct::Start(TKind::After), false));
                    steps.push((CAct::Start(TKind::At), false));
                }
                for (i, t) in refs.iter().enumerate() {
                    match t.req {
                        ReqSt::Pending => {
                            steps.push((CAct::Fire(i), t.phase != Phase::Requested));
                            steps.push((CAct::DropRequest(i), t.phase != Phase::Requested));
                        }
                        ReqSt::Answered | ReqSt::Spent => steps.push((CAct::Fire(i), true)),
                        _ => {}
                    }
                    if t.handle == HandleSt::Held {
                        steps.push((CAct::Clear(i), t.phase == Phase::Done));
                        steps.push((CAct::DropHandle(i), t.phase == Phase::Done));
                    }
                    match t.clear_req {
                        ReqSt::Pending => steps.push((CAct::AnswerClear(i), false)),
                        ReqSt::Answered | ReqSt::Spent => steps.push((CAct::AnswerClear(i), true)),
                        _ => {}
                    }
                }
            }
            steps.retain(|(_, l)| !*l || late < 2);
            if steps.is_empty() {
                stats.histories += 1;
                stats.outcomes.insert(refs.iter().map(|t| t.outcome).collect());
                if sample.as_ref().map_or(true, |s| s.len() < hist.len()) {
                    *sample = Some(hist.clone());
                }
                return;
            }
            for (st, l) in steps {
                hist.push(st);
                stats.transitions += 1;
                match replay(hist, false) {
                    Ok(refs2) => {
                        stats.states += 1;
                        dfs(hist, &refs2, late + usize::from(l), max_depth, max_timers, stats, found, sample);
                    }
                    Err(f) => {
                        stats.histories += 1;
                        if found.len() < 20 {
                            found.push(CFound { fail: f, history: hist.clone() });
                        }
                    }
                }
                hist.pop();
            }
        }
        stats.states += 1;
        dfs(&mut vec![], &[], 0, max_depth, max_timers, stats, found, sample);
    }

    pub fn case_json(hist: &[CAct]) -> Value {
        json!({"engine": "timers", "api": "command-via-core", "history": hist})
    }

    pub fn replay_case(case: &Value) -> i32 {
        let hist: Vec<CAct> = serde_json::from_value(case["history"].clone()).unwrap();
        match replay(&hist, true) {
            Ok(_) => {
                println!("  no divergence");
                0
            }
            Err(f) => {
                println!("  DIVERGENCE {}: {}", f.key, f.what);
                1
            }
        }
    }
}

// ---------------------------------------------------------------------------------------------
// concurrent id allocation: 2-3 real threads create timers at the same time under the controlled
// scheduler, with every atomic operation of crux_time / crux_core a schedule point

pub mod concurrent {
    use super::*;
    use crate::sched::{explore_controlled, ControlledResult};

    /// ids of the timers one thread created, in creation order; plus whether two of its own handles
    /// compared equal
    type Out = (Vec<usize>, bool);

    fn body(per_thread: usize, t: usize) -> Box<dyn FnOnce() -> Out + Send> {
        Box::new(move || {
            let mut ids = vec![];
            let mut handles: Vec<TimerHandle> = vec![];
            for i in 0..per_thread {
                let (mut cmd, h): (Command<TEffect, TEvent>, TimerHandle) = if (t + i) % 2 == 0 {
                    let (b, h) = Time::<TEffect, TEvent>::notify_after(after_payload(2));
                    (b.then_send(move |o| outcome_event(i, o)), h)
                } else {
                    let (b, h) = Time::<TEffect, TEvent>::notify_at(at_payload(2));
                    (b.then_send(move |o| outcome_event(i, o)), h)
                };
                for e in cmd.effects() {
                    let TEffect::Time(r) = e;
                    match &r.operation {
                        TimeRequest::NotifyAfter { id, .. } | TimeRequest::NotifyAt { id, .. } => ids.push(id.0),
                        _ => {}
                    }
                }
                handles.push(h);
            }
            let own_equal = (0..handles.len()).any(|a| (a + 1..handles.len()).any(|b| handles[a] == handles[b]));
            (ids, own_equal)
        })
    }

    pub struct Found {
        pub key: String,
        pub what: String,
        pub threads: usize,
        pub per_thread: usize,
        pub choices: Vec<u8>,
    }

    fn judge(results: &[Option<Out>], threads: usize, per_thread: usize) -> Option<(String, String)> {
        let mut all = vec![];
        for r in results {
            let Some((ids, own_equal)) = r else { return Some(("concurrent/thread-did-not-finish".into(), "a creating thread did not return".into())) };
            if ids.len() != per_thread {
                return Some(("concurrent/timer-without-request".into(), format!("a thread created {per_thread} timers but saw {} requests", ids.len())));
            }
            if *own_equal {
                return Some(("concurrent/handles-compare-equal".into(), "two handles of different timers compare equal".into()));
            }
            all.extend(ids.iter().copied());
        }
        let distinct: BTreeSet<usize> = all.iter().copied().collect();
        if distinct.len() != threads * per_thread {
            return Some(("concurrent/timer-id-handed-out-twice".into(), format!("timer ids {all:?}: {} timers got {} distinct ids", all.len(), distinct.len())));
        }
        None
    }

    /// Canonical form of the ids of one execution: first-occurrence numbering in thread order, so
    /// that the process-wide counter's absolute value does not matter.
    fn show(results: &[Option<Out>]) -> String {
        let mut flat: Vec<usize> = results.iter().flatten().flat_map(|(ids, _)| ids.iter().copied()).collect();
        flat.sort_unstable();
        let shape: Vec<Vec<usize>> = results
            .iter()
            .map(|r| r.as_ref().map(|(ids, _)| ids.iter().map(|i| flat.iter().position(|x| x == i).unwrap()).collect()).unwrap_or_default())
            .collect();
        format!("{shape:?}")
    }

    /// (threads, timers per thread, preemption bound)
    pub fn explore(configs: &[(usize, usize, usize)], found: &mut Vec<Found>) -> Vec<(usize, usize, ControlledResult)> {
        // one worker per configuration (each execution runs its own 2-3 controlled threads)
        let results = mc_kit::par_map(configs, |_, &(threads, per_thread, bound)| {
            let name: &'static str = Box::leak(format!("T{threads}x{per_thread} threads create timers concurrently (command API)").into_boxed_str());
            let make = move || (0..threads).map(|t| body(per_thread, t)).collect::<Vec<_>>();
            explore_controlled(name, &make, bound, true, &show, &|ex| judge(&ex.results, threads, per_thread))
        });
        let mut out = vec![];
        for (&(threads, per_thread, _), res) in configs.iter().zip(results) {
            for (key, what, choices) in &res.violations {
                found.push(Found { key: key.clone(), what: what.clone(), threads, per_thread, choices: choices.clone() });
            }
            out.push((threads, per_thread, res));
        }
        out
    }

    pub fn case_json(f: &Found) -> Value {
        json!({"engine": "timers-concurrent", "threads": f.threads, "per_thread": f.per_thread, "choices": f.choices})
    }

    pub fn replay_case(case: &Value) -> i32 {
        let threads = case["threads"].as_u64().unwrap_or(2) as usize;
        let per_thread = case["per_thread"].as_u64().unwrap_or(1) as usize;
        let choices: Vec<u8> = serde_json::from_value(case["choices"].clone()).unwrap_or_default();
        let bodies = (0..threads).map(|t| body(per_thread, t)).collect::<Vec<_>>();
        let ex = crate::sched::run_controlled(bodies, &choices, true, "replay");
        for (i, d) in ex.decisions.iter().enumerate() {
            println!("  decision {i}: threads at {:?}, enabled {:?}, chose thread {}", d.at, d.enabled, d.enabled[d.chosen]);
        }
        println!("abort: {:?} panics: {:?} ids per thread: {:?}", ex.abort, ex.panics, ex.results);
        match judge(&ex.results, threads, per_thread) {
            Some((k, w)) => {
                println!("DIVERGENCE {k}: {w}");
                1
            }
            None => {
                println!("all timer ids distinct");
                0
            }
        }
    }

    /// Canary: the judge must reject an execution in which two timers share an id.
    pub fn canary() -> Result<(), String> {
        let bad = vec![Some((vec![7usize, 8], false)), Some((vec![8usize, 9], false))];
        if judge(&bad, 2, 2).is_none() {
            return Err("timers-concurrent canary: a repeated timer id was accepted".into());
        }
        let good = vec![Some((vec![7usize, 8], false)), Some((vec![10usize, 9], false))];
        if judge(&good, 2, 2).is_some() {
            return Err("timers-concurrent canary: distinct ids were rejected".into());
        }
        Ok(())
    }
}
