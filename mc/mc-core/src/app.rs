//! Verification app: two operation types, the event/effect types shared by all hosts, two legacy
//! capabilities and the `App` used by the Core and bridge hosts.

use std::sync::atomic::{AtomicBool, AtomicUsize, Ordering};

use crux_core::capability::{Capability, CapabilityContext, Operation};
use crux_core::{Command, Request};
use futures::StreamExt;
use serde::{Deserialize, Serialize};

use crate::dsl::{P, S};

// ---------------------------------------------------------------------------------------------
// Operations

#[derive(Clone, Debug, PartialEq, Eq, PartialOrd, Ord, Hash, Serialize, Deserialize)]
pub struct OpA {
    pub label: u16,
    /// value fed from a previous stage of a builder chain (0 = none)
    pub arg: u32,
    /// number of `map_effect`s this request went through
    pub tags: u8,
}

#[derive(Clone, Debug, PartialEq, Eq, PartialOrd, Ord, Hash, Serialize, Deserialize)]
pub struct OpB {
    pub label: u16,
    pub arg: u32,
    pub tags: u8,
}

#[derive(Clone, Debug, PartialEq, Eq, Serialize, Deserialize)]
pub struct OutB {
    pub v: u32,
    pub pad: String,
}

impl Operation for OpA {
    type Output = u32;
}

impl Operation for OpB {
    type Output = OutB;
}

pub trait VOp: Operation {
    fn make(label: u16, arg: u32) -> Self;
    fn val(out: Self::Output) -> u32;
    fn out(v: u32) -> Self::Output;
}

impl VOp for OpA {
    fn make(label: u16, arg: u32) -> Self {
        OpA { label, arg, tags: 0 }
    }
    fn val(out: u32) -> u32 {
        out
    }
    fn out(v: u32) -> u32 {
        v
    }
}

impl VOp for OpB {
    fn make(label: u16, arg: u32) -> Self {
        OpB { label, arg, tags: 0 }
    }
    fn val(out: OutB) -> u32 {
        out.v
    }
    fn out(v: u32) -> OutB {
        OutB { v, pad: "b".into() }
    }
}

/// Sites with an odd label use `OpB`, even labels `OpA`.
pub fn is_b(label: u16) -> bool {
    label % 2 == 1
}

// ---------------------------------------------------------------------------------------------
// Events

#[derive(Clone, Debug, PartialEq, Eq, PartialOrd, Ord, Hash, Serialize, Deserialize)]
pub enum Out {
    /// n-th plain event of site
    Mark { site: u16, n: u32 },
    /// value received for the request/stream of site
    Got { site: u16, val: u32 },
}

#[derive(Clone, Debug, PartialEq, Eq, PartialOrd, Ord, Hash, Serialize, Deserialize)]
pub enum Event {
    /// run a program through the command API (from the shell, or emitted by a `Trigger` atom)
    Start(P),
    /// run a program through the legacy capability API
    StartLegacy(P),
    /// shell probe: must change nothing but the log
    Noop,
    Out(Out),
    /// an event that went through `map_event`
    Tagged(Box<Event>),
}

impl Event {
    pub fn mark(s: S, n: u32) -> Event {
        Event::Out(Out::Mark { site: s.id, n })
    }
    pub fn got(s: S, val: u32) -> Event {
        Event::Out(Out::Got { site: s.id, val })
    }
    pub fn tagged(self) -> Event {
        Event::Tagged(Box::new(self))
    }
    pub fn peel(&self) -> (&Event, usize) {
        let mut e = self;
        let mut n = 0;
        while let Event::Tagged(inner) = e {
            e = inner;
            n += 1;
        }
        (e, n)
    }
}

/// Second pair of types for `from`/`into`.
pub enum Effect2 {
    A(Request<OpA>),
    B(Request<OpB>),
}
pub struct Event2(pub Event);

impl From<Effect> for Effect2 {
    fn from(e: Effect) -> Self {
        match e {
            Effect::CapA(r) => Effect2::A(r),
            Effect::CapB(r) => Effect2::B(r),
        }
    }
}
impl From<Effect2> for Effect {
    fn from(e: Effect2) -> Self {
        match e {
            Effect2::A(r) => Effect::CapA(r),
            Effect2::B(r) => Effect::CapB(r),
        }
    }
}
impl From<Event> for Event2 {
    fn from(e: Event) -> Self {
        Event2(e)
    }
}
impl From<Event2> for Event {
    fn from(e: Event2) -> Self {
        e.0
    }
}

// ---------------------------------------------------------------------------------------------
// Legacy capabilities

macro_rules! legacy_cap {
    ($name:ident, $op:ty) => {
        pub struct $name<Ev> {
            context: CapabilityContext<$op, Ev>,
        }

        impl<Ev> Capability<Ev> for $name<Ev> {
            type Operation = $op;
            type MappedSelf<MappedEv> = $name<MappedEv>;

            fn map_event<F, NewEv>(&self, f: F) -> Self::MappedSelf<NewEv>
            where
                F: Fn(NewEv) -> Ev + Send + Sync + 'static,
                Ev: 'static,
                NewEv: 'static + Send,
            {
                $name::new(self.context.map_event(f))
            }
        }

        impl<Ev: 'static + Send> $name<Ev> {
            pub fn new(context: CapabilityContext<$op, Ev>) -> Self {
                Self { context }
            }

            pub fn ctx(&self) -> CapabilityContext<$op, Ev> {
                self.context.clone()
            }
        }
    };
}

legacy_cap!(CapA, OpA);
legacy_cap!(CapB, OpB);

#[derive(crux_core::macros::Effect)]
pub struct Caps {
    pub a: CapA<Event>,
    pub b: CapB<Event>,
}

/// Realise a program through the legacy capability API (subset of the DSL, see `legacy_ok`).
pub fn legacy_ok(p: &P) -> bool {
    match p {
        P::Done | P::Event(_) | P::Notify(_) | P::Req(_) | P::Stream(_) | P::ReqReq(..) | P::Join(..)
        | P::Select(..) | P::Burst(..) | P::SpawnAfter(..) | P::HandOff(..) | P::StreamHandOff(..) => true,
        P::Trigger(_, q) => legacy_ok(q),
        // events of the sub-program go through `Capability::map_event` (child-app composition)
        P::MapEvent(q) => legacy_ok(q),
        P::And(a, b) => legacy_ok(a) && legacy_ok(b),
        P::All(v) => v.iter().all(legacy_ok),
        _ => false,
    }
}

async fn lreq(caps_a: &CapabilityContext<OpA, Event>, caps_b: &CapabilityContext<OpB, Event>, s: S, arg: u32) -> u32 {
    if is_b(s.label) {
        OpB::val(caps_b.request_from_shell(OpB::make(s.label, arg)).await)
    } else {
        OpA::val(caps_a.request_from_shell(OpA::make(s.label, arg)).await)
    }
}

/// `Legacy(q)` nodes of a command-API program: realise q through the capabilities, in pre-order.
pub fn start_legacy_parts(p: &P, caps: &Caps) {
    if let P::Legacy(q) = p {
        run_legacy(q, caps);
        return;
    }
    if matches!(p, P::Trigger(..)) {
        return; // the payload is started by its own update
    }
    for c in p.children() {
        start_legacy_parts(c, caps);
    }
}

pub fn run_legacy(p: &P, caps: &Caps) {
    let (ca, cb) = (caps.a.ctx(), caps.b.ctx());
    match p.clone() {
        P::Done => {}
        P::Event(s) => {
            let c = ca.clone();
            ca.spawn(async move { c.update_app(Event::mark(s, 0)) });
        }
        P::Trigger(_, q) => {
            let c = ca.clone();
            ca.spawn(async move { c.update_app(Event::StartLegacy(*q)) });
        }
        P::Notify(s) => {
            if is_b(s.label) {
                let c = cb.clone();
                cb.spawn(async move { c.notify_shell(OpB::make(s.label, 0)).await });
            } else {
                let c = ca.clone();
                ca.spawn(async move { c.notify_shell(OpA::make(s.label, 0)).await });
            }
        }
        P::Req(s) => {
            let (a, b) = (ca.clone(), cb.clone());
            ca.spawn(async move {
                let v = lreq(&a, &b, s, 0).await;
                a.update_app(Event::got(s, v));
            });
        }
        P::Stream(s) => {
            if is_b(s.label) {
                let c = cb.clone();
                cb.spawn(async move {
                    let mut st = c.stream_from_shell(OpB::make(s.label, 0));
                    while let Some(v) = st.next().await {
                        c.update_app(Event::got(s, OpB::val(v)));
                    }
                });
            } else {
                let c = ca.clone();
                ca.spawn(async move {
                    let mut st = c.stream_from_shell(OpA::make(s.label, 0));
                    while let Some(v) = st.next().await {
                        c.update_app(Event::got(s, OpA::val(v)));
                    }
                });
            }
        }
        P::ReqReq(s, t) => {
            let (a, b) = (ca.clone(), cb.clone());
            ca.spawn(async move {
                let v = lreq(&a, &b, s, 0).await;
                let w = lreq(&a, &b, t, v).await;
                a.update_app(Event::got(t, w));
            });
        }
        P::Join(s, t) => {
            let (a, b) = (ca.clone(), cb.clone());
            ca.spawn(async move {
                let (v, w) = futures::join!(lreq(&a, &b, s, 0), lreq(&a, &b, t, 0));
                a.update_app(Event::got(s, v));
                a.update_app(Event::got(t, w));
            });
        }
        P::Select(s, t) => {
            let (a, b) = (ca.clone(), cb.clone());
            ca.spawn(async move {
                let l = Box::pin(lreq(&a, &b, s, 0));
                let r = Box::pin(lreq(&a, &b, t, 0));
                match futures::future::select(l, r).await {
                    futures::future::Either::Left((v, _)) => a.update_app(Event::got(s, v)),
                    futures::future::Either::Right((w, _)) => a.update_app(Event::got(t, w)),
                }
            });
        }
        P::StreamHandOff(s, u) => {
            let (a, b) = (ca.clone(), cb.clone());
            ca.spawn(async move {
                let mut st: futures::stream::BoxStream<'static, u32> = if is_b(s.label) {
                    Box::pin(b.stream_from_shell(OpB::make(s.label, 0)).map(OpB::val))
                } else {
                    Box::pin(a.stream_from_shell(OpA::make(s.label, 0)).map(OpA::val))
                };
                if let Some(v) = st.next().await {
                    a.update_app(Event::got(s, v));
                    let a2 = a.clone();
                    a.spawn(async move {
                        while let Some(v) = st.next().await {
                            a2.update_app(Event::got(s, v));
                        }
                    });
                    let x = lreq(&a, &b, u, 0).await;
                    a.update_app(Event::got(u, x));
                }
            });
        }
        P::HandOff(s, t, u) => {
            let (a, b) = (ca.clone(), cb.clone());
            ca.spawn(async move {
                let owned = |site: S| {
                    let (a, b) = (a.clone(), b.clone());
                    Box::pin(async move { lreq(&a, &b, site, 0).await })
                };
                match futures::future::select(owned(s), owned(t)).await {
                    futures::future::Either::Left((v, rest)) => {
                        a.update_app(Event::got(s, v));
                        let a2 = a.clone();
                        a.spawn(async move {
                            let w = rest.await;
                            a2.update_app(Event::got(t, w));
                        });
                    }
                    futures::future::Either::Right((w, rest)) => {
                        a.update_app(Event::got(t, w));
                        let a2 = a.clone();
                        a.spawn(async move {
                            let v = rest.await;
                            a2.update_app(Event::got(s, v));
                        });
                    }
                }
                let x = lreq(&a, &b, u, 0).await;
                a.update_app(Event::got(u, x));
            });
        }
        P::Burst(m, s) => {
            let (a, b) = (ca.clone(), cb.clone());
            ca.spawn(async move {
                a.update_app(Event::mark(m, 0));
                a.update_app(Event::mark(m, 1));
                let v = lreq(&a, &b, s, 0).await;
                a.update_app(Event::mark(m, 2));
                a.update_app(Event::got(s, v));
                a.update_app(Event::mark(m, 3));
            });
        }
        // after its request resolves, the task spawns a second capability task which emits the
        // mark (a woken task feeding the executor's spawn queue)
        P::SpawnAfter(s, m) => {
            let (a, b) = (ca.clone(), cb.clone());
            ca.spawn(async move {
                let v = lreq(&a, &b, s, 0).await;
                let (a2, b2) = (a.clone(), b.clone());
                a.spawn(async move {
                    if is_b(m.label) {
                        b2.notify_shell(OpB::make(m.label, v)).await;
                    } else {
                        a2.notify_shell(OpA::make(m.label, v)).await;
                    }
                });
            });
        }
        P::MapEvent(q) => {
            let mapped = Caps { a: caps.a.map_event(Event::tagged), b: caps.b.map_event(Event::tagged) };
            run_legacy(&q, &mapped);
        }
        P::And(x, y) => {
            run_legacy(&x, caps);
            run_legacy(&y, caps);
        }
        P::All(v) => {
            for x in &v {
                run_legacy(x, caps);
            }
        }
        other => panic!("program not expressible in the legacy API: {other:?}"),
    }
}

// ---------------------------------------------------------------------------------------------
// The app

#[derive(Default)]
pub struct Model {
    pub log: Vec<Event>,
}

#[derive(Default)]
pub struct VApp {
    in_update: AtomicBool,
    pub reentered: AtomicUsize,
}

pub static REENTRIES: AtomicUsize = AtomicUsize::new(0);

impl crux_core::App for VApp {
    type Event = Event;
    type Model = Model;
    type ViewModel = Vec<Event>;
    type Capabilities = Caps;
    type Effect = Effect;

    fn update(&self, event: Event, model: &mut Model, caps: &Caps) -> Command<Effect, Event> {
        if self.in_update.swap(true, Ordering::SeqCst) {
            self.reentered.fetch_add(1, Ordering::SeqCst);
            REENTRIES.fetch_add(1, Ordering::SeqCst);
        }
        #[cfg(crux_verif)]
        crux_core::verif::point("app.update");
        let cmd = match event.peel().0 {
            Event::Start(p) => {
                start_legacy_parts(p, caps);
                crate::build::CAPS.with(|c| *c.borrow_mut() = Some((caps.a.ctx(), caps.b.ctx())));
                let cmd = crate::build::build(p);
                crate::build::CAPS.with(|c| *c.borrow_mut() = None);
                cmd
            }
            Event::StartLegacy(p) => {
                run_legacy(p, caps);
                Command::done()
            }
            _ => Command::done(),
        };
        model.log.push(event);
        self.in_update.store(false, Ordering::SeqCst);
        cmd
    }

    fn view(&self, model: &Model) -> Vec<Event> {
        model.log.clone()
    }
}
