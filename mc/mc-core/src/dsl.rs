//! Program DSL: terms that are *compiled to real crux values* (build.rs) and *interpreted* by the
//! independent reference (refmodel.rs).

use serde::{Deserialize, Serialize};

/// A request site. `id` is unique within a program; `label` is what the shell sees in the
/// operation (normally = id; "look-alike" programs give several sites the same label).
#[derive(Clone, Copy, Debug, PartialEq, Eq, PartialOrd, Ord, Hash, Serialize, Deserialize)]
pub struct S {
    pub id: u16,
    pub label: u16,
}

#[derive(Clone, Debug, PartialEq, Eq, PartialOrd, Ord, Hash, Serialize, Deserialize)]
pub enum P {
    /// `Command::done()`
    Done,
    /// `Command::event(mark)`
    Event(S),
    /// `Command::event(Start(p))`: an event that makes `update` return a further command.
    Trigger(S, Box<P>),
    /// `Command::notify_shell(op).into()`
    Notify(S),
    /// `request_from_shell(a).then_send(got)`
    Req(S),
    /// `stream_from_shell(a).then_send(got)`
    Stream(S),
    /// `request(a).then_request(|_| request(b)).then_send(got)`
    ReqReq(S, S),
    /// `request(a).then_stream(|_| stream(b)).then_send(got)`
    ReqStream(S, S),
    /// `stream(a).then_request(|_| request(b)).then_send(got)` (sequential per item)
    StreamReq(S, S),
    /// `stream(a).then_stream(|_| stream(b)).then_send(got)` (flatten_unordered)
    StreamStream(S, S),
    /// async with builders: `request(a).into_future(ctx)`, `notify(n).into_future(ctx)`, `stream(b).into_stream(ctx)`
    IntoFuture(S, S, S),
    /// Core hosts only: the sub-program is realised through the legacy capability API while `update` runs
    Legacy(Box<P>),
    /// Core hosts only: a command task awaits req a, then calls a *legacy* capability, which spawns a
    /// capability task that notifies the shell (site n, arg = value)
    MixedNotify(S, S),
    /// async: spawn(child: req a -> event); join!(jh, req b) -> event(b), mark m   (a join handle awaited
    /// alongside another wake source)
    JoinReq(S, S, S),
    /// task 1: join(request u -> event, request s -> value forwarded over a channel); task 2 reads the
    /// channel (events, final mark on close): a poll of task 1 can wake ANOTHER task while task 1
    /// itself is left without any waker (the other branch's request was dropped)
    JoinForward(S, S, S),
    /// async: spawn(child: req a -> event); select(jh, req b): child first -> mark m, b first -> event(b)
    SelectJoinReq(S, S, S),
    /// async: jh = spawn(child: req a -> event); jh.abort() at once; jh.await; mark m  (abort before the
    /// spawned task was ever polled: it must never run, and the waiter must be released)
    AbortSpawned(S, S),
    /// async: req a -> event(a); then the task fires its OWN command's abort handle; then mark m in the
    /// same poll (outputs emitted before / in the poll of the abort must still be delivered)
    SelfAbort(S, S),
    /// async: select(req a, req b); the winner's event; the still-pending loser future is handed to a
    /// newly spawned task, the original task goes on to await req c
    HandOff(S, S, S),
    /// async: loop { select(stream a .next(), req b) }: items -> event(a); b answered -> event(b), stop
    /// (a subscription with a stop request; the stream is dropped when the loop ends)
    StreamUntil(S, S),
    /// async: main spawns child1 (req a -> event; then spawns child2 (req b -> event)) and finishes
    SpawnChain(S, S),
    /// async: req a; then the task fires its own command's abort handle and emits nothing
    QuietSelfAbort(S),
    /// async: req a; then, in one poll, the task spawns a child (which would notify site m) and fires its
    /// own command's abort handle; emits nothing. The child is still in the spawn queue when the command
    /// is aborted: it must never run and the command must report done.   (request site, notify site)
    SpawnThenSelfAbort(S, S),
    /// async: join!(req a, async { v = req b; spawn(notify n with v) }); event(a)   (a task that spawns in
    /// the very poll in which it may turn out to be abandoned)
    JoinSpawn(S, S, S),
    /// async: st = stream a; first item -> event(a); the open stream is handed to a newly spawned task
    /// (items -> event(a)); the original task goes on to await req c
    StreamHandOff(S, S),
    /// `request(a).map(f).then_send(got)`
    ReqMap(S),
    /// `stream(a).map(f).then_send(got)`
    StreamMap(S),
    /// async: `join!(req a, req b)` then one event
    Join(S, S),
    /// async: `select(req a, req b)` (left-biased), loser dropped, one event
    Select(S, S),
    /// async: spawn(child: req a -> event); jh.await; event(mark)
    SpawnJoin(S, S),
    /// async: req a; then the task spawns a second task which notifies the shell (site m, arg = value)
    SpawnAfter(S, S),
    /// async: the task spawns a child that emits event(mark m) at once, then suspends on req a in the same
    /// poll without having emitted anything itself; event(a) when answered   (mark site, request site)
    SpawnEvent(S, S),
    /// async: events m0,m1 ; req a ; events m2,m3   (mark site, request site)
    Burst(S, S),
    /// async: self-waking future k times, then event
    SelfWake(S, u8),
    /// async: producer task (req a -> channel) / consumer task (channel -> event; final event on close)
    Channel(S, S),
    /// async: stream child (stream a -> events) + aborter child (req b; jh.abort()) + joiner (jh.await; event m)
    AbortChild(S, S, S),
    /// async: FuturesUnordered{req a, req b} -> events (extended atom, known finding K2)
    Unordered(S, S),
    /// async: `while let Some(out) = inner.next().await { forward }` around a sub-program
    Manual(Box<P>),
    /// async: task: req a; then abort handle of the sibling sub-program p (hosted via all)
    SiblingAbort(S, Box<P>),
    /// async: one task does `join(req a, drive the nested command p by hand through its public Stream
    /// impl)`; event(a) when both are through. The nested command's events are passed on with
    /// `ctx.send_event`, its effects reach the shell through a channel of the program's own (there is no
    /// public way to forward an effect). A hosting task that has *another* wake source besides the
    /// command it hosts. Command-level hosts only.
    JoinHosted(S, Box<P>),
    /// async: two handles to one child: spawn(child: req a->event); join(jh.clone(), jh); event m
    JoinTwice(S, S),
    /// like SpawnJoin, but the parent awaits `join(handle, 40 self-waking yields)`: the handle is polled
    /// dozens of times while its task is still running, then once more with no other waker user
    JoinBusy(S, S),
    Then(Box<P>, Box<P>),
    And(Box<P>, Box<P>),
    All(Vec<P>),
    MapEffect(Box<P>),
    MapEvent(Box<P>),
    /// `Command::from(p.into())` through a second pair of effect/event types
    FromInto(Box<P>),
    /// marks a node whose AbortHandle the shell side of the harness may fire (handle index)
    Abortable(u8, Box<P>),
}

impl P {
    pub fn then(a: P, b: P) -> P {
        P::Then(Box::new(a), Box::new(b))
    }
    pub fn and(a: P, b: P) -> P {
        P::And(Box::new(a), Box::new(b))
    }
    pub fn abortable(k: u8, p: P) -> P {
        P::Abortable(k, Box::new(p))
    }

    /// number of DSL nodes
    pub fn size(&self) -> usize {
        match self {
            P::Trigger(_, p) | P::Manual(p) | P::SiblingAbort(_, p) | P::JoinHosted(_, p) | P::MapEffect(p) | P::MapEvent(p)
            | P::FromInto(p) | P::Abortable(_, p) | P::Legacy(p) => 1 + p.size(),
            P::Then(a, b) | P::And(a, b) => 1 + a.size() + b.size(),
            P::All(v) => 1 + v.iter().map(P::size).sum::<usize>(),
            _ => 1,
        }
    }

    pub fn children_mut(&mut self) -> Vec<&mut P> {
        match self {
            P::Trigger(_, p) | P::Manual(p) | P::SiblingAbort(_, p) | P::JoinHosted(_, p) | P::MapEffect(p) | P::MapEvent(p)
            | P::FromInto(p) | P::Abortable(_, p) | P::Legacy(p) => vec![p.as_mut()],
            P::Then(a, b) | P::And(a, b) => vec![a.as_mut(), b.as_mut()],
            P::All(v) => v.iter_mut().collect(),
            _ => vec![],
        }
    }

    pub fn children(&self) -> Vec<&P> {
        match self {
            P::Trigger(_, p) | P::Manual(p) | P::SiblingAbort(_, p) | P::JoinHosted(_, p) | P::MapEffect(p) | P::MapEvent(p)
            | P::FromInto(p) | P::Abortable(_, p) | P::Legacy(p) => vec![p.as_ref()],
            P::Then(a, b) | P::And(a, b) => vec![a.as_ref(), b.as_ref()],
            P::All(v) => v.iter().collect(),
            _ => vec![],
        }
    }

    pub fn sites_mut(&mut self) -> Vec<&mut S> {
        match self {
            P::Event(a) | P::Notify(a) | P::Req(a) | P::Stream(a) | P::ReqMap(a) | P::StreamMap(a) | P::QuietSelfAbort(a)
            | P::SelfWake(a, _) | P::Trigger(a, _) | P::SiblingAbort(a, _) | P::JoinHosted(a, _) => vec![a],
            P::ReqReq(a, b) | P::ReqStream(a, b) | P::StreamReq(a, b) | P::StreamStream(a, b)
            | P::Join(a, b) | P::Select(a, b) | P::SpawnJoin(a, b) | P::SpawnAfter(a, b) | P::SpawnEvent(a, b) | P::Burst(a, b) | P::Channel(a, b)
            | P::Unordered(a, b) | P::JoinTwice(a, b) | P::JoinBusy(a, b) | P::MixedNotify(a, b) | P::AbortSpawned(a, b) | P::SelfAbort(a, b) | P::SpawnThenSelfAbort(a, b)
            | P::StreamUntil(a, b) | P::SpawnChain(a, b) | P::StreamHandOff(a, b) => vec![a, b],
            P::AbortChild(a, b, c) | P::IntoFuture(a, b, c) | P::JoinReq(a, b, c) | P::JoinForward(a, b, c) | P::SelectJoinReq(a, b, c) | P::HandOff(a, b, c)
            | P::JoinSpawn(a, b, c) => vec![a, b, c],
            _ => vec![],
        }
    }

    /// Renumber all sites in pre-order starting at `next` (ids unique, label = id) and all
    /// abort handles in pre-order. Returns the next free id.
    pub fn renumber(&mut self, next: &mut u16, next_handle: &mut u8) {
        for s in self.sites_mut() {
            s.id = *next;
            s.label = *next;
            *next += 1;
        }
        if let P::Abortable(k, _) = self {
            *k = *next_handle;
            *next_handle += 1;
        }
        for c in self.children_mut() {
            c.renumber(next, next_handle);
        }
    }

    pub fn normalized(mut self) -> P {
        let (mut n, mut h) = (1, 0);
        self.renumber(&mut n, &mut h);
        self
    }

    pub fn abort_handles(&self) -> usize {
        let own = usize::from(matches!(self, P::Abortable(..)));
        own + self.children().iter().map(|c| c.abort_handles()).sum::<usize>()
    }

    pub fn contains(&self, pred: &dyn Fn(&P) -> bool) -> bool {
        pred(self) || self.children().iter().any(|c| c.contains(pred))
    }

    /// Give every request-like site the same label (look-alike variant).
    pub fn lookalike(mut self, label: u16) -> P {
        fn walk(p: &mut P, label: u16) {
            match p {
                P::Event(_) | P::SelfWake(..) => {}
                P::Trigger(..) => {}
                P::SpawnJoin(a, _) | P::Burst(_, a) | P::SpawnEvent(_, a) | P::JoinTwice(a, _) | P::JoinBusy(a, _) => a.label = label,
                P::AbortChild(a, b, _) => {
                    a.label = label;
                    b.label = label;
                }
                P::SiblingAbort(a, _) => a.label = label,
                _ => {
                    for s in p.sites_mut() {
                        s.label = label;
                    }
                }
            }
            for c in p.children_mut() {
                walk(c, label);
            }
        }
        walk(&mut self, label);
        self
    }
}

fn s0() -> S {
    S { id: 0, label: 0 }
}

/// Atom sets. Sites are placeholders until `normalized()`.
pub fn basic_atoms() -> Vec<P> {
    vec![P::Done, P::Event(s0()), P::Notify(s0()), P::Req(s0()), P::Stream(s0())]
}

pub fn builder_atoms() -> Vec<P> {
    vec![
        P::ReqReq(s0(), s0()),
        P::ReqStream(s0(), s0()),
        P::StreamReq(s0(), s0()),
        P::StreamStream(s0(), s0()),
        P::ReqMap(s0()),
        P::StreamMap(s0()),
    ]
}

pub fn async_atoms() -> Vec<P> {
    vec![
        P::Join(s0(), s0()),
        P::Select(s0(), s0()),
        P::SpawnJoin(s0(), s0()),
        P::SpawnAfter(s0(), s0()),
        P::Burst(s0(), s0()),
        P::SelfWake(s0(), 2),
        P::Channel(s0(), s0()),
        P::AbortChild(s0(), s0(), s0()),
        P::JoinTwice(s0(), s0()),
        P::IntoFuture(s0(), s0(), s0()),
        P::JoinReq(s0(), s0(), s0()),
        P::AbortSpawned(s0(), s0()),
        P::SelfAbort(s0(), s0()),
        P::QuietSelfAbort(s0()),
        P::StreamUntil(s0(), s0()),
        P::SpawnChain(s0(), s0()),
        P::HandOff(s0(), s0(), s0()),
        P::JoinSpawn(s0(), s0(), s0()),
        P::StreamHandOff(s0(), s0()),
        P::SelectJoinReq(s0(), s0(), s0()),
    ]
}

pub fn all_atoms() -> Vec<P> {
    let mut v = basic_atoms();
    v.extend(builder_atoms());
    v.extend(async_atoms());
    v
}

#[derive(Clone, Copy, Debug)]
pub struct Grammar {
    pub unary: bool,
    pub abortable: bool,
    pub manual: bool,
    pub trigger: bool,
    pub sibling_abort: bool,
    pub all3: bool,
}

impl Grammar {
    pub fn plain() -> Self {
        Grammar { unary: true, abortable: false, manual: true, trigger: false, sibling_abort: false, all3: true }
    }
    pub fn with_abort() -> Self {
        Grammar { abortable: true, sibling_abort: true, ..Self::plain() }
    }
}

/// All terms with exactly `n` nodes over `atoms` (un-normalised).
pub fn terms_of_size(n: usize, atoms: &[P], g: Grammar, memo: &mut Vec<Vec<P>>) -> Vec<P> {
    while memo.len() <= n {
        let k = memo.len();
        let mut out = vec![];
        if k == 0 {
            memo.push(out);
            continue;
        }
        if k == 1 {
            out.extend(atoms.iter().cloned());
        } else {
            // unary wrappers over size k-1
            for p in memo[k - 1].clone() {
                if g.unary {
                    out.push(P::MapEffect(Box::new(p.clone())));
                    out.push(P::MapEvent(Box::new(p.clone())));
                    out.push(P::FromInto(Box::new(p.clone())));
                    out.push(P::All(vec![p.clone()]));
                }
                if g.manual {
                    out.push(P::Manual(Box::new(p.clone())));
                }
                if g.abortable && !matches!(p, P::Abortable(..)) {
                    out.push(P::Abortable(0, Box::new(p.clone())));
                }
                if g.trigger {
                    out.push(P::Trigger(s0(), Box::new(p.clone())));
                }
                if g.sibling_abort {
                    out.push(P::SiblingAbort(s0(), Box::new(p.clone())));
                }
            }
            // binary over sizes i + j = k-1
            for i in 1..k - 1 {
                let j = k - 1 - i;
                for a in memo[i].clone() {
                    for b in memo[j].clone() {
                        out.push(P::then(a.clone(), b.clone()));
                        out.push(P::and(a.clone(), b.clone()));
                        out.push(P::All(vec![a.clone(), b.clone()]));
                    }
                }
            }
            // ternary all
            if g.all3 && k >= 4 {
                for i in 1..k - 2 {
                    for j in 1..k - 1 - i {
                        let l = k - 1 - i - j;
                        if l < 1 {
                            continue;
                        }
                        for a in memo[i].clone() {
                            for b in memo[j].clone() {
                                for c in memo[l].clone() {
                                    out.push(P::All(vec![a.clone(), b.clone(), c.clone()]));
                                }
                            }
                        }
                    }
                }
            }
        }
        memo.push(out);
    }
    memo[n].clone()
}

/// All normalised terms with at most `n` nodes.
pub fn terms_up_to(n: usize, atoms: &[P], g: Grammar) -> Vec<P> {
    let mut memo = vec![];
    let mut out = vec![];
    for k in 1..=n {
        for p in terms_of_size(k, atoms, g, &mut memo) {
            out.push(p.normalized());
        }
    }
    out.sort();
    out.dedup();
    out
}
