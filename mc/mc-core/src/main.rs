mod app;
mod build;
mod dsl;
mod hosts;
mod refmodel;
mod seqx;

use hosts::HostKind;

fn dev(args: &[String]) {
    let host = match args.get(0).map(String::as_str) {
        Some("stream") => HostKind::StreamPoll,
        Some("core") => HostKind::CoreCmd,
        Some("legacy") => HostKind::CoreLegacy,
        Some("bincode") => HostKind::Bincode,
        Some("json") => HostKind::Json,
        _ => HostKind::Direct,
    };
    let n: usize = args.get(1).and_then(|s| s.parse().ok()).unwrap_or(2);
    let depth: usize = args.get(2).and_then(|s| s.parse().ok()).unwrap_or(5);
    let aborts: u8 = args.get(3).and_then(|s| s.parse().ok()).unwrap_or(0);
    let g = if aborts > 0 { dsl::Grammar::with_abort() } else { dsl::Grammar::plain() };
    let progs = dsl::terms_up_to(n, &dsl::all_atoms(), g);
    let progs: Vec<_> = progs
        .into_iter()
        .filter(|p| host != HostKind::CoreLegacy || app::legacy_ok(p))
        .collect();
    let bounds = seqx::Bounds {
        depth,
        items_per_stream: 2,
        max_aborts: aborts,
        max_silent: 1,
        max_late: 1,
        abort_before_start: true,
    };
    eprintln!("{} programs", progs.len());
    let t0 = std::time::Instant::now();
    let results = mc_kit::par_map(&progs, |_, p| {
        let mut ex = seqx::Explorer::new(host, p, &bounds);
        ex.node_cap = 2_000_000;
        ex.run();
        (ex.stats.clone(), ex.found.into_iter().map(|f| (f.failure, f.history)).collect::<Vec<_>>())
    });
    let mut total = seqx::Stats::default();
    let mut keys = std::collections::BTreeMap::<String, (usize, String)>::new();
    for (i, (st, found)) in results.iter().enumerate() {
        total.merge(st);
        for (f, h) in found {
            let e = keys.entry(f.key.clone()).or_insert((0, String::new()));
            e.0 += 1;
            let desc = format!("{:?}\n    history {:?}\n    {}", progs[i], h.iter().map(seqx::step_json).collect::<Vec<_>>(), f.what);
            if e.1.is_empty() || desc.len() < e.1.len() {
                e.1 = desc;
            }
        }
    }
    for (k, (n, d)) in &keys {
        println!("== {k} ×{n}\n    {d}");
    }
    println!(
        "programs {} states {} transitions {} histories {} steps {} max_alts {} max_depth {} outcomes {} capped {} in {:.1}s",
        total.programs, total.states, total.transitions, total.histories, total.steps_executed, total.max_alts,
        total.max_depth, total.outcomes.len(), total.capped, t0.elapsed().as_secs_f64()
    );
}

fn main() {
    let args: Vec<String> = std::env::args().skip(1).collect();
    match args.first().map(String::as_str) {
        Some("dev") => dev(&args[1..]),
        _ => {
            eprintln!("engine not built yet");
            std::process::exit(2);
        }
    }
}
