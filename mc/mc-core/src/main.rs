mod app;
mod build;
mod dsl;
mod hosts;
mod laws;
mod props;
mod refmodel;
mod sched;
mod seqx;
mod timers;

use hosts::HostKind;
use mc_kit::{Reporter, Tier};
use serde_json::json;

fn dev(args: &[String]) {
    let host = match args.first().map(String::as_str) {
        Some("stream") => HostKind::StreamPoll,
        Some("core") => HostKind::CoreCmd,
        Some("legacy") => HostKind::CoreLegacy,
        Some("bincode") => HostKind::Bincode,
        Some("json") => HostKind::Json,
        _ => HostKind::Direct,
    };
    let n: usize = args.get(1).and_then(|s| s.parse().ok()).unwrap_or(2);
    let depth: usize = args.get(2).and_then(|s| s.parse().ok()).unwrap_or(5);
    let aborts: u8 = args.get(3).and_then(|s| s.parse().ok()).unwrap_or(0);
    let g = if aborts > 0 { dsl::Grammar::with_abort() } else { dsl::Grammar::plain() };
    let progs = dsl::terms_up_to(n, &dsl::all_atoms(), g);
    let progs: Vec<_> = progs.into_iter().filter(|p| host != HostKind::CoreLegacy || app::legacy_ok(p)).collect();
    let bounds = seqx::Bounds { depth, items_per_stream: 2, max_aborts: aborts, max_silent: 1, max_late: 1, abort_before_start: true, max_spawn_more: 0 };
    eprintln!("{} programs", progs.len());
    let t0 = std::time::Instant::now();
    let results = mc_kit::par_map(&progs, |_, p| {
        let mut ex = seqx::Explorer::new(host, p, &bounds);
        ex.node_cap = 2_000_000;
        ex.run();
        (ex.stats.clone(), ex.found.into_iter().map(|f| (f.failure, f.history)).collect::<Vec<_>>())
    });
    let mut total = seqx::Stats::default();
    let mut keys = std::collections::BTreeMap::<String, (usize, String)>::new();
    for (i, (st, found)) in results.iter().enumerate() {
        total.merge(st);
        for (f, h) in found {
            let e = keys.entry(f.key.clone()).or_insert((0, String::new()));
            e.0 += 1;
            let desc = format!("{:?}\n    history {:?}\n    {}", progs[i], h.iter().map(seqx::step_json).collect::<Vec<_>>(), f.what);
            if e.1.is_empty() || desc.len() < e.1.len() {
                e.1 = desc;
            }
        }
    }
    for (k, (n, d)) in &keys {
        println!("== {k} ×{n}\n    {d}");
    }
    println!(
        "programs {} states {} transitions {} histories {} steps {} max_alts {} max_depth {} outcomes {} capped {} in {:.1}s",
        total.programs, total.states, total.transitions, total.histories, total.steps_executed, total.max_alts,
        total.max_depth, total.outcomes.len(), total.capped, t0.elapsed().as_secs_f64()
    );
}

fn seqx_property(id: &str, tier: Tier) -> i32 {
    let rep = Reporter::new(id, tier);
    let suites = props::suites(id, tier);
    let (deadline, cap) = match tier {
        Tier::Quick => (45.0, 400_000),
        Tier::Thorough => (780.0, 5_000_000),
    };
    let out = props::run_suites(&rep, &suites, deadline, cap);
    let extra = props::extra_cases(id, &rep);
    let mut sched_cov = json!(null);
    if id == "C03" {
        // "never concurrently / in emission order" under two or three shell threads: the drivers of
        // the scheduler exploration (C08) in which events are emitted while another thread is
        // inside the core
        let scns: Vec<_> = sched::scenarios(tier == Tier::Thorough)
            .into_iter()
            .filter(|s| ["S5", "S6", "S13", "S3 "].iter().any(|p| s.name.starts_with(p)))
            .collect();
        let deadline = mc_kit::Deadline::new(tier.pick(30.0, 400.0));
        let results = mc_kit::par_map(&scns, |_, s| sched::explore(s, tier.pick(2, 3), tier.pick(40_000, 2_000_000), &deadline));
        let mut per = vec![];
        for r in &results {
            per.push(json!({"scenario": r.name, "executions": r.executions, "executions_by_preemption_bound": r.by_bound,
                "preemption_bound_completed": r.bound_completed, "distinct_event_logs": r.distinct_logs}));
            for (key, what, replay) in &r.violations {
                rep.violation(mc_kit::Violation { key: format!("concurrent/{key}"), what: what.clone(), replay: replay.clone(), size: what.len() });
            }
        }
        sched_cov = json!({"method": "controlled scheduler over real threads (engine sched, see C08): every interleaving with <= 2 (thorough 3) preemptions; oracle: events of one task applied in emission order, update never entered concurrently, outcome equals a sequential order", "drivers": per});
    }
    let mut law_cov = json!(null);
    if id == "C04" {
        let laws = laws::laws(tier == Tier::Thorough);
        let depth = tier.pick(5, 6);
        let results = mc_kit::par_map(&laws, |_, l| {
            let mut st = laws::LStats::default();
            let mut found = vec![];
            laws::explore(l, depth, &mut st, &mut found);
            (st, found)
        });
        let mut tot = laws::LStats::default();
        let mut names = std::collections::BTreeMap::<&str, u64>::new();
        for (l, (st, found)) in laws.iter().zip(results) {
            tot.laws += st.laws;
            tot.states += st.states;
            tot.transitions += st.transitions;
            tot.histories += st.histories;
            tot.outcomes.extend(st.outcomes);
            *names.entry(l.name).or_default() += 1;
            for f in found {
                rep.violation(mc_kit::Violation {
                    key: format!("law/{}", f.law.replace(' ', "")),
                    what: format!("law `{}` fails for operands {}: history {:?}: {}", f.law, f.describe, f.history, f.what),
                    replay: json!({"engine": "laws", "law": f.law, "operands": f.describe, "history": f.history}),
                    size: f.describe.len() + f.history.len(),
                });
            }
        }
        law_cov = json!({"law_instances": tot.laws, "instances_per_law": names, "states": tot.states, "transitions": tot.transitions,
            "complete_histories": tot.histories, "distinct_outcomes": tot.outcomes.len(), "depth_bound": depth,
            "method": "differential: both sides are real commands driven by the same history (resolve, re-resolve, drop; observed or one unobserved step), observations compared as multisets per step plus is_done and resolve results; no reference involved"});
    }
    if out.stats.outcomes.len() < 2 || out.stats.programs < 2 {
        mc_kit::machinery_error("vacuous exploration: fewer than 2 distinct outcomes");
    }
    let coverage = json!({
        "states": out.stats.states,
        "transitions": out.stats.transitions,
        "traces_validated_against_impl": out.stats.histories,
        "evaluations": out.stats.histories,
        "distinct_nontrivial": out.stats.outcomes.len(),
        "rule": "states = nodes of the history trees (program x shell history prefix), each re-executed from a fresh real object; transitions = tree edges (one shell step: resolve / re-resolve / drop / abort, observed or unobserved); every node's observation (effects, events, is_done, live tasks, resolve results, queue gauges) is compared with the set-valued reference. distinct_nontrivial = number of distinct (effects, events) observations seen after a step.",
        "programs": out.stats.programs,
        "real_steps_executed": out.stats.steps_executed,
        "max_live_reference_alternatives": out.stats.max_alts,
        "max_history_depth_reached": out.stats.max_depth,
        "suites": out.per_suite,
        "exhaustive": !out.stats.capped,
        "caps": if out.stats.capped { "a per-program node cap or the wall-clock deadline cut some history trees; see per-suite 'capped'" } else { "none hit: every history tree was enumerated to exhaustion or to its depth bound" },
        "samples": out.samples,
        "dedicated_cases": extra,
        "laws": law_cov,
        "concurrent_event_application": sched_cov,
    });
    rep.finish(
        "model_checking",
        coverage,
        &[
            "programs are those expressible in the DSL up to the node bound; arbitrary user futures are represented by the async atoms only",
            "the reference interpreter (refmodel.rs) is the specification of the property texts; it is set-valued where they leave room (lazy abort clean-up, look-alike binding, stream.then_request after a dropped inner request)",
            "third-party primitives (crossbeam-channel, futures mpsc/AtomicWaker, slab) are trusted",
        ],
    )
}

fn sched_property(tier: Tier, only: Option<String>) -> i32 {
    let rep = Reporter::new("C08", tier);
    let scns: Vec<_> = sched::scenarios(tier == Tier::Thorough)
        .into_iter()
        .filter(|s| only.as_ref().map_or(true, |o| s.name.starts_with(o.as_str())))
        .collect();
    let bound = tier.pick(2, 3);
    let deadline = mc_kit::Deadline::new(tier.pick(45.0, 780.0));
    let max_execs = tier.pick(60_000, 3_000_000);
    let results = mc_kit::par_map(&scns, |_, s| sched::explore(s, bound, max_execs, &deadline));
    let mut per = vec![];
    let mut samples = vec![];
    let (mut execs, mut decisions, mut outcomes) = (0u64, 0u64, 0usize);
    let mut exhaustive = true;
    let mut reordered = 0u64;
    let mut reordered_sample: Option<serde_json::Value> = None;
    for r in &results {
        execs += r.executions;
        decisions += r.decisions;
        outcomes += r.distinct_logs;
        exhaustive &= (!r.capped && r.bound_completed == Some(r.target_bound)) || !r.violations.is_empty();
        per.push(json!({"scenario": r.name, "executions": r.executions, "decisions": r.decisions,
            "max_decisions_per_execution": r.max_decisions, "executions_by_preemption_bound": r.by_bound,
            "preemption_bound_completed": r.bound_completed, "preemption_bound_target": r.target_bound, "distinct_final_outcomes": r.distinct_outcomes,
            "distinct_event_logs": r.distinct_logs, "sequential_reference_outcomes": r.sequential_outcomes, "capped": r.capped,
            "executions_explained_only_by_swapping_two_calls_of_one_caller": r.reordered_own_calls}));
        reordered += r.reordered_own_calls;
        if let (Some(s), true) = (&r.reordered_sample, reordered_sample.is_none()) {
            reordered_sample = Some(s.clone());
        }
        if let Some(s) = &r.sample {
            if samples.len() < 4 {
                samples.push(s.clone());
            }
        }
        for (key, what, _) in &r.violations {
            if std::env::var("VERIF_VERBOSE").is_ok() {
                println!("  [{}] {}: {}", r.name.split(' ').next().unwrap_or(""), key, what.chars().take(700).collect::<String>());
            }
        }
        for (key, what, replay) in &r.violations {
            rep.violation(mc_kit::Violation { key: key.clone(), what: what.clone(), replay: replay.clone(), size: what.len() });
        }
        if r.violations.is_empty() && r.distinct_logs < 2 && r.executions > 10 && r.name.starts_with("S6") {
            mc_kit::machinery_error("vacuous: the colliding scenario S6 produced a single event log from many schedules");
        }
    }
    if execs < 2 {
        mc_kit::machinery_error("vacuous: fewer than 2 executions");
    }
    let coverage = json!({
        "states": decisions,
        "transitions": decisions,
        "traces_validated_against_impl": execs,
        "evaluations": execs,
        "distinct_nontrivial": outcomes,
        "rule": "one evaluation = one complete controlled execution of 2-3 real OS threads calling into one real Core/Bridge (exactly one thread runs at a time; switches only at the schedule points compiled in under --cfg crux_verif and at every lock operation of crux_core's Mutex/RwLock, which verification builds replace by instrumented types); states/transitions = scheduling decisions taken; all schedules with at most `preemption_bound` preemptions are enumerated by depth-first search over choice prefixes, bounds iterated 0,1,2(,3). Oracle: no panic/deadlock/livelock, outcome (multiset of effects returned by all calls, multiset of applied events, per-task order, rejections, quiescence gauges, empty no-op probe, behaviour of a sequential drain of everything still outstanding) equals the outcome of some sequential order of the same calls executed on the real code (orders respecting each caller's own call order are the reference; an outcome that only an order swapping two calls of ONE caller explains is accepted, as the property asks for some sequential order of the calls, and is counted under executions_explained_only_by_swapping_two_calls_of_one_caller). distinct_nontrivial = distinct final event logs over all scenarios.",
        "preemption_bound": bound,
        "executions_explained_only_by_swapping_two_calls_of_one_caller": reordered,
        "sample_execution_explained_only_by_swapping_two_calls_of_one_caller": reordered_sample,
        "scenarios": per,
        "exhaustive": exhaustive,
        "samples": samples,
    });
    rep.finish(
        "model_checking",
        coverage,
        &[
            "interleavings are explored at the named schedule points under sequential consistency; code between two points runs atomically; weaker memory orderings are not modelled",
            "third-party primitives (crossbeam-channel, futures mpsc/AtomicWaker, std Mutex/RwLock) are treated as linearizable atomic steps",
            "every reported violation is a real, replayable execution; absence of violations is relative to the points and the preemption bound completed",
        ],
    )
}

fn timers_property(tier: Tier) -> i32 {
    use timers::{TKind, TStats};
    let rep = Reporter::new("C18", tier);
    let configs: Vec<(Vec<TKind>, usize)> = vec![
        (vec![TKind::After], 9),
        (vec![TKind::At], 9),
        (vec![TKind::After, TKind::After], tier.pick(7, 9)),
        (vec![TKind::After, TKind::At], tier.pick(8, 10)),
        (vec![TKind::At, TKind::At], tier.pick(7, 9)),
        (vec![TKind::After, TKind::At, TKind::After], tier.pick(5, 7)),
        (vec![TKind::AtGated], 10),
        (vec![TKind::AfterGated], 10),
        (vec![TKind::AtGated, TKind::After], tier.pick(7, 9)),
        (vec![TKind::AfterGated, TKind::AtGated], tier.pick(7, 8)),
    ];
    let results = mc_kit::par_map(&configs, |_, (kinds, depth)| {
        let mut st = TStats::default();
        let mut found = vec![];
        let mut sample = None;
        timers::explore(kinds, *depth, 2, tier.pick(1, 2), &mut st, &mut found, &mut sample);
        (st, found, sample)
    });
    let mut total = TStats::default();
    let mut per = vec![];
    let mut samples = vec![];
    for ((kinds, depth), (st, found, sample)) in configs.iter().zip(results) {
        per.push(json!({"api": "command", "timers": kinds, "depth_bound": depth, "states": st.states, "transitions": st.transitions,
            "complete_histories": st.histories, "distinct_outcome_vectors": st.outcomes.len(), "timer_ids_checked": st.ids_seen}));
        total.states += st.states;
        total.transitions += st.transitions;
        total.histories += st.histories;
        total.steps += st.steps;
        total.ids_seen += st.ids_seen;
        total.outcomes.extend(st.outcomes);
        if let Some(s) = sample {
            samples.push(json!({"api": "command", "timers": kinds, "history": s}));
        }
        for f in found {
            rep.violation(mc_kit::Violation {
                key: f.fail.key.clone(),
                what: format!("timers {:?} history {:?}: {}", f.kinds, f.history, f.fail.what),
                replay: timers::case_json(&f.kinds, &f.history),
                size: f.history.len(),
            });
        }
    }
    // legacy API through Core
    let mut lst = TStats::default();
    let mut lfound = vec![];
    let mut lsample = None;
    timers::legacy::explore(tier.pick(7, 9), tier.pick(2, 3), &mut lst, &mut lfound, &mut lsample);
    per.push(json!({"api": "legacy capability through Core", "timers": tier.pick("<= 2", "<= 3"), "depth_bound": tier.pick(7, 9), "states": lst.states,
        "transitions": lst.transitions, "complete_histories": lst.histories, "distinct_outcome_vectors": lst.outcomes.len()}));
    if let Some(s) = lsample {
        samples.push(json!({"api": "legacy", "history": s}));
    }
    let mut sst = TStats::default();
    let scripted = timers::legacy::run_scale(&mut sst, &mut lfound);
    per.push(json!({"api": "legacy capability through Core, scripted scale family (explicit list, every member executed step by step; no sampling)",
        "why": "bookkeeping keyed on timer ids may depend on how many ids were handed out in between (thresholds such as 64 / 128 are out of reach of the depth-bounded tree)",
        "scripted_histories": scripted, "timers_per_history": "64-131", "steps": sst.steps}));
    for f in lfound {
        rep.violation(mc_kit::Violation {
            key: format!("legacy/{}", f.fail.key),
            what: format!("legacy history {:?}: {}", f.history, f.fail.what),
            replay: timers::legacy::case_json(&f.history),
            size: f.history.len(),
        });
    }
    // command API through a real Core (handles in the model, clear/drop from update)
    let mut cst = TStats::default();
    let mut cfound = vec![];
    let mut csample = None;
    timers::viacore::explore(tier.pick(7, 9), tier.pick(2, 3), &mut cst, &mut cfound, &mut csample);
    per.push(json!({"api": "command API through Core (handles held by the model)", "timers": tier.pick("<= 2", "<= 3"), "depth_bound": tier.pick(7, 9),
        "states": cst.states, "transitions": cst.transitions, "complete_histories": cst.histories, "distinct_outcome_vectors": cst.outcomes.len()}));
    if let Some(s) = csample {
        samples.push(json!({"api": "command-via-core", "history": s}));
    }
    for f in cfound {
        rep.violation(mc_kit::Violation {
            key: format!("via-core/{}", f.fail.key),
            what: format!("command-API timers through Core, history {:?}: {}", f.history, f.fail.what),
            replay: timers::viacore::case_json(&f.history),
            size: f.history.len(),
        });
    }
    // concurrent creation under the controlled scheduler (atomic operations are schedule points)
    let mut kfound = vec![];
    let kconfigs: Vec<(usize, usize, usize)> = if tier == Tier::Thorough { vec![(2, 1, 3), (2, 2, 3), (2, 3, 2), (3, 1, 2), (3, 2, 2)] } else { vec![(2, 1, 2), (2, 2, 2), (3, 1, 1)] };
    let kres = timers::concurrent::explore(&kconfigs, &mut kfound);
    let mut concurrent_executions = 0u64;
    for (threads, per_thread, r) in &kres {
        if r.violations.is_empty() && (r.executions < 3 || r.distinct_results < 2) {
            mc_kit::machinery_error(&format!(
                "vacuous: concurrent timer creation ({threads} threads x {per_thread}) gave {} executions and {} distinct id assignments - are the atomic operations of crux_time schedule points?",
                r.executions, r.distinct_results
            ));
        }
        concurrent_executions += r.executions;
        total.states += r.decisions;
        total.transitions += r.decisions;
        total.histories += r.executions;
        per.push(json!({"api": "command API, concurrent creation from real threads under the controlled scheduler (every atomic operation of crux_time / crux_core is a schedule point)",
            "threads": threads, "timers_per_thread": per_thread, "preemption_bound_completed": r.bound_completed, "executions": r.executions,
            "scheduling_decisions": r.decisions, "distinct_id_assignments": r.distinct_results}));
    }
    for f in kfound {
        rep.violation(mc_kit::Violation { key: f.key.clone(), what: f.what.clone(), replay: timers::concurrent::case_json(&f), size: f.choices.len() });
    }
    total.states += cst.states;
    total.transitions += cst.transitions;
    total.histories += cst.histories;
    total.outcomes.extend(cst.outcomes);
    total.states += lst.states;
    total.transitions += lst.transitions;
    total.histories += lst.histories;
    total.outcomes.extend(lst.outcomes);
    if total.outcomes.len() < 2 {
        mc_kit::machinery_error("vacuous: fewer than 2 distinct outcome vectors");
    }
    let coverage = json!({
        "states": total.states,
        "transitions": total.transitions,
        "traces_validated_against_impl": total.histories,
        "evaluations": total.histories,
        "distinct_nontrivial": total.outcomes.len(),
        "rule": "states = nodes of the history trees over the alphabet {poll, shell fires, app clears, handle dropped, request dropped, clear answered, clear request dropped, duplicate and late answers}, each followed by an observation or not (unobserved steps bounded), for 1-2 timers created with notify_after / notify_at; every node re-executed on fresh real timers and compared with the per-timer protocol machine of the property; distinct_nontrivial = distinct vectors of final outcomes (none / completed / cleared per timer). Timer ids of every timer created during the whole run (one set per process, filled from 16 worker threads) must be pairwise distinct.",
        "configurations": per,
        "timer_ids_checked_for_uniqueness": total.ids_seen,
        "concurrent_creation_executions": concurrent_executions,
        "exhaustive": true,
        "samples": samples,
    });
    rep.finish(
        "model_checking",
        coverage,
        &[
            "answers of the wrong kind or with another timer's id are outside the property's quantifier (they are covered by C12's known findings)",
            "uniqueness under concurrent allocation: every schedule of 2-3 creating threads up to the stated preemption bound, with switches at the atomic and lock operations of crux_time / crux_core (instrumented types in verification builds), under sequential consistency; in addition all ids of the run (16 free-running workers) go into one set",
        ],
    )
}

fn main() {
    let args: Vec<String> = std::env::args().skip(1).collect();
    let tier = Tier::from_args(&args);
    if let Some(path) = mc_kit::arg_value(&args, "--replay") {
        std::process::exit(props::replay(&path));
    }
    let code = match args.first().map(String::as_str) {
        Some("dev") => {
            dev(&args[1..]);
            0
        }
        Some("canary") => {
            let mut errs = vec![];
            if let Err(e) = props::canary() {
                errs.push(e);
            }
            if let Err(e) = sched::canary() {
                errs.push(e);
            }
            if let Err(e) = timers::concurrent::canary() {
                errs.push(e);
            }
            if let Err(e) = timers::canary() {
                errs.push(e);
            }
            if errs.is_empty() {
                println!("mc-core canaries: seqx, sched and timers oracles all reject their deliberately wrong input");
                0
            } else {
                for e in errs {
                    eprintln!("CANARY FAILED: {e}");
                }
                2
            }
        }
        Some("C18") => timers_property(tier),
        Some("C08") => sched_property(tier, mc_kit::arg_value(&args, "--only")),
        Some(id @ ("C01" | "C02" | "C03" | "C04" | "C05" | "C06" | "C07")) => seqx_property(id, tier),
        _ => {
            eprintln!("usage: mc-core <C01..C08|C18> --tier quick|thorough [--replay path]");
            2
        }
    };
    std::process::exit(code);
}
