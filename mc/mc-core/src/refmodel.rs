//! Reference semantics of DSL programs: an independent, boring interpreter that mirrors the
//! *documented* structure (commands own tasks; combinators host commands in tasks) and predicts,
//! for every shell input and every settle point, the outputs the property texts require.
//! Where the properties leave room the interpreter is set-valued (`Checker` keeps alternatives).

use crate::app::{Event, Out};
use crate::build::MAP_OFFSET;
use crate::dsl::{P, S};

#[derive(Clone, Copy, Debug, PartialEq, Eq, PartialOrd, Ord, Hash)]
pub enum Kind {
    Never,
    Once,
    Many,
}

/// Predicted / observed effect descriptor (what the shell can see of a request).
#[derive(Clone, Debug, PartialEq, Eq, PartialOrd, Ord, Hash)]
pub struct EffD {
    pub label: u16,
    pub arg: u32,
    pub tags: u8,
    pub kind: Kind,
}

#[derive(Clone, Debug, PartialEq, Eq, PartialOrd, Ord)]
pub enum O {
    Eff { d: EffD, uid: u32 },
    Ev(Event),
}

#[derive(Clone, Copy, Debug, PartialEq, Eq, PartialOrd, Ord)]
pub enum St {
    /// not requested yet
    U,
    /// requested, pending
    P,
    /// one-shot value arrived, not consumed yet
    V(u32),
    /// dropped by the shell / closed
    G,
    /// consumed / finished
    X,
}

#[derive(Clone, Debug, PartialEq, Eq, PartialOrd, Ord)]
pub struct Src {
    pub site: S,
    pub st: St,
    pub uid: u32,
    pub h: Option<u16>,
    /// stream items that arrived and were not consumed yet
    pub q: Vec<u32>,
}

impl Src {
    fn new(site: S) -> Src {
        Src { site, st: St::U, uid: 0, h: None, q: vec![] }
    }
    fn pending(&self) -> bool {
        self.st == St::P
    }
}

#[derive(Clone, Debug, PartialEq, Eq, PartialOrd, Ord)]
pub enum RK {
    /// not polled yet: the program this task will run
    Fresh(P),
    /// placeholder keeping the slot occupied while its task is being polled
    Busy,
    Req { a: Src, map: bool },
    Stream { a: Src, map: bool },
    ReqReq { a: Src, b: Src },
    ReqStream { a: Src, b: Src, notify: Option<S> },
    /// `stuck`: widened alternative after the in-flight inner request was dropped
    StreamReq { a: Src, b: Src, stuck: bool },
    StreamStream { a: Src, bsite: S, bs: Vec<Src> },
    Join { a: Src, b: Src },
    Select { a: Src, b: Src },
    Burst { m: S, a: Src },
    /// `spawn`: it spawns a child (notify at that site) in the poll in which it aborts
    SelfAbort { a: Src, m: Option<S>, handle: u16, spawn: Option<S> },
    HandOff { a: Src, b: Src, c: S },
    JoinSpawn { a: Src, b: Src, n: S },
    StreamHandOff { a: Src, c: S },
    StreamUntil { a: Src, b: Src },
    /// req a -> event; then spawns (req b with arg = value -> event)
    ChainLink { a: Src, next: Option<S> },
    SpawnAfter { a: Src, m: S },
    /// spawned by SpawnAfter: notifies the shell with `arg`
    NotifyArg { m: S, arg: u32 },
    /// awaits the join handles of `child` (task identity in the same command)
    AwaitJoin { child: usize, m: S, fired: bool },
    /// join!(jh of child, req b) / select(jh of child, req b)
    AwaitJoinReq { child: usize, b: Src, m: S, fired: bool, select: bool },
    ChildReq { a: Src },
    Producer { a: Src, chan: usize },
    JoinForward { a: Src, b: Src, chan: usize, sent: bool, got_b: bool },
    Consumer { site: S, m: S, chan: usize },
    StreamChild { a: Src },
    Aborter { b: Src, target: usize },
    SibAborter { a: Src, handle: u16 },
    /// hosts nested commands one after another, applying `map_effect`/`map_event` tags
    /// `own`: the hosting task also awaits a request of its own (`JoinHosted`): it finishes, with
    /// event(own), when both are through.
    Host { cur: Box<RCmd>, rest: Vec<RCmd>, eff_tags: u8, ev_tags: u8, own: Option<Src> },
}

#[derive(Clone, Debug, PartialEq, Eq, PartialOrd, Ord)]
pub struct RTask {
    pub kind: RK,
    pub aborted: bool,
    /// identity of the task within its command (slots are re-used, identities are not); 0 = not inserted yet
    pub tid: usize,
}

#[derive(Clone, Debug, PartialEq, Eq, PartialOrd, Ord)]
pub struct Chan {
    pub q: Vec<u32>,
    pub senders: u8,
    pub waiting: Option<usize>,
}

#[derive(Clone, Debug, PartialEq, Eq, PartialOrd, Ord, Default)]
pub struct RCmd {
    pub tasks: Vec<Option<RTask>>,
    pub ready: Vec<usize>,
    pub spawnq: Vec<RTask>,
    pub aborted: bool,
    pub abort_ids: Vec<u16>,
    /// polled spuriously at the next settle (root-level stale wake)
    pub spur: bool,
    pub chans: Vec<Chan>,
    /// task identities handed out so far
    pub next_tid: usize,
}

pub struct Ctx<'a> {
    pub out: &'a mut Vec<O>,
    pub eff_tags: u8,
    pub ev_tags: u8,
    pub next_uid: &'a mut u32,
    /// abort requests issued by tasks during this settle, applied by the enclosing command loops
    pub aborts: &'a mut Vec<u16>,
    /// this settle discards hosting tasks that can never finish (see `RState::evict_zombies`)
    pub evict: bool,
}

impl Ctx<'_> {
    fn eff(&mut self, src: &mut Src, kind: Kind, arg: u32) {
        *self.next_uid += 1;
        src.uid = *self.next_uid;
        src.st = if kind == Kind::Never { St::X } else { St::P };
        src.h = None;
        self.out.push(O::Eff {
            d: EffD { label: src.site.label, arg, tags: self.eff_tags, kind },
            uid: src.uid,
        });
    }
    fn ev(&mut self, e: Event) {
        let mut e = e;
        for _ in 0..self.ev_tags {
            e = e.tagged();
        }
        self.out.push(O::Ev(e));
    }
    fn got(&mut self, s: S, v: u32) {
        self.ev(Event::Out(Out::Got { site: s.id, val: v }));
    }
    fn mark(&mut self, s: S, n: u32) {
        self.ev(Event::Out(Out::Mark { site: s.id, n }));
    }
}

#[derive(Clone, Copy, Debug, PartialEq, Eq)]
pub enum Inp {
    /// stream item
    Value(u32),
    /// one-shot value
    Once(u32),
    Gone,
}

#[derive(Debug, PartialEq, Eq)]
enum Run {
    Pending,
    Finished,
}

fn task(kind: RK) -> RTask {
    RTask { kind, aborted: false, tid: 0 }
}

impl RCmd {
    /// Mirrors how the real builder assembles commands out of the DSL term (eagerly: every
    /// nested command exists - and can be aborted - before anything is polled).
    pub fn build(p: &P) -> RCmd {
        fn host(c: RCmd, rest: Vec<RCmd>, eff_tags: u8, ev_tags: u8) -> RTask {
            task(RK::Host { cur: Box::new(c), rest, eff_tags, ev_tags, own: None })
        }
        fn single(t: RTask) -> RCmd {
            let mut c = RCmd::default();
            c.tasks.push(Some(t));
            c.ready.push(0);
            c
        }
        match p {
            P::And(l, r) => {
                let mut c = RCmd::build(l);
                c.spawnq.push(host(RCmd::build(r), vec![], 0, 0));
                c
            }
            P::Abortable(k, q) => {
                let mut c = RCmd::build(q);
                c.abort_ids.push(u16::from(*k));
                c
            }
            P::Manual(q) => RCmd::build(q),
            P::JoinHosted(s, q) => single(task(RK::Host { cur: Box::new(RCmd::build(q)), rest: vec![], eff_tags: 0, ev_tags: 0, own: Some(Src::new(*s)) })),
            P::SelfAbort(s, _) | P::QuietSelfAbort(s) | P::SpawnThenSelfAbort(s, _) => {
                let mut c = single(task(RK::Fresh(p.clone())));
                c.abort_ids.push(2000 + s.id);
                c
            }
            // realised through the legacy API: same outputs; hosted like a sibling
            P::Legacy(q) => single(host(RCmd::build(q), vec![], 0, 0)),
            P::Then(a, b) => single(host(RCmd::build(a), vec![RCmd::build(b)], 0, 0)),
            P::MapEffect(q) => single(host(RCmd::build(q), vec![], 1, 0)),
            P::MapEvent(q) => single(host(RCmd::build(q), vec![], 0, 1)),
            // into = map_effect∘map_event, from = map_effect∘map_event: hosting layers without tags
            P::FromInto(q) => single(host(RCmd::build(q), vec![], 0, 0)),
            P::All(v) => {
                let mut c = single(task(RK::Fresh(P::Done)));
                for q in v {
                    c.spawnq.push(host(RCmd::build(q), vec![], 0, 0));
                }
                c
            }
            P::SiblingAbort(s, q) => {
                // all([aborter, q]); the aborter holds q's handle
                let mut c = single(task(RK::Fresh(P::Done)));
                let ab = single(task(RK::SibAborter { a: Src::new(*s), handle: 1000 + s.id }));
                let mut inner = RCmd::build(q);
                inner.abort_ids.push(1000 + s.id);
                c.spawnq.push(host(ab, vec![], 0, 0));
                c.spawnq.push(host(inner, vec![], 0, 0));
                c
            }
            _ => single(task(RK::Fresh(p.clone()))),
        }
    }

    fn tid_at(&self, slot: usize) -> usize {
        self.tasks[slot].as_ref().map_or(0, |t| t.tid)
    }

    fn insert(&mut self, mut t: RTask) -> usize {
        self.next_tid += 1;
        t.tid = self.next_tid;
        if let Some(i) = self.tasks.iter().position(Option::is_none) {
            self.tasks[i] = Some(t);
            i
        } else {
            self.tasks.push(Some(t));
            self.tasks.len() - 1
        }
    }

    fn enqueue(&mut self, i: usize) {
        if !self.ready.contains(&i) {
            self.ready.push(i);
        }
    }

    pub fn live_tasks(&self) -> usize {
        self.tasks.iter().flatten().count() + self.spawnq.len()
    }

    pub fn is_fin(&self) -> bool {
        self.live_tasks() == 0
    }

    /// Everything that can still be resolved is below a live node; used for `Many` results.
    pub fn find_src(&self, h: u16) -> Option<&Src> {
        for t in self.tasks.iter().flatten().chain(self.spawnq.iter()) {
            if let Some(s) = t.kind.find_src(h) {
                return Some(s);
            }
        }
        None
    }

    fn bind(&mut self, uid: u32, h: u16) -> bool {
        for t in self.tasks.iter_mut().flatten().chain(self.spawnq.iter_mut()) {
            if t.kind.bind(uid, h) {
                return true;
            }
        }
        false
    }

    /// Delivers a shell input to the source bound to handle `h`. Returns None if no live
    /// source is bound to it, else whether some task was woken.
    fn deliver(&mut self, h: u16, inp: Inp) -> Option<bool> {
        for i in 0..self.tasks.len() {
            let Some(t) = self.tasks[i].as_mut() else { continue };
            if let Some(woke) = t.kind.deliver(h, inp) {
                if woke {
                    self.enqueue(i);
                }
                return Some(woke);
            }
        }
        None
    }

    fn abort(&mut self, k: u16) -> bool {
        if self.abort_ids.contains(&k) {
            self.aborted = true;
            return true;
        }
        for t in self.tasks.iter_mut().flatten().chain(self.spawnq.iter_mut()) {
            if let RK::Host { cur, rest, .. } = &mut t.kind {
                if cur.abort(k) {
                    return true;
                }
                for r in rest.iter_mut() {
                    if r.abort(k) {
                        return true;
                    }
                }
            }
        }
        false
    }

    /// Paths (task slot chains) to abort-pending items: aborted nested commands that have not
    /// been polled since, and aborted tasks still in their slab.
    fn abort_pending(&self, prefix: &mut Vec<usize>, out: &mut Vec<Vec<usize>>) {
        for (i, t) in self.tasks.iter().enumerate() {
            let Some(t) = t else { continue };
            prefix.push(i);
            if t.aborted {
                out.push(prefix.clone());
            }
            if let RK::Host { cur, .. } = &t.kind {
                if cur.aborted && !cur.is_fin() {
                    out.push(prefix.clone());
                }
                cur.abort_pending(prefix, out);
            }
            prefix.pop();
        }
    }

    /// Paths to hosting tasks that can never finish (`JoinHosted`: own request gone, hosted command through).
    fn zombies(&self, prefix: &mut Vec<usize>, out: &mut Vec<Vec<usize>>) {
        for (i, t) in self.tasks.iter().enumerate() {
            let Some(t) = t else { continue };
            prefix.push(i);
            if let RK::Host { cur, rest, own, .. } = &t.kind {
                if let Some(a) = own {
                    if a.st == St::G && cur.is_fin() && rest.is_empty() {
                        out.push(prefix.clone());
                    }
                }
                cur.zombies(prefix, out);
            }
            prefix.pop();
        }
    }

    fn has_own_host(&self) -> bool {
        self.tasks.iter().flatten().chain(self.spawnq.iter()).any(|t| match &t.kind {
            RK::Host { cur, rest, own, .. } => own.is_some() || cur.has_own_host() || rest.iter().any(RCmd::has_own_host),
            RK::Fresh(p) => p.contains(&|q| matches!(q, P::JoinHosted(..))),
            _ => false,
        })
    }

    pub fn has_abort_pending(&self) -> bool {
        let mut v = vec![];
        self.abort_pending(&mut vec![], &mut v);
        !v.is_empty() || (self.aborted && !self.is_fin())
    }

    /// Spurious wake of the task chain `path`.
    fn spurious(&mut self, path: &[usize]) {
        let Some((&i, rest)) = path.split_first() else { return };
        if self.tasks.get(i).map_or(false, Option::is_some) {
            self.enqueue(i);
            if let Some(RTask { kind: RK::Host { cur, .. }, .. }) = self.tasks[i].as_mut() {
                cur.spurious(rest);
            }
        }
    }

    /// `run_until_settled`
    pub fn settle(&mut self, cx: &mut Ctx) {
        if self.aborted {
            self.tasks.clear();
            self.spawnq.clear();
            self.ready.clear();
            return;
        }
        loop {
            for t in std::mem::take(&mut self.spawnq) {
                let i = self.insert(t);
                self.ready.push(i);
            }
            if self.ready.is_empty() {
                break;
            }
            while !self.ready.is_empty() {
                let i = self.ready.remove(0);
                let Some(slot) = self.tasks.get_mut(i) else { continue };
                let Some(mut t) = slot.replace(task(RK::Busy)) else {
                    *slot = None;
                    continue;
                };
                let r = if t.aborted { Run::Finished } else { self.run_task(i, &mut t, cx) };
                for k in std::mem::take(cx.aborts) {
                    if !self.abort(k) {
                        cx.aborts.push(k);
                    }
                }
                if self.aborted {
                    // aborted by the task that has just run: cancelled work never produces another
                    // output (C06), so nothing that is still queued in this pass runs any more
                    self.tasks.clear();
                    self.spawnq.clear();
                    self.ready.clear();
                    return;
                }
                if r == Run::Pending {
                    self.tasks[i] = Some(t);
                } else {
                    // removed: release what it owned, wake join handles
                    self.tasks[i] = None;
                    self.release(&t);
                    let mut wake = vec![];
                    for (j, other) in self.tasks.iter_mut().enumerate() {
                        if let Some(RTask { kind: RK::AwaitJoin { child, fired, .. } | RK::AwaitJoinReq { child, fired, .. }, .. }) = other {
                            if *child == t.tid && !*fired {
                                *fired = true;
                                wake.push(j);
                            }
                        }
                    }
                    for j in wake {
                        self.enqueue(j);
                    }
                }
            }
        }
    }

    fn release(&mut self, t: &RTask) {
        match &t.kind {
            RK::Producer { chan, .. } | RK::JoinForward { chan, .. } => {
                let c = &mut self.chans[*chan];
                c.senders = c.senders.saturating_sub(1);
                if c.senders == 0 {
                    if let Some(w) = c.waiting.take() {
                        self.enqueue(w);
                    }
                }
            }
            _ => {}
        }
    }

    fn run_task(&mut self, me: usize, t: &mut RTask, cx: &mut Ctx) -> Run {
        // first poll: expand the program into its task state
        if let RK::Fresh(p) = &t.kind {
            let p = p.clone();
            match p {
                P::Done => return Run::Finished,
                P::Event(s) => {
                    cx.mark(s, 0);
                    return Run::Finished;
                }
                P::Trigger(_, q) => {
                    cx.ev(Event::Start(*q));
                    return Run::Finished;
                }
                P::Notify(s) => {
                    let mut src = Src::new(s);
                    cx.eff(&mut src, Kind::Never, 0);
                    return Run::Finished;
                }
                P::Req(s) | P::ReqMap(s) => {
                    let mut a = Src::new(s);
                    cx.eff(&mut a, Kind::Once, 0);
                    t.kind = RK::Req { a, map: matches!(p, P::ReqMap(_)) };
                }
                P::Stream(s) | P::StreamMap(s) => {
                    let mut a = Src::new(s);
                    cx.eff(&mut a, Kind::Many, 0);
                    t.kind = RK::Stream { a, map: matches!(p, P::StreamMap(_)) };
                }
                P::ReqReq(s, u) => {
                    let mut a = Src::new(s);
                    cx.eff(&mut a, Kind::Once, 0);
                    t.kind = RK::ReqReq { a, b: Src::new(u) };
                }
                P::ReqStream(s, u) => {
                    let mut a = Src::new(s);
                    cx.eff(&mut a, Kind::Once, 0);
                    t.kind = RK::ReqStream { a, b: Src::new(u), notify: None };
                }
                P::IntoFuture(s, n, u) => {
                    let mut a = Src::new(s);
                    cx.eff(&mut a, Kind::Once, 0);
                    t.kind = RK::ReqStream { a, b: Src::new(u), notify: Some(n) };
                }
                P::StreamReq(s, u) => {
                    let mut a = Src::new(s);
                    cx.eff(&mut a, Kind::Many, 0);
                    t.kind = RK::StreamReq { a, b: Src::new(u), stuck: false };
                }
                P::StreamStream(s, u) => {
                    let mut a = Src::new(s);
                    cx.eff(&mut a, Kind::Many, 0);
                    t.kind = RK::StreamStream { a, bsite: u, bs: vec![] };
                }
                P::Join(s, u) => {
                    let (mut a, mut b) = (Src::new(s), Src::new(u));
                    cx.eff(&mut a, Kind::Once, 0);
                    cx.eff(&mut b, Kind::Once, 0);
                    t.kind = RK::Join { a, b };
                }
                P::Select(s, u) => {
                    let (mut a, mut b) = (Src::new(s), Src::new(u));
                    cx.eff(&mut a, Kind::Once, 0);
                    cx.eff(&mut b, Kind::Once, 0);
                    t.kind = RK::Select { a, b };
                }
                P::SpawnAfter(s, m) | P::MixedNotify(s, m) => {
                    let mut a = Src::new(s);
                    cx.eff(&mut a, Kind::Once, 0);
                    t.kind = RK::SpawnAfter { a, m };
                }
                P::StreamUntil(s, u) => {
                    let (mut a, mut b) = (Src::new(s), Src::new(u));
                    cx.eff(&mut a, Kind::Many, 0);
                    cx.eff(&mut b, Kind::Once, 0);
                    t.kind = RK::StreamUntil { a, b };
                }
                P::SpawnChain(s, u) => {
                    let c = self.insert(task(RK::ChainLink { a: Src::new(s), next: Some(u) }));
                    self.ready.push(c);
                    return Run::Finished;
                }
                P::SelfAbort(s, m) => {
                    let mut a = Src::new(s);
                    cx.eff(&mut a, Kind::Once, 0);
                    t.kind = RK::SelfAbort { a, m: Some(m), handle: 2000 + s.id, spawn: None };
                }
                P::SpawnThenSelfAbort(s, m) => {
                    let mut a = Src::new(s);
                    cx.eff(&mut a, Kind::Once, 0);
                    t.kind = RK::SelfAbort { a, m: None, handle: 2000 + s.id, spawn: Some(m) };
                }
                P::QuietSelfAbort(s) => {
                    let mut a = Src::new(s);
                    cx.eff(&mut a, Kind::Once, 0);
                    t.kind = RK::SelfAbort { a, m: None, handle: 2000 + s.id, spawn: None };
                }
                P::StreamHandOff(s, c) => {
                    let mut a = Src::new(s);
                    cx.eff(&mut a, Kind::Many, 0);
                    t.kind = RK::StreamHandOff { a, c };
                }
                P::JoinSpawn(s, u, n) => {
                    let (mut a, mut b) = (Src::new(s), Src::new(u));
                    cx.eff(&mut a, Kind::Once, 0);
                    cx.eff(&mut b, Kind::Once, 0);
                    t.kind = RK::JoinSpawn { a, b, n };
                }
                P::HandOff(s, u, c) => {
                    let (mut a, mut b) = (Src::new(s), Src::new(u));
                    cx.eff(&mut a, Kind::Once, 0);
                    cx.eff(&mut b, Kind::Once, 0);
                    t.kind = RK::HandOff { a, b, c };
                }
                P::Burst(m, s) => {
                    cx.mark(m, 0);
                    cx.mark(m, 1);
                    let mut a = Src::new(s);
                    cx.eff(&mut a, Kind::Once, 0);
                    t.kind = RK::Burst { m, a };
                }
                P::SelfWake(m, _) | P::AbortSpawned(_, m) => {
                    // (AbortSpawned: the child is aborted before its first poll, never runs, and its
                    // join handle releases the waiter in the same settle)
                    cx.mark(m, 0);
                    return Run::Finished;
                }
                P::SpawnEvent(m, s) => {
                    // ctx.spawn: the child goes to the spawn queue and runs later in this settle
                    self.spawnq.push(task(RK::Fresh(P::Event(m))));
                    let mut a = Src::new(s);
                    cx.eff(&mut a, Kind::Once, 0);
                    t.kind = RK::Req { a, map: false };
                }
                P::SpawnJoin(s, m) | P::JoinTwice(s, m) | P::JoinBusy(s, m) => {
                    // ctx.spawn: the child goes to the spawn queue; its slot is the next free one
                    // at insertion time. We insert immediately (same settle, it runs after us).
                    let child = self.insert(task(RK::Fresh(P::Req(s))));
                    // mark it as a child request (same behaviour as Req)
                    self.ready.push(child);
                    let child = self.tid_at(child);
                    t.kind = RK::AwaitJoin { child, m, fired: false };
                }
                P::JoinReq(s, u, m) | P::SelectJoinReq(s, u, m) => {
                    let child = self.insert(task(RK::Fresh(P::Req(s))));
                    self.ready.push(child);
                    let child = self.tid_at(child);
                    let mut b = Src::new(u);
                    cx.eff(&mut b, Kind::Once, 0);
                    t.kind = RK::AwaitJoinReq { child, b, m, fired: false, select: matches!(p, P::SelectJoinReq(..)) };
                }
                P::Channel(s, m) => {
                    self.chans.push(Chan { q: vec![], senders: 1, waiting: None });
                    let chan = self.chans.len() - 1;
                    let pr = self.insert(task(RK::Producer { a: Src::new(s), chan }));
                    self.ready.push(pr);
                    let co = self.insert(task(RK::Consumer { site: s, m, chan }));
                    self.ready.push(co);
                    return Run::Finished;
                }
                P::JoinForward(s, u, m) => {
                    self.chans.push(Chan { q: vec![], senders: 1, waiting: None });
                    let chan = self.chans.len() - 1;
                    let jf = self.insert(task(RK::JoinForward { a: Src::new(s), b: Src::new(u), chan, sent: false, got_b: false }));
                    self.ready.push(jf);
                    let co = self.insert(task(RK::Consumer { site: s, m, chan }));
                    self.ready.push(co);
                    return Run::Finished;
                }
                P::AbortChild(s, u, m) => {
                    let child = self.insert(task(RK::StreamChild { a: Src::new(s) }));
                    self.ready.push(child);
                    let child = self.tid_at(child);
                    let ab = self.insert(task(RK::Aborter { b: Src::new(u), target: child }));
                    self.ready.push(ab);
                    let jo = self.insert(task(RK::AwaitJoin { child, m, fired: false }));
                    self.ready.push(jo);
                    return Run::Finished;
                }
                P::Unordered(..) => unreachable!("Unordered is handled by its own check"),
                P::And(..) | P::Abortable(..) | P::Manual(..) | P::Then(..) | P::MapEffect(_) | P::MapEvent(_)
                | P::FromInto(_) | P::All(_) | P::SiblingAbort(..) | P::Legacy(_) | P::JoinHosted(..) => unreachable!("handled by RCmd::build"),
            }
        }
        // (re-)poll
        match &mut t.kind {
            RK::Fresh(_) | RK::Busy => unreachable!(),
            RK::Req { a, map } => match a.st {
                St::V(v) => {
                    cx.got(a.site, if *map { v + MAP_OFFSET } else { v });
                    Run::Finished
                }
                St::G => Run::Finished,
                _ => Run::Pending,
            },
            RK::ChildReq { a } => match a.st {
                St::V(v) => {
                    cx.got(a.site, v);
                    Run::Finished
                }
                St::G => Run::Finished,
                _ => Run::Pending,
            },
            RK::Stream { a, map } => {
                for v in std::mem::take(&mut a.q) {
                    cx.got(a.site, if *map { v + MAP_OFFSET } else { v });
                }
                if a.st == St::G {
                    Run::Finished
                } else {
                    Run::Pending
                }
            }
            RK::StreamChild { a } => {
                if a.st == St::U {
                    cx.eff(a, Kind::Many, 0);
                    return Run::Pending;
                }
                for v in std::mem::take(&mut a.q) {
                    cx.got(a.site, v);
                }
                if a.st == St::G {
                    Run::Finished
                } else {
                    Run::Pending
                }
            }
            RK::ReqReq { a, b } => {
                if let St::V(v) = a.st {
                    a.st = St::X;
                    cx.eff(b, Kind::Once, v);
                }
                if a.st == St::G || b.st == St::G {
                    return Run::Finished;
                }
                if let St::V(w) = b.st {
                    cx.got(b.site, w);
                    return Run::Finished;
                }
                Run::Pending
            }
            RK::ReqStream { a, b, notify } => {
                if let St::V(v) = a.st {
                    a.st = St::X;
                    if let Some(n) = notify {
                        let mut src = Src::new(*n);
                        cx.eff(&mut src, Kind::Never, v);
                    }
                    cx.eff(b, Kind::Many, v);
                }
                for w in std::mem::take(&mut b.q) {
                    cx.got(b.site, w);
                }
                if a.st == St::G || b.st == St::G {
                    return Run::Finished;
                }
                Run::Pending
            }
            RK::StreamReq { a, b, stuck } => {
                if *stuck {
                    return if a.st == St::G { Run::Finished } else { Run::Pending };
                }
                loop {
                    match b.st {
                        St::P => return Run::Pending,
                        St::G => return Run::Finished, // (widened by the checker: see `widen`)
                        St::V(w) => {
                            cx.got(b.site, w);
                            b.st = St::U;
                        }
                        St::U | St::X => {
                            if a.q.is_empty() {
                                return if a.st == St::G { Run::Finished } else { Run::Pending };
                            }
                            let v = a.q.remove(0);
                            cx.eff(b, Kind::Once, v);
                        }
                    }
                }
            }
            RK::StreamStream { a, bsite, bs } => {
                for v in std::mem::take(&mut a.q) {
                    let mut b = Src::new(*bsite);
                    cx.eff(&mut b, Kind::Many, v);
                    bs.push(b);
                }
                for b in bs.iter_mut() {
                    for w in std::mem::take(&mut b.q) {
                        cx.got(b.site, w);
                    }
                }
                bs.retain(|b| b.st != St::G);
                if a.st == St::G && bs.is_empty() {
                    Run::Finished
                } else {
                    Run::Pending
                }
            }
            RK::Join { a, b } => {
                if let (St::V(v), St::V(w)) = (a.st, b.st) {
                    cx.got(a.site, v);
                    cx.got(b.site, w);
                    return Run::Finished;
                }
                if !a.pending() && !b.pending() {
                    return Run::Finished;
                }
                Run::Pending
            }
            RK::Select { a, b } => {
                if let St::V(v) = a.st {
                    cx.got(a.site, v);
                    return Run::Finished;
                }
                if let St::V(w) = b.st {
                    cx.got(b.site, w);
                    return Run::Finished;
                }
                if !a.pending() && !b.pending() {
                    return Run::Finished;
                }
                Run::Pending
            }
            RK::SpawnAfter { a, m } => match a.st {
                St::V(v) => {
                    let m = *m;
                    self.spawnq.push(task(RK::NotifyArg { m, arg: v }));
                    Run::Finished
                }
                St::G => Run::Finished,
                _ => Run::Pending,
            },
            RK::NotifyArg { m, arg } => {
                let mut src = Src::new(*m);
                cx.eff(&mut src, Kind::Never, *arg);
                Run::Finished
            }
            RK::SelfAbort { a, m, handle, spawn } => match a.st {
                St::V(v) => {
                    if let Some(n) = spawn {
                        // spawned in the poll of the abort: still in the spawn queue when the command is
                        // aborted, so it never runs
                        let n = *n;
                        self.spawnq.push(task(RK::NotifyArg { m: n, arg: v }));
                    }
                    // aborts the command it runs in; what it emits in this poll is still delivered
                    if let Some(m) = m {
                        cx.got(a.site, v);
                        cx.aborts.push(*handle);
                        cx.mark(*m, 0);
                    } else {
                        cx.aborts.push(*handle);
                    }
                    Run::Finished
                }
                St::G => Run::Finished,
                _ => Run::Pending,
            },
            RK::StreamUntil { a, b } => {
                // left-biased select: pending items are taken before the stop answer is looked at
                for v in std::mem::take(&mut a.q) {
                    cx.got(a.site, v);
                }
                if let St::V(w) = b.st {
                    cx.got(b.site, w);
                    return Run::Finished;
                }
                if a.st == St::G && b.st == St::G {
                    return Run::Finished;
                }
                Run::Pending
            }
            RK::ChainLink { a, next } => match a.st {
                St::U => {
                    let arg = a.q.pop().unwrap_or(0);
                    cx.eff(a, Kind::Once, arg);
                    Run::Pending
                }
                St::V(v) => {
                    cx.got(a.site, v);
                    if let Some(n) = next {
                        let mut src = Src::new(*n);
                        src.q = vec![v]; // carries the arg until the link is first polled
                        self.spawnq.push(task(RK::ChainLink { a: src, next: None }));
                    }
                    Run::Finished
                }
                St::G => Run::Finished,
                _ => Run::Pending,
            },
            RK::StreamHandOff { a, c } => {
                if !a.q.is_empty() {
                    // first item: event; the rest of the stream (with anything already queued) moves
                    // to a new task
                    let v = a.q.remove(0);
                    cx.got(a.site, v);
                    let moved = a.clone();
                    self.spawnq.push(task(RK::Stream { a: moved, map: false }));
                } else if a.st == St::G {
                    return Run::Finished;
                } else {
                    return Run::Pending;
                }
                let mut cs = Src::new(*c);
                cx.eff(&mut cs, Kind::Once, 0);
                t.kind = RK::Req { a: cs, map: false };
                Run::Pending
            }
            RK::JoinSpawn { a, b, n } => {
                if let St::V(w) = b.st {
                    // the second branch runs on: it spawns, whatever becomes of the join
                    b.st = St::X;
                    let n = *n;
                    self.spawnq.push(task(RK::NotifyArg { m: n, arg: w }));
                }
                if let (St::V(v), St::X) = (a.st, b.st) {
                    cx.got(a.site, v);
                    return Run::Finished;
                }
                if !a.pending() && !b.pending() {
                    return Run::Finished;
                }
                Run::Pending
            }
            RK::HandOff { a, b, c } => {
                let winner_is_a = matches!(a.st, St::V(_));
                let winner_is_b = !winner_is_a && matches!(b.st, St::V(_));
                if winner_is_a || winner_is_b {
                    let (w, l) = if winner_is_a { (a.clone(), b.clone()) } else { (b.clone(), a.clone()) };
                    if let St::V(v) = w.st {
                        cx.got(w.site, v);
                    }
                    // the loser's future (with its request, answered or not) moves to a new task
                    self.spawnq.push(task(RK::ChildReq { a: l }));
                    let mut cs = Src::new(*c);
                    cx.eff(&mut cs, Kind::Once, 0);
                    t.kind = RK::Req { a: cs, map: false };
                    return Run::Pending;
                }
                if !a.pending() && !b.pending() {
                    return Run::Finished;
                }
                Run::Pending
            }
            RK::Burst { m, a } => match a.st {
                St::V(v) => {
                    cx.mark(*m, 2);
                    cx.got(a.site, v);
                    cx.mark(*m, 3);
                    Run::Finished
                }
                St::G => Run::Finished,
                _ => Run::Pending,
            },
            RK::AwaitJoin { m, fired, .. } => {
                if *fired {
                    cx.mark(*m, 0);
                    Run::Finished
                } else {
                    Run::Pending
                }
            }
            RK::AwaitJoinReq { b, m, fired, select, .. } => {
                if *select {
                    // left-biased: the join handle wins ties
                    if *fired {
                        cx.mark(*m, 0);
                        return Run::Finished;
                    }
                    if let St::V(w) = b.st {
                        cx.got(b.site, w);
                        return Run::Finished;
                    }
                    // the handle is still pending: something can wake the task
                    Run::Pending
                } else {
                    if let (true, St::V(w)) = (*fired, b.st) {
                        cx.got(b.site, w);
                        cx.mark(*m, 0);
                        return Run::Finished;
                    }
                    if *fired && !b.pending() {
                        // no source left that could wake it
                        return Run::Finished;
                    }
                    Run::Pending
                }
            }
            RK::Producer { a, chan } => match a.st {
                St::U => {
                    cx.eff(a, Kind::Once, 0);
                    Run::Pending
                }
                St::V(v) => {
                    let c = &mut self.chans[*chan];
                    c.q.push(v);
                    if let Some(w) = c.waiting.take() {
                        self.enqueue(w);
                    }
                    Run::Finished
                }
                St::G => Run::Finished,
                _ => Run::Pending,
            },
            RK::JoinForward { a, b, chan, sent, got_b } => {
                // join polls its left branch (request u -> event) first, then the forwarding one
                if b.st == St::U {
                    cx.eff(b, Kind::Once, 0);
                }
                if a.st == St::U {
                    cx.eff(a, Kind::Once, 0);
                }
                if let St::V(w) = b.st {
                    if !*got_b {
                        cx.got(b.site, w);
                        *got_b = true;
                    }
                }
                if let St::V(v) = a.st {
                    if !*sent {
                        *sent = true;
                        let c = &mut self.chans[*chan];
                        c.q.push(v);
                        if let Some(w) = c.waiting.take() {
                            self.enqueue(w);
                        }
                    }
                }
                if *got_b && *sent {
                    return Run::Finished;
                }
                if !a.pending() && !b.pending() {
                    // no source left that could wake it
                    return Run::Finished;
                }
                Run::Pending
            }
            RK::Consumer { site, m, chan } => {
                let c = &mut self.chans[*chan];
                for v in std::mem::take(&mut c.q) {
                    cx.got(*site, v);
                }
                if c.senders == 0 {
                    cx.mark(*m, 0);
                    Run::Finished
                } else {
                    c.waiting = Some(me);
                    Run::Pending
                }
            }
            RK::Aborter { b, target } => match b.st {
                St::U => {
                    cx.eff(b, Kind::Once, 0);
                    Run::Pending
                }
                St::V(w) => {
                    if let Some(t) = self.tasks.iter_mut().flatten().find(|t| t.tid == *target) {
                        t.aborted = true;
                    }
                    cx.got(b.site, w);
                    Run::Finished
                }
                St::G => Run::Finished,
                _ => Run::Pending,
            },
            RK::SibAborter { a, handle } => match a.st {
                St::U => {
                    cx.eff(a, Kind::Once, 0);
                    Run::Pending
                }
                St::V(v) => {
                    cx.aborts.push(*handle);
                    cx.got(a.site, v);
                    Run::Finished
                }
                St::G => Run::Finished,
                _ => Run::Pending,
            },
            RK::Host { cur, rest, eff_tags, ev_tags, own } => {
                if let Some(a) = own {
                    // join(own request, hosted command): the request is polled first
                    if a.st == St::U {
                        cx.eff(a, Kind::Once, 0);
                    }
                }
                loop {
                    let mut sub = Ctx {
                        out: cx.out,
                        eff_tags: cx.eff_tags + *eff_tags,
                        ev_tags: cx.ev_tags + *ev_tags,
                        next_uid: cx.next_uid,
                        aborts: cx.aborts,
                        evict: cx.evict,
                    };
                    let aborted_before = cur.aborted;
                    cur.settle(&mut sub);
                    if !aborted_before && cur.aborted {
                        // raised by one of its own tasks during this poll: `poll_next` ends with
                        // `is_done()`, which settles once more and notices it (prompt, not lazy)
                        cur.settle(&mut sub);
                    }
                    if !cur.is_fin() {
                        return Run::Pending;
                    }
                    if rest.is_empty() {
                        return match own {
                            None => Run::Finished,
                            Some(a) => match a.st {
                                St::V(v) => {
                                    let site = a.site;
                                    cx.got(site, v);
                                    Run::Finished
                                }
                                // the hosted command is through and the task's own request is gone: the
                                // task can never finish. When it is discarded depends on stale waker
                                // chains through the requests the hosted command left behind; the
                                // property demands it only once nothing is outstanding any more
                                // (RState::evict_zombies decides for this settle).
                                St::G if cx.evict => Run::Finished,
                                _ => Run::Pending,
                            },
                        };
                    }
                    *cur = Box::new(rest.remove(0));
                }
            }
        }
    }
}

impl RK {
    fn srcs_mut(&mut self) -> Vec<&mut Src> {
        match self {
            RK::Req { a, .. } | RK::Stream { a, .. } | RK::ChildReq { a } | RK::StreamChild { a }
            | RK::Burst { a, .. } | RK::SpawnAfter { a, .. } | RK::Producer { a, .. } | RK::SibAborter { a, .. } | RK::SelfAbort { a, .. }
            | RK::ChainLink { a, .. } | RK::StreamHandOff { a, .. } => vec![a],
            RK::Aborter { b, .. } | RK::AwaitJoinReq { b, .. } => vec![b],
            RK::ReqReq { a, b } | RK::ReqStream { a, b, .. } | RK::StreamReq { a, b, .. } | RK::Join { a, b }
            | RK::Select { a, b } | RK::HandOff { a, b, .. } | RK::StreamUntil { a, b } | RK::JoinSpawn { a, b, .. } | RK::JoinForward { a, b, .. } => vec![a, b],
            RK::StreamStream { a, bs, .. } => {
                let mut v = vec![a];
                v.extend(bs.iter_mut());
                v
            }
            _ => vec![],
        }
    }

    fn srcs(&self) -> Vec<&Src> {
        match self {
            RK::Req { a, .. } | RK::Stream { a, .. } | RK::ChildReq { a } | RK::StreamChild { a }
            | RK::Burst { a, .. } | RK::SpawnAfter { a, .. } | RK::Producer { a, .. } | RK::SibAborter { a, .. } | RK::SelfAbort { a, .. }
            | RK::ChainLink { a, .. } | RK::StreamHandOff { a, .. } => vec![a],
            RK::Aborter { b, .. } | RK::AwaitJoinReq { b, .. } => vec![b],
            RK::ReqReq { a, b } | RK::ReqStream { a, b, .. } | RK::StreamReq { a, b, .. } | RK::Join { a, b }
            | RK::Select { a, b } | RK::HandOff { a, b, .. } | RK::StreamUntil { a, b } | RK::JoinSpawn { a, b, .. } | RK::JoinForward { a, b, .. } => vec![a, b],
            RK::StreamStream { a, bs, .. } => {
                let mut v = vec![a];
                v.extend(bs.iter());
                v
            }
            _ => vec![],
        }
    }

    fn find_src(&self, h: u16) -> Option<&Src> {
        if let RK::Host { cur, own, .. } = self {
            if let Some(a) = own {
                if a.h == Some(h) && a.st == St::P {
                    return Some(a);
                }
            }
            return cur.find_src(h);
        }
        self.srcs().into_iter().find(|s| s.h == Some(h) && s.st == St::P)
    }

    fn bind(&mut self, uid: u32, h: u16) -> bool {
        if let RK::Host { cur, own, .. } = self {
            if let Some(a) = own {
                if a.uid == uid && a.st == St::P && a.h.is_none() {
                    a.h = Some(h);
                    return true;
                }
            }
            return cur.bind(uid, h);
        }
        for s in self.srcs_mut() {
            if s.uid == uid && s.st == St::P && s.h.is_none() {
                s.h = Some(h);
                return true;
            }
        }
        false
    }

    fn deliver(&mut self, h: u16, inp: Inp) -> Option<bool> {
        if let RK::Host { cur, own, .. } = self {
            if let Some(a) = own {
                if a.h == Some(h) && a.st == St::P {
                    match inp {
                        Inp::Value(v) => a.q.push(v),
                        Inp::Once(v) => a.st = St::V(v),
                        Inp::Gone => a.st = St::G,
                    }
                    return Some(true);
                }
            }
            return cur.deliver(h, inp);
        }
        // rule 10: an item for the outer stream of `stream.then_request` while the inner request is
        // in flight (or the chain is stuck) reaches nobody's waker
        let quiet_outer = match self {
            RK::StreamReq { a, b, stuck } => (a.h == Some(h) && a.st == St::P) && (b.st == St::P || *stuck),
            _ => false,
        };
        for s in self.srcs_mut() {
            if s.h == Some(h) && s.st == St::P {
                match inp {
                    Inp::Value(v) => s.q.push(v),
                    Inp::Once(v) => s.st = St::V(v),
                    Inp::Gone => s.st = St::G,
                }
                return Some(!quiet_outer);
            }
        }
        None
    }
}

// ---------------------------------------------------------------------------------------------
// Whole-system reference state (one or more top-level commands + handle table)

#[derive(Clone, Debug, PartialEq, Eq, PartialOrd, Ord)]
pub struct HState {
    pub kind: Kind,
    pub resolved: bool,
    pub dropped: bool,
}

#[derive(Clone, Debug, PartialEq, Eq, PartialOrd, Ord, Default)]
pub struct RState {
    pub roots: Vec<RCmd>,
    pub next_uid: u32,
    pub handles: Vec<HState>,
    /// predicted effects of the last settle that have not been bound to handles yet
    pub unbound: Vec<(u32, EffD)>,
    /// choice for the next settle: hosting tasks that can never finish any more are discarded in it
    /// (those that exist are woken, those that arise are discarded at once). Both choices are
    /// alternatives while some request is still outstanding; once none is, only `true` is.
    pub evict_zombies: bool,
}

#[derive(Clone, Copy, Debug, PartialEq, Eq, PartialOrd, Ord)]
pub enum Res {
    Ok,
    Never,
    Finished,
    /// the bridge could not decode the response
    Undecodable,
    /// an error of a kind this harness does not know (the enums of crux may grow): never predicted
    Other,
}

impl RState {
    pub fn add_root(&mut self, p: &P) {
        self.roots.push(RCmd::build(p));
    }

    /// Shell resolves handle `h` with `v`. Returns the predicted result.
    pub fn resolve(&mut self, h: u16, v: u32) -> Res {
        let hs = self.handles[h as usize].clone();
        match hs.kind {
            Kind::Never => Res::Never,
            Kind::Once => {
                if hs.resolved {
                    return Res::Never;
                }
                self.handles[h as usize].resolved = true;
                for r in &mut self.roots {
                    if r.deliver(h, Inp::Once(v)).is_some() {
                        break;
                    }
                }
                Res::Ok
            }
            Kind::Many => {
                let mut found = false;
                for r in &mut self.roots {
                    if r.find_src(h).is_some() {
                        r.deliver(h, Inp::Value(v));
                        found = true;
                        break;
                    }
                }
                if found {
                    Res::Ok
                } else {
                    Res::Finished
                }
            }
        }
    }

    /// Bridge: a response that does not decode. A one-shot request is used up by it (its task sees
    /// the request gone); a stream is untouched; a notification rejects before looking at the bytes.
    pub fn malformed(&mut self, h: u16) -> Res {
        let hs = self.handles[h as usize].clone();
        match hs.kind {
            Kind::Never => Res::Never,
            Kind::Once => {
                if hs.resolved {
                    return Res::Never;
                }
                self.handles[h as usize].resolved = true;
                for r in &mut self.roots {
                    if r.deliver(h, Inp::Gone).is_some() {
                        break;
                    }
                }
                Res::Undecodable
            }
            Kind::Many => Res::Undecodable,
        }
    }

    pub fn drop_handle(&mut self, h: u16) {
        let hs = &mut self.handles[h as usize];
        if hs.dropped {
            return;
        }
        hs.dropped = true;
        if hs.kind == Kind::Never || (hs.kind == Kind::Once && hs.resolved) {
            return;
        }
        for r in &mut self.roots {
            if r.deliver(h, Inp::Gone).is_some() {
                break;
            }
        }
    }

    pub fn abort(&mut self, k: u16) {
        for r in &mut self.roots {
            if r.abort(k) {
                return;
            }
        }
    }

    /// Alternatives before a settle: every subset of abort-pending items may be woken
    /// spuriously (stale wakers), which lets their lazy clean-up happen now.
    pub fn spurious_alternatives(&self) -> Vec<RState> {
        let mut items: Vec<(usize, Vec<usize>)> = vec![];
        for (ri, r) in self.roots.iter().enumerate() {
            if r.aborted && !r.is_fin() {
                items.push((ri, vec![]));
            }
            let mut paths = vec![];
            r.abort_pending(&mut vec![], &mut paths);
            for p in paths {
                items.push((ri, p));
            }
        }
        items.truncate(5);
        let mut out = vec![];
        for mask in 0..(1u32 << items.len()) {
            let mut s = self.clone();
            for (bit, (ri, path)) in items.iter().enumerate() {
                if mask & (1 << bit) != 0 {
                    s.roots[*ri].spur = true;
                    s.roots[*ri].spurious(path);
                }
            }
            out.push(s);
        }
        if self.roots.iter().any(RCmd::has_own_host) {
            let nothing_outstanding = self.handles.iter().all(|h| h.dropped || h.kind == Kind::Never || (h.kind == Kind::Once && h.resolved));
            let mut both = vec![];
            for s in out {
                let mut e = s.clone();
                e.evict_zombies = true;
                if !nothing_outstanding {
                    both.push(s);
                }
                both.push(e);
            }
            out = both;
        }
        out
    }

    /// Runs every top-level command that has something to do (`poll_all`: the host polls its
    /// root regardless, as the direct host does). Returns the outputs.
    pub fn settle(&mut self, poll_all: bool) -> Vec<O> {
        let mut out = vec![];
        let evict = std::mem::take(&mut self.evict_zombies);
        for r in &mut self.roots {
            if evict {
                let mut paths = vec![];
                r.zombies(&mut vec![], &mut paths);
                for p in paths {
                    r.spur = true;
                    r.spurious(&p);
                }
            }
            let spur = std::mem::take(&mut r.spur);
            if poll_all || spur || !r.ready.is_empty() || !r.spawnq.is_empty() {
                let mut aborts = vec![];
                let mut cx = Ctx { out: &mut out, eff_tags: 0, ev_tags: 0, next_uid: &mut self.next_uid, aborts: &mut aborts, evict };
                let aborted_before = r.aborted;
                r.settle(&mut cx);
                if !aborted_before && r.aborted {
                    r.settle(&mut cx);
                }
            }
        }
        for o in &out {
            if let O::Eff { d, uid } = o {
                self.unbound.push((*uid, d.clone()));
            }
        }
        out
    }

    /// Binds predicted effect `uid` to a new shell-side handle; returns the handle number.
    pub fn bind_new(&mut self, uid: u32, kind: Kind) -> u16 {
        let h = self.handles.len() as u16;
        self.handles.push(HState { kind, resolved: false, dropped: false });
        for r in &mut self.roots {
            if r.bind(uid, h) {
                break;
            }
        }
        self.unbound.retain(|(u, _)| *u != uid);
        h
    }

    /// `Command::spawn(&mut self, ..)` by whoever holds the top-level command: one more task (a
    /// request followed by an event) joins the root command's spawn queue.
    pub fn spawn_more(&mut self, site: S) {
        if let Some(r) = self.roots.first_mut() {
            r.spawnq.push(task(RK::Fresh(P::Req(site))));
        }
    }

    pub fn all_fin(&self) -> bool {
        self.roots.iter().all(RCmd::is_fin)
    }

    /// After a `StreamReq`'s in-flight inner request was dropped the properties allow both
    /// "chain cancelled" (what `settle` does) and "alive but stuck until the outer stream is gone".
    pub fn widen_stream_req(&self) -> Vec<RState> {
        fn find(c: &mut RCmd, n: &mut usize, target: usize) -> bool {
            for t in c.tasks.iter_mut().flatten() {
                match &mut t.kind {
                    RK::Host { cur, .. } => {
                        if find(cur, n, target) {
                            return true;
                        }
                    }
                    RK::StreamReq { b, stuck, .. } if b.st == St::G && !*stuck => {
                        if *n == target {
                            *stuck = true;
                            return true;
                        }
                        *n += 1;
                    }
                    _ => {}
                }
            }
            false
        }
        let mut out = vec![self.clone()];
        for ri in 0..self.roots.len() {
            let mut s = self.clone();
            let mut n = 0;
            if find(&mut s.roots[ri], &mut n, 0) {
                out.push(s);
            }
        }
        out
    }
}
