//! C04's algebraic laws, checked differentially: two real commands, the same shell history, equal
//! observation sequences - no reference involved.

use std::collections::BTreeSet;

use crux_core::Command;

use crate::app::{Effect, Effect2, Event, Event2, OpA, OpB, VOp};
use crate::build::{build, Cmd};
use crate::dsl::{self, Grammar, P};
use crate::hosts::ObsEff;
use crate::refmodel::Res;

fn obs_eff(e: &Effect) -> ObsEff {
    match e {
        Effect::CapA(r) => ObsEff { label: r.operation.label, arg: r.operation.arg, tags: r.operation.tags, is_b: false },
        Effect::CapB(r) => ObsEff { label: r.operation.label, arg: r.operation.arg, tags: r.operation.tags, is_b: true },
    }
}

struct Side {
    cmd: Cmd,
    handles: Vec<Option<Effect>>,
    descs: Vec<ObsEff>,
}

type Obs = (Vec<ObsEff>, Vec<Event>, bool);

impl Side {
    fn new(cmd: Cmd) -> Side {
        Side { cmd, handles: vec![], descs: vec![] }
    }
    fn observe(&mut self) -> Obs {
        let effects: Vec<Effect> = self.cmd.effects().collect();
        let mut events: Vec<Event> = self.cmd.events().collect();
        let done = self.cmd.is_done();
        let effects2: Vec<Effect> = self.cmd.effects().collect();
        events.extend(self.cmd.events());
        let mut ds = vec![];
        for e in effects.into_iter().chain(effects2) {
            let d = obs_eff(&e);
            ds.push(d.clone());
            self.descs.push(d);
            self.handles.push(Some(e));
        }
        ds.sort();
        events.sort();
        (ds, events, done)
    }
    fn resolve(&mut self, h: usize, v: u32) -> Option<Res> {
        let e = self.handles.get_mut(h)?.as_mut()?;
        let r = match e {
            Effect::CapA(r) => r.resolve(OpA::out(v)),
            Effect::CapB(r) => r.resolve(OpB::out(v)),
        };
        Some(match r {
            Ok(()) => Res::Ok,
            Err(crux_core::ResolveError::Never) => Res::Never,
            Err(crux_core::ResolveError::FinishedMany) => Res::Finished,
            #[allow(unreachable_patterns)]
            Err(_) => Res::Other,
        })
    }
    fn drop_handle(&mut self, h: usize) {
        if let Some(slot) = self.handles.get_mut(h) {
            *slot = None;
        }
    }
    /// the handle on this side that corresponds to handle `h` of `other`
    fn corresponding(&self, other: &Side, h: usize) -> Option<usize> {
        let d = other.descs.get(h)?;
        let rank = other.descs[..h].iter().filter(|x| *x == d).count();
        self.descs.iter().enumerate().filter(|(_, x)| *x == d).map(|(i, _)| i).nth(rank)
    }
}

#[derive(Clone, Copy, Debug, PartialEq, Eq, serde::Serialize, serde::Deserialize)]
pub enum LStep {
    Observe,
    Resolve(usize, bool),
    Drop(usize, bool),
}

pub struct Law {
    pub name: &'static str,
    pub lhs: Box<dyn Fn() -> Cmd + Sync + Send>,
    pub rhs: Box<dyn Fn() -> Cmd + Sync + Send>,
    pub describe: String,
}

fn law(name: &'static str, describe: String, lhs: impl Fn() -> Cmd + Sync + Send + 'static, rhs: impl Fn() -> Cmd + Sync + Send + 'static) -> Law {
    Law { name, lhs: Box::new(lhs), rhs: Box::new(rhs), describe }
}

const SHAPES: usize = 6;
const ALL_SHAPED: [&str; SHAPES] = [
    "all(v.filter(true)) = all(v)",
    "all(from_fn(next of v)) = all(v)",
    "all(v.flat_map(once)) = all(v)",
    "all(v.take_while(true)) = all(v)",
    "all(once(first).chain(rest.filter(true))) = all(v)",
    "all(v.map(Some).flatten()) = all(v)",
];
const COLLECT_SHAPED: [&str; SHAPES] = [
    "v.filter(true).collect() = all(v)",
    "from_fn(next of v).collect() = all(v)",
    "v.flat_map(once).collect() = all(v)",
    "v.take_while(true).collect() = all(v)",
    "once(first).chain(rest.filter(true)).collect() = all(v)",
    "v.map(Some).flatten().collect() = all(v)",
];

/// The commands of `v`, in order, behind an iterator whose `size_hint` is not exact: lower bounds of
/// 0, unknown upper bounds, adapters that know one element but not the rest.
fn shaped(v: Vec<Cmd>, shape: usize) -> Box<dyn Iterator<Item = Cmd>> {
    match shape {
        0 => Box::new(v.into_iter().filter(|_| true)),
        1 => {
            let mut it = v.into_iter();
            Box::new(std::iter::from_fn(move || it.next()))
        }
        2 => Box::new(v.into_iter().flat_map(std::iter::once)),
        3 => Box::new(v.into_iter().take_while(|_| true)),
        4 => {
            let mut it = v.into_iter();
            match it.next() {
                Some(first) => Box::new(std::iter::once(first).chain(it.filter(|_| true))),
                None => Box::new(std::iter::empty()),
            }
        }
        _ => Box::new(v.into_iter().map(Some).flatten()),
    }
}

pub fn laws(thorough: bool) -> Vec<Law> {
    let mut out = vec![];
    let unary_base = dsl::terms_up_to(2, &dsl::all_atoms(), Grammar::plain());
    for p in &unary_base {
        let d = format!("{p:?}");
        let (p1, p2) = (p.clone(), p.clone());
        out.push(law("done.then(p) = p", d.clone(), move || Command::done().then(build(&p1)), move || build(&p2)));
        let (p1, p2) = (p.clone(), p.clone());
        out.push(law("p.then(done) = p", d.clone(), move || build(&p1).then(Command::done()), move || build(&p2)));
        let (p1, p2) = (p.clone(), p.clone());
        out.push(law("done.and(p) = p", d.clone(), move || Command::done().and(build(&p1)), move || build(&p2)));
        let (p1, p2) = (p.clone(), p.clone());
        out.push(law("p.and(done) = p", d.clone(), move || build(&p1).and(Command::done()), move || build(&p2)));
        let (p1, p2) = (p.clone(), p.clone());
        out.push(law("all([p]) = p", d.clone(), move || Command::all([build(&p1)]), move || build(&p2)));
        let (p1, p2) = (p.clone(), p.clone());
        out.push(law("[p].collect() = p", d.clone(), move || std::iter::once(build(&p1)).collect(), move || build(&p2)));
        let (p1, p2) = (p.clone(), p.clone());
        out.push(law("p.map_effect(id) = p", d.clone(), move || build(&p1).map_effect(|e| e), move || build(&p2)));
        let (p1, p2) = (p.clone(), p.clone());
        out.push(law("p.map_event(id) = p", d.clone(), move || build(&p1).map_event(|e| e), move || build(&p2)));
        let (p1, p2) = (p.clone(), p.clone());
        out.push(law(
            "from(p.into()) = p",
            d.clone(),
            move || {
                let c: Command<Effect2, Event2> = build(&p1).into();
                Command::from(c)
            },
            move || build(&p2),
        ));
    }
    // commutativity of and / all, associativity-like regrouping
    // `a.and(b)` IS `a` with one more task, so a handle of `a` (here: an atom that fires its own
    // command's handle) also cancels `b`: the `and` laws are stated for operands without such aborts
    let no_self_abort = |v: Vec<P>| -> Vec<P> { v.into_iter().filter(|p| !matches!(p, P::SelfAbort(..) | P::QuietSelfAbort(_))).collect() };
    let atoms: Vec<P> = if thorough { no_self_abort(dsl::all_atoms()) } else { let mut a = dsl::basic_atoms(); a.extend(dsl::async_atoms().into_iter().take(4)); a.extend(dsl::builder_atoms().into_iter().take(3)); a };
    for a in &atoms {
        for b in &atoms {
            let pair = P::All(vec![a.clone(), b.clone()]).normalized();
            let P::All(v) = pair else { unreachable!() };
            let (x, y) = (v[0].clone(), v[1].clone());
            let d = format!("{x:?} , {y:?}");
            let (x1, y1, x2, y2) = (x.clone(), y.clone(), x.clone(), y.clone());
            out.push(law("p.and(q) = q.and(p)", d.clone(), move || build(&x1).and(build(&y1)), move || build(&y2).and(build(&x2))));
            let (x1, y1, x2, y2) = (x.clone(), y.clone(), x.clone(), y.clone());
            out.push(law("all([p,q]) = all([q,p])", d.clone(), move || Command::all([build(&x1), build(&y1)]), move || Command::all([build(&y2), build(&x2)])));
            let (x1, y1, x2, y2) = (x.clone(), y.clone(), x.clone(), y.clone());
            out.push(law("p.and(q) = all([p,q])", d.clone(), move || build(&x1).and(build(&y1)), move || Command::all([build(&x2), build(&y2)])));
        }
    }
    // `all` / `collect` over iterators of every shape: what the iterator says about its own length
    // (`size_hint`) must not matter - the same commands in the same order give the same command
    let basic = dsl::basic_atoms();
    for p in &unary_base {
        let d = format!("{p:?}");
        for shape in [1usize, 3] {
            let (p1, p2) = (p.clone(), p.clone());
            out.push(law(ALL_SHAPED[shape], d.clone(), move || Command::all(shaped(vec![build(&p1)], shape)), move || build(&p2)));
            let (p1, p2) = (p.clone(), p.clone());
            out.push(law(COLLECT_SHAPED[shape], d.clone(), move || shaped(vec![build(&p1)], shape).collect(), move || build(&p2)));
        }
    }
    for shape in 0..SHAPES {
        out.push(law(ALL_SHAPED[shape], "no commands".into(), move || Command::all(shaped(vec![], shape)), Command::done));
        out.push(law(COLLECT_SHAPED[shape], "no commands".into(), move || shaped(vec![], shape).collect(), Command::done));
    }
    let shape_atoms: Vec<P> = if thorough { atoms.clone() } else { basic.clone() };
    for a in &shape_atoms {
        for b in &shape_atoms {
            let d = format!("{a:?} , {b:?}");
            for shape in 0..SHAPES {
                let (a1, b1, a2, b2) = (a.clone(), b.clone(), a.clone(), b.clone());
                out.push(law(ALL_SHAPED[shape], d.clone(), move || Command::all(shaped(vec![build(&a1), build(&b1)], shape)), move || Command::all(vec![build(&a2), build(&b2)])));
                let (a1, b1, a2, b2) = (a.clone(), b.clone(), a.clone(), b.clone());
                out.push(law(COLLECT_SHAPED[shape], d.clone(), move || shaped(vec![build(&a1), build(&b1)], shape).collect(), move || Command::all(vec![build(&a2), build(&b2)])));
            }
        }
    }
    for a in &basic {
        for b in &basic {
            for c in &basic {
                let d = format!("{a:?} , {b:?} , {c:?}");
                let v = vec![a.clone(), b.clone(), c.clone()];
                let shape = (out.len() / 2) % SHAPES;
                let (v1, v2) = (v.clone(), v.clone());
                out.push(law(ALL_SHAPED[shape], d.clone(), move || Command::all(shaped(v1.iter().map(build).collect(), shape)), move || Command::all(v2.iter().map(build).collect::<Vec<_>>())));
                let (v1, v2) = (v.clone(), v.clone());
                out.push(law(COLLECT_SHAPED[shape], d, move || shaped(v1.iter().map(build).collect(), shape).collect(), move || Command::all(v2.iter().map(build).collect::<Vec<_>>())));
            }
        }
    }
    for a in &basic {
        for b in &basic {
            for c in &basic {
                let t = P::All(vec![a.clone(), b.clone(), c.clone()]).normalized();
                let P::All(v) = t else { unreachable!() };
                let d = format!("{:?} , {:?} , {:?}", v[0], v[1], v[2]);
                let (v1, v2) = (v.clone(), v.clone());
                out.push(law(
                    "all([p,q,r]) = all([r,p,q])",
                    d.clone(),
                    move || Command::all(v1.iter().map(build)),
                    move || Command::all([build(&v2[2]), build(&v2[0]), build(&v2[1])]),
                ));
                let (v1, v2) = (v.clone(), v.clone());
                out.push(law(
                    "all([p,q,r]) = p.and(q).and(r)",
                    d,
                    move || Command::all(v1.iter().map(build)),
                    move || build(&v2[0]).and(build(&v2[1])).and(build(&v2[2])),
                ));
            }
        }
    }
    out
}

#[derive(Default, Clone)]
pub struct LStats {
    pub laws: u64,
    pub states: u64,
    pub transitions: u64,
    pub histories: u64,
    pub outcomes: BTreeSet<u64>,
}

pub struct LFound {
    pub law: &'static str,
    pub describe: String,
    pub history: Vec<LStep>,
    pub what: String,
}

/// Replays `hist` on both sides; returns Err(description) at the first difference, else the
/// handle table of the left side: (times resolved, dropped) per handle.
fn run(law: &Law, hist: &[LStep], stats: Option<&mut LStats>, trace: bool) -> Result<Vec<(u8, bool)>, String> {
    let r = mc_kit::catch(|| {
        let mut l = Side::new((law.lhs)());
        let mut r = Side::new((law.rhs)());
        let mut table: Vec<(u8, bool)> = vec![];
        let mut last = 0u64;
        for (i, st) in hist.iter().enumerate() {
            let v = 100 + i as u32;
            let observe = match *st {
                LStep::Observe => true,
                LStep::Resolve(h, o) => {
                    let Some(hr) = r.corresponding(&l, h) else { return Err(format!("step {i}: the right side has no request matching left handle h{h}")) };
                    let (a, b) = (l.resolve(h, v), r.resolve(hr, v));
                    if trace {
                        println!("  step {i}: resolve(h{h}) -> left {a:?} right {b:?}");
                    }
                    if a != b {
                        return Err(format!("step {i}: resolve(h{h}) returned {a:?} on the left and {b:?} on the right"));
                    }
                    table[h].0 += 1;
                    o
                }
                LStep::Drop(h, o) => {
                    let Some(hr) = r.corresponding(&l, h) else { return Err(format!("step {i}: the right side has no request matching left handle h{h}")) };
                    l.drop_handle(h);
                    r.drop_handle(hr);
                    table[h].1 = true;
                    o
                }
            };
            if observe {
                let (a, b) = (l.observe(), r.observe());
                if trace {
                    println!("  step {i}: {st:?}\n      left  {a:?}\n      right {b:?}");
                }
                if a != b {
                    return Err(format!(
                        "after step {i} {st:?}: left effects {:?} events {:?} done {}; right effects {:?} events {:?} done {}",
                        a.0.iter().map(|e| (e.label, e.arg, e.tags)).collect::<Vec<_>>(), a.1, a.2,
                        b.0.iter().map(|e| (e.label, e.arg, e.tags)).collect::<Vec<_>>(), b.1, b.2
                    ));
                }
                while table.len() < l.handles.len() {
                    table.push((0, false));
                }
                last = mc_kit::fnv64(format!("{a:?}").as_bytes());
            }
        }
        Ok((table, last))
    });
    match r {
        Ok(Ok((t, last))) => {
            if let Some(s) = stats {
                s.outcomes.insert(last);
            }
            Ok(t)
        }
        Ok(Err(e)) => Err(e),
        Err(p) => Err(format!("panic: {} at {}:{}", p.message, p.file, p.line)),
    }
}

pub fn explore(law: &Law, depth: usize, stats: &mut LStats, found: &mut Vec<LFound>) {
    fn dfs(law: &Law, hist: &mut Vec<LStep>, table: &[(u8, bool)], silent: bool, depth: usize, stats: &mut LStats, found: &mut Vec<LFound>) {
        let mut steps = vec![];
        if hist.len() < depth {
            if hist.is_empty() {
                steps.push(LStep::Observe);
            } else {
                for (h, (n, dropped)) in table.iter().enumerate() {
                    if *dropped {
                        continue;
                    }
                    if *n < 2 {
                        steps.push(LStep::Resolve(h, true));
                        if !silent {
                            steps.push(LStep::Resolve(h, false));
                        }
                    }
                    steps.push(LStep::Drop(h, true));
                    if !silent && *n == 0 {
                        steps.push(LStep::Drop(h, false));
                    }
                }
            }
        }
        if steps.is_empty() {
            stats.histories += 1;
            return;
        }
        for st in steps {
            hist.push(st);
            stats.transitions += 1;
            let s2 = silent || matches!(st, LStep::Resolve(_, false) | LStep::Drop(_, false));
            match run(law, hist, Some(stats), false) {
                Ok(t) => {
                    stats.states += 1;
                    dfs(law, hist, &t, s2, depth, stats, found);
                }
                Err(what) => {
                    stats.histories += 1;
                    if found.len() < 5 {
                        found.push(LFound { law: law.name, describe: law.describe.clone(), history: hist.clone(), what });
                    }
                }
            }
            hist.pop();
        }
    }
    stats.laws += 1;
    stats.states += 1;
    dfs(law, &mut vec![], &[], false, depth, stats, found);
}

pub fn replay_case(case: &serde_json::Value) -> i32 {
    let name = case["law"].as_str().unwrap_or("");
    let describe = case["operands"].as_str().unwrap_or("");
    let hist: Vec<LStep> = serde_json::from_value(case["history"].clone()).unwrap();
    let Some(l) = laws(true).into_iter().find(|l| l.name == name && l.describe == describe) else {
        println!("unknown law instance");
        return 2;
    };
    println!("law {name} for operands {describe}");
    match run(&l, &hist, None, true) {
        Ok(_) => {
            println!("  both sides agree");
            0
        }
        Err(e) => {
            println!("  DIVERGENCE: {e}");
            1
        }
    }
}
