//! seqx: programs × shell histories against the set-valued reference.

use std::collections::{BTreeMap, BTreeSet};

use serde_json::{json, Value};

use crate::app::{is_b, Event, Out};
use crate::dsl::P;
use crate::hosts::{Host, HostKind, ObsEff, ObsOut};
use crate::refmodel::{Kind, RState, Res, O};

#[derive(Clone, Copy, Debug, PartialEq, Eq, PartialOrd, Ord, serde::Serialize, serde::Deserialize)]
pub enum Act {
    /// first observation of a direct host (core-like hosts start at construction)
    Observe,
    Resolve(u16),
    /// bridge hosts: a response that does not decode
    Malformed(u16),
    Drop(u16),
    Abort(u8),
    /// the holder of a directly held command gives it one more task (`Command::spawn`), at any time -
    /// also after it has finished
    SpawnMore,
}

#[derive(Clone, Copy, Debug, PartialEq, Eq, PartialOrd, Ord, serde::Serialize, serde::Deserialize)]
pub struct Step {
    pub act: Act,
    /// direct hosts: take outputs after the action; core-like hosts: no-op probe after it
    pub observe: bool,
}

pub fn step_json(s: &Step) -> Value {
    let a = match s.act {
        Act::Observe => "observe".to_string(),
        Act::Resolve(h) => format!("resolve(h{h})"),
        Act::Malformed(h) => format!("undecodable-response(h{h})"),
        Act::Drop(h) => format!("drop(h{h})"),
        Act::Abort(k) => format!("abort(a{k})"),
        Act::SpawnMore => "command.spawn(request -> event)".to_string(),
    };
    json!(if s.observe { a } else { format!("{a}; no observation") })
}

#[derive(Clone, Debug)]
pub struct Bounds {
    pub depth: usize,
    pub items_per_stream: u8,
    pub max_aborts: u8,
    pub max_silent: u8,
    /// resolutions the reference expects to be rejected or to be late no-ops
    pub max_late: u8,
    pub abort_before_start: bool,
    /// `Command::spawn` calls by the holder of the command (command-level hosts)
    pub max_spawn_more: u8,
}

#[derive(Clone, Debug)]
pub struct Failure {
    pub key: String,
    pub what: String,
}

/// What the harness knows about a handle (from observations only, plus the predicted kind).
#[derive(Clone, Debug)]
pub struct HInfo {
    pub kind: Kind,
    pub resolves: u8,
    pub dropped: bool,
    pub malformed: u8,
    /// the shell was told FinishedMany for this request
    pub told_finished: bool,
    pub label: u16,
    /// bridge hosts: the id this request travelled under
    pub wire: Option<u32>,
}

#[derive(Clone)]
pub struct Checker {
    pub host: HostKind,
    pub alts: BTreeSet<RState>,
    pub handles: Vec<HInfo>,
    pub aborts_fired: BTreeMap<u8, u8>,
    pub started: bool,
    /// inputs since the last settle (stale wakers can only fire then)
    pub dirty: bool,
    pub silent_used: u8,
    pub late_used: u8,
    /// per-site last mark / per-handle last delivered value
    pub last_mark: BTreeMap<u16, u32>,
    pub last_val: BTreeMap<u16, u32>,
    pub val_handle: BTreeMap<u32, u16>,
    pub max_alts: usize,
    pub spawned_more: u8,
}

fn multiset<T: Ord + Clone>(v: &[T]) -> Vec<T> {
    let mut v = v.to_vec();
    v.sort();
    v
}

impl Checker {
    pub fn new(host: HostKind, p: &P) -> Checker {
        let mut s = RState::default();
        s.add_root(p);
        let mut alts = BTreeSet::new();
        alts.insert(s);
        Checker {
            host,
            alts,
            handles: vec![],
            aborts_fired: BTreeMap::new(),
            started: false,
            dirty: true,
            silent_used: 0,
            spawned_more: 0,
            late_used: 0,
            last_mark: BTreeMap::new(),
            last_val: BTreeMap::new(),
            val_handle: BTreeMap::new(),
            max_alts: 1,
        }
    }

    /// Does every alternative expect this resolve to be accepted *and* to reach a live consumer?
    pub fn predict_resolve(&self, h: u16, v: u32) -> BTreeSet<Res> {
        self.alts.iter().map(|s| s.clone().resolve(h, v)).collect()
    }

    pub fn apply_resolve(&mut self, h: u16, v: u32, observed: Option<Res>) -> Result<(), Failure> {
        let mut next = BTreeSet::new();
        let mut predicted = BTreeSet::new();
        for s in &self.alts {
            let mut s = s.clone();
            let r = s.resolve(h, v);
            predicted.insert(r);
            if observed.is_none() || observed == Some(r) {
                next.insert(s);
            }
        }
        self.handles[h as usize].resolves += 1;
        if observed == Some(Res::Finished) {
            self.handles[h as usize].told_finished = true;
        }
        self.val_handle.insert(v, h);
        self.dirty = true;
        if next.is_empty() {
            let kind = self.handles[h as usize].kind;
            return Err(Failure {
                key: format!("resolve-result/{:?}-{:?}-for-{:?}", observed.unwrap(), predicted.iter().next().unwrap(), kind),
                what: format!(
                    "resolve(h{h}) returned {:?}, the reference allows {:?} (request kind {:?}, resolution #{})",
                    observed.unwrap(),
                    predicted,
                    kind,
                    self.handles[h as usize].resolves
                ),
            });
        }
        self.alts = next;
        Ok(())
    }

    pub fn apply_malformed(&mut self, h: u16, observed: Option<Res>) -> Result<(), Failure> {
        let mut next = BTreeSet::new();
        let mut predicted = BTreeSet::new();
        for s in &self.alts {
            let mut s = s.clone();
            let r = s.malformed(h);
            predicted.insert(r);
            if observed == Some(r) {
                next.insert(s);
            }
        }
        self.handles[h as usize].malformed += 1;
        if self.handles[h as usize].kind == Kind::Once {
            self.handles[h as usize].resolves += 1;
        }
        self.dirty = true;
        if next.is_empty() {
            return Err(Failure {
                key: format!("undecodable-response/{:?}-expected-{:?}", observed, predicted.iter().next().unwrap()),
                what: format!("undecodable response to h{h}: bridge answered {:?}, the reference allows {:?}", observed, predicted),
            });
        }
        self.alts = next;
        Ok(())
    }

    pub fn apply_drop(&mut self, h: u16) {
        self.alts = self
            .alts
            .iter()
            .map(|s| {
                let mut s = s.clone();
                s.drop_handle(h);
                s
            })
            .collect();
        self.handles[h as usize].dropped = true;
        self.dirty = true;
    }

    pub fn apply_spawn_more(&mut self) {
        let site = crate::hosts::spawn_more_site(self.spawned_more);
        self.alts = self
            .alts
            .iter()
            .map(|s| {
                let mut s = s.clone();
                s.spawn_more(site);
                s
            })
            .collect();
        self.spawned_more += 1;
        self.dirty = true;
    }

    pub fn apply_abort(&mut self, k: u8) {
        self.alts = self
            .alts
            .iter()
            .map(|s| {
                let mut s = s.clone();
                s.abort(u16::from(k));
                s
            })
            .collect();
        *self.aborts_fired.entry(k).or_default() += 1;
        self.dirty = true;
    }

    /// The real system settled (observation of a direct host, or a call of a core-like host) and
    /// produced `obs`. Filters the alternatives; Err if none explains the observation.
    pub fn apply_settle(&mut self, obs: &ObsOut, is_probe_after_call: bool) -> Result<(), Failure> {
        if let Some(p) = &obs.panic {
            return Err(Failure { key: format!("panic/{}", panic_key(p)), what: format!("panic: {p}") });
        }
        let core = self.host.is_core();
        let mut next: BTreeSet<RState> = BTreeSet::new();
        let mut first_pred: Option<(Vec<ObsEff>, Vec<Event>, bool, usize)> = None;
        let base_handles = self.handles.len();
        let mut new_kinds: Option<Vec<Kind>> = None;
        for s in &self.alts {
            let starts = if self.dirty && !is_probe_after_call { s.spurious_alternatives() } else { vec![s.clone()] };
            let mut settled: Vec<(RState, Vec<O>)> = vec![];
            for mut s in starts {
                let outs = settle_full(&mut s, self.host.poll_all(), core);
                settled.push((s, outs));
            }
            // a task may wake itself or a sibling spuriously *during* a settle (stale wakers,
            // combinator-internal self wakes): abort clean-ups that became pending in this very
            // settle may therefore also complete within it.
            if self.dirty && !is_probe_after_call {
                let mut extra = vec![];
                for (s, outs) in &settled {
                    if s.roots.iter().any(|r| r.has_abort_pending()) {
                        for mut s2 in s.spurious_alternatives().into_iter().skip(1) {
                            let mut o2 = outs.clone();
                            o2.extend(settle_full(&mut s2, false, core));
                            extra.push((s2, o2));
                        }
                    }
                }
                settled.extend(extra);
            }
            for (s, outs) in settled {
                for s in s.widen_stream_req() {
                    let pred_effs: Vec<(u32, ObsEff, Kind)> = outs
                        .iter()
                        .filter_map(|o| match o {
                            O::Eff { d, uid } => Some((
                                *uid,
                                ObsEff { label: d.label, arg: d.arg, tags: d.tags, is_b: is_b(d.label) },
                                d.kind,
                            )),
                            _ => None,
                        })
                        .collect();
                    let pred_evs: Vec<Event> =
                        outs.iter().filter_map(|o| if let O::Ev(e) = o { Some(e.clone()) } else { None }).collect();
                    let done = s.all_fin();
                    let live = s.roots[0].live_tasks();
                    if first_pred.is_none() {
                        first_pred =
                            Some((pred_effs.iter().map(|(_, e, _)| e.clone()).collect(), pred_evs.clone(), done, live));
                    }
                    if multiset(&pred_evs) != multiset(&obs.events) {
                        continue;
                    }
                    let pe: Vec<ObsEff> = pred_effs.iter().map(|(_, e, _)| e.clone()).collect();
                    if multiset(&pe) != multiset(&obs.effects) {
                        continue;
                    }
                    if let Some(d) = obs.done {
                        if d != done {
                            continue;
                        }
                    }
                    // the gauge is compared for emptiness only: how many tasks a combinator uses is
                    // structure, not behaviour (a refactoring may host differently); whether *any*
                    // task is left when nothing can happen any more is the property
                    if let Some(l) = obs.live {
                        if (l == 0) != (live == 0) {
                            continue;
                        }
                    }
                    // bind observed effects (in observation order) to predicted ones: all matchings
                    let mut matchings: Vec<Vec<usize>> = vec![vec![]];
                    for oe in &obs.effects {
                        let mut ext = vec![];
                        for m in &matchings {
                            for (j, (_, e, _)) in pred_effs.iter().enumerate() {
                                if e == oe && !m.contains(&j) {
                                    let mut m2 = m.clone();
                                    m2.push(j);
                                    ext.push(m2);
                                }
                            }
                        }
                        matchings = ext;
                    }
                    for m in matchings {
                        let mut s2 = s.clone();
                        let mut kinds = vec![];
                        for j in &m {
                            let (uid, _, kind) = &pred_effs[*j];
                            let h = s2.bind_new(*uid, *kind);
                            debug_assert_eq!(h as usize, base_handles + kinds.len());
                            kinds.push(*kind);
                        }
                        if new_kinds.is_none() {
                            new_kinds = Some(kinds);
                        }
                        next.insert(s2);
                    }
                }
            }
        }
        if next.is_empty() {
            let (pe, pv, pd, pl) = first_pred.unwrap_or_default();
            let what = format!(
                "observed effects {:?} events {:?} done {:?} live-tasks {:?}; reference (first alternative) effects {:?} events {:?} done {} live-tasks {}",
                obs.effects.iter().map(|e| (e.label, e.arg, e.tags)).collect::<Vec<_>>(),
                obs.events,
                obs.done,
                obs.live,
                pe.iter().map(|e| (e.label, e.arg, e.tags)).collect::<Vec<_>>(),
                pv,
                pd,
                pl
            );
            let key = classify(&pe, &pv, pd, pl, obs);
            return Err(Failure { key, what });
        }
        // generic order checks: marks of one site ascend; values delivered through one handle
        // appear in the order they were sent
        for e in &obs.events {
            if let Event::Out(o) = e.peel().0 {
                match o {
                    Out::Mark { site, n } => {
                        let slot = self.last_mark.entry(*site).or_insert(0);
                        if *n + 1 <= *slot {
                            return Err(Failure {
                                key: "event-order/per-task-order-violated".into(),
                                what: format!("events of site {site} out of emission order: {:?}", obs.events),
                            });
                        }
                        *slot = *n + 1;
                    }
                    Out::Got { val, .. } => {
                        let v = *val % crate::build::MAP_OFFSET;
                        if let Some(h) = self.val_handle.get(&v) {
                            let slot = self.last_val.entry(*h).or_insert(0);
                            if v + 1 <= *slot {
                                return Err(Failure {
                                    key: "stream-order/items-out-of-order".into(),
                                    what: format!("values sent through handle h{h} delivered out of order: {:?}", obs.events),
                                });
                            }
                            *slot = v + 1;
                        }
                    }
                }
            }
        }
        if let Some((spawns, ready, effects, events)) = obs.queues {
            if spawns + ready + effects + events != 0 {
                return Err(Failure {
                    key: "quiescence/runnable-work-left-after-call".into(),
                    what: format!(
                        "after the call returned: queued spawns {spawns}, queued wake-ups {ready}, undelivered effects {effects}, unapplied events {events}"
                    ),
                });
            }
        }
        for (i, k) in new_kinds.unwrap_or_default().into_iter().enumerate() {
            self.handles.push(HInfo {
                kind: k,
                resolves: 0,
                dropped: false,
                malformed: 0,
                told_finished: false,
                label: obs.effects[i].label,
                wire: obs.wire_ids.get(i).copied(),
            });
        }
        // C09: ids of simultaneously resolvable requests are pairwise distinct
        {
            let mut seen = BTreeMap::new();
            for (h, hi) in self.handles.iter().enumerate() {
                let Some(w) = hi.wire else { continue };
                let resolvable = match hi.kind {
                    Kind::Never => false,
                    Kind::Once => hi.resolves == 0,
                    Kind::Many => next.iter().next().map_or(false, |s| s.roots.iter().any(|r| r.find_src(h as u16).is_some())),
                };
                if resolvable {
                    if let Some(prev) = seen.insert(w, h) {
                        return Err(Failure {
                            key: "bridge-id/two-outstanding-requests-share-an-id".into(),
                            what: format!("handles h{prev} and h{h} are both resolvable and both travel under id {w}"),
                        });
                    }
                }
            }
        }
        self.max_alts = self.max_alts.max(next.len());
        self.alts = next;
        self.dirty = false;
        self.started = true;
        Ok(())
    }

    /// Steps enabled after the current history (computed from the handle table).
    pub fn enabled(&self, p: &P, b: &Bounds, depth: usize) -> Vec<Step> {
        let mut out = vec![];
        if depth >= b.depth {
            return out;
        }
        let direct = !self.host.is_core();
        if !self.started {
            // direct hosts: first observation; optionally an abort before it
            out.push(Step { act: Act::Observe, observe: true });
            if b.abort_before_start && b.max_aborts > 0 {
                for k in 0..p.abort_handles() as u8 {
                    if self.aborts_fired.get(&k).copied().unwrap_or(0) == 0 {
                        out.push(Step { act: Act::Abort(k), observe: false });
                    }
                }
            }
            return out;
        }
        let aborts_total: u8 = self.aborts_fired.values().sum();
        let some_alt = self.alts.iter().next().unwrap();
        for (h, hi) in self.handles.iter().enumerate() {
            let h = h as u16;
            if hi.dropped {
                continue;
            }
            let live = some_alt.roots.iter().any(|r| r.find_src(h).is_some());
            let late = match hi.kind {
                Kind::Never => true,
                Kind::Once => hi.resolves >= 1,
                Kind::Many => !live,
            };
            // bridge: answering under an id that has meanwhile been handed to a newer request is
            // shell misuse ("the id MUST match"), not a late response
            let id_reused = hi.wire.map_or(false, |w| self.handles[h as usize + 1..].iter().any(|o| o.wire == Some(w)));
            // bridge: once the shell has been told FinishedMany the bridge forgets the request; a
            // further response under that id is misuse (documented panic), not a late response
            let forgotten = !self.host.can_drop() && hi.told_finished;
            let allowed = if forgotten {
                false
            } else if late {
                !id_reused && self.late_used < b.max_late && hi.resolves < b.items_per_stream + 1
            } else {
                hi.kind == Kind::Once || hi.resolves < b.items_per_stream
            };
            if !self.host.can_drop() && !late && !id_reused && hi.malformed == 0 && self.late_used < b.max_late && hi.kind != Kind::Never {
                out.push(Step { act: Act::Malformed(h), observe: true });
            }
            if allowed {
                out.push(Step { act: Act::Resolve(h), observe: true });
                if direct && self.silent_used < b.max_silent {
                    out.push(Step { act: Act::Resolve(h), observe: false });
                }
            }
            if self.host.can_drop() {
                // dropping a request that can no longer matter is only explored within the late budget
                let matters = live && !(hi.kind == Kind::Once && hi.resolves >= 1);
                if matters || self.late_used < b.max_late {
                    out.push(Step { act: Act::Drop(h), observe: true });
                    if direct && matters && self.silent_used < b.max_silent {
                        out.push(Step { act: Act::Drop(h), observe: false });
                    }
                }
            }
        }
        if direct && self.spawned_more < b.max_spawn_more {
            out.push(Step { act: Act::SpawnMore, observe: true });
            if self.silent_used < b.max_silent {
                out.push(Step { act: Act::SpawnMore, observe: false });
            }
        }
        if aborts_total < b.max_aborts {
            for k in 0..p.abort_handles() as u8 {
                if self.aborts_fired.get(&k).copied().unwrap_or(0) < 2 {
                    out.push(Step { act: Act::Abort(k), observe: true });
                    if self.silent_used < b.max_silent {
                        out.push(Step { act: Act::Abort(k), observe: false });
                    }
                }
            }
        }
        out
    }
}

/// settle, following trigger events (core-like hosts start the triggered program in the same call)
fn settle_full(s: &mut RState, poll_all: bool, core: bool) -> Vec<O> {
    let mut outs: Vec<O> = s.settle(poll_all);
    if core {
        let mut i = 0;
        while i < outs.len() {
            if let O::Ev(e) = &outs[i] {
                let q = match e.peel().0 {
                    Event::Start(q) | Event::StartLegacy(q) => Some(q.clone()),
                    _ => None,
                };
                if let Some(q) = q {
                    s.add_root(&q);
                    let more = s.settle(false);
                    outs.extend(more);
                }
            }
            i += 1;
        }
    }
    outs
}

fn panic_key(p: &str) -> String {
    let loc = p.rsplit(" at ").next().unwrap_or("");
    let file = loc.rsplit('/').next().unwrap_or(loc);
    let file = file.split(':').next().unwrap_or(file);
    let msg: String = p
        .chars()
        .take_while(|c| *c != ':' && *c != '\n')
        .take(40)
        .map(|c| if c.is_ascii_alphanumeric() { c.to_ascii_lowercase() } else { '-' })
        .collect();
    format!("{}/{}", file, msg.trim_matches('-'))
}

fn classify(pe: &[ObsEff], pv: &[Event], pd: bool, pl: usize, obs: &ObsOut) -> String {
    let (oe, ov) = (multiset(&obs.effects), multiset(&obs.events));
    let (pe, pv) = (multiset(pe), multiset(pv));
    let sub = |a: &Vec<ObsEff>, b: &Vec<ObsEff>| a.iter().all(|x| a.iter().filter(|y| *y == x).count() <= b.iter().filter(|y| *y == x).count());
    let subv = |a: &Vec<Event>, b: &Vec<Event>| a.iter().all(|x| a.iter().filter(|y| *y == x).count() <= b.iter().filter(|y| *y == x).count());
    if oe != pe {
        if sub(&oe, &pe) {
            return "effects/missing".into();
        }
        if sub(&pe, &oe) {
            return "effects/unexpected".into();
        }
        return "effects/different".into();
    }
    if ov != pv {
        if subv(&ov, &pv) {
            return "events/missing".into();
        }
        if subv(&pv, &ov) {
            return "events/unexpected".into();
        }
        return "events/different".into();
    }
    if let Some(d) = obs.done {
        if d != pd {
            return if d { "done/reported-done-with-live-work".into() } else { "done/not-done-with-nothing-left".into() };
        }
    }
    if let Some(l) = obs.live {
        if (l == 0) != (pl == 0) {
            return if l > pl { "tasks/lingering-task".into() } else { "tasks/task-discarded-early".into() };
        }
    }
    "mismatch/other".into()
}

// ---------------------------------------------------------------------------------------------
// Executing a history against a real host

pub fn fresh_value(step_index: usize) -> u32 {
    100 + step_index as u32
}

/// Replays `history` on a fresh host; returns the observations of the *last* step:
/// (result of a resolve, observation of the call itself, observation after it).
pub fn execute(host: HostKind, p: &P, history: &[Step], hints: &[bool]) -> (Host, Option<Res>, Option<ObsOut>, Option<ObsOut>) {
    let mut h = Host::new(host);
    let mut last = (None, h.start(p), None);
    if host.is_core() && history.is_empty() {
        return (h, None, last.1, None);
    }
    for (i, s) in history.iter().enumerate() {
        last = step_on(&mut h, *s, i, hints.get(i).copied().unwrap_or(true));
    }
    (h, last.0, last.1, last.2)
}

/// One step of a history on a live host: (result of a resolve, observation of the call itself,
/// observation after it).
pub fn step_on(h: &mut Host, s: Step, i: usize, hint: bool) -> (Option<Res>, Option<ObsOut>, Option<ObsOut>) {
    let mut res = None;
    let mut call_obs = None;
    match s.act {
        Act::Observe => {}
        Act::Resolve(hd) => {
            let (r, o) = h.resolve(hd, fresh_value(i), hint);
            res = r;
            call_obs = o;
        }
        Act::Malformed(hd) => {
            let (r, o) = h.malformed(hd);
            res = r;
            call_obs = o;
        }
        Act::Drop(hd) => h.drop_handle(hd),
        Act::Abort(k) => {
            h.abort(k);
        }
        Act::SpawnMore => h.spawn_more(),
    }
    let after = if s.observe && !h.dead { Some(h.observe()) } else { None };
    (res, call_obs, after)
}

// ---------------------------------------------------------------------------------------------
// Exploration

#[derive(Default, Clone)]
pub struct Stats {
    pub programs: u64,
    pub states: u64,
    pub transitions: u64,
    pub histories: u64,
    pub steps_executed: u64,
    pub max_alts: usize,
    pub max_depth: usize,
    pub outcomes: BTreeSet<u64>,
    pub capped: bool,
}

impl Stats {
    pub fn merge(&mut self, o: &Stats) {
        self.programs += o.programs;
        self.states += o.states;
        self.transitions += o.transitions;
        self.histories += o.histories;
        self.steps_executed += o.steps_executed;
        self.max_alts = self.max_alts.max(o.max_alts);
        self.max_depth = self.max_depth.max(o.max_depth);
        self.outcomes.extend(o.outcomes.iter().copied());
        self.capped |= o.capped;
    }
}

pub struct Found {
    pub failure: Failure,
    pub history: Vec<Step>,
}

/// Scripted exploration: instead of branching over every enabled step, one step is chosen per
/// depth by a fixed rule. Used for *long* histories over *large* programs (thresholds at constants
/// in the code are out of reach of the depth-bounded tree); every scripted history is executed and
/// checked step by step like any other.
#[derive(Clone, Copy, Debug, PartialEq, Eq)]
pub enum Policy {
    /// answer the oldest outstanding request
    LowFirst,
    /// answer the newest outstanding request
    HighFirst,
    /// oldest, newest, oldest, ...
    Alternate,
    /// like LowFirst, but every third step drops the oldest instead (hosts that can drop)
    DropThird,
    /// like LowFirst, observing only after every second answer (command-level hosts)
    SilentPairs,
    /// like LowFirst (with a large items-per-stream bound the oldest subscription is fed again and
    /// again), observing only after every 45th answer: dozens of items wait in one subscription
    Flood,
}

impl Policy {
    fn pick(self, steps: Vec<Step>, depth: usize) -> Vec<Step> {
        if steps.iter().any(|s| s.act == Act::Observe) {
            return steps.into_iter().filter(|s| s.act == Act::Observe).take(1).collect();
        }
        let resolves = |obs: bool| -> Vec<Step> { steps.iter().copied().filter(|s| matches!(s.act, Act::Resolve(_)) && s.observe == obs).collect() };
        let drops: Vec<Step> = steps.iter().copied().filter(|s| matches!(s.act, Act::Drop(_)) && s.observe).collect();
        let seen = resolves(true);
        let low = seen.first().copied();
        let high = seen.last().copied();
        let choice = match self {
            Policy::LowFirst => low,
            Policy::HighFirst => high,
            Policy::Alternate => if depth % 2 == 0 { low } else { high },
            Policy::DropThird => if depth % 3 == 2 { drops.first().copied().or(low) } else { low },
            Policy::SilentPairs => if depth % 2 == 1 { resolves(false).first().copied().or(low) } else { low },
            Policy::Flood => if depth % 45 != 44 { resolves(false).first().copied().or(low) } else { low },
        };
        // nothing left to answer: release what is still held (ends subscriptions), oldest first
        choice.or(drops.first().copied()).into_iter().collect()
    }
}

pub struct Explorer<'a> {
    pub host: HostKind,
    pub p: &'a P,
    pub bounds: &'a Bounds,
    pub stats: Stats,
    pub found: Vec<Found>,
    pub node_cap: u64,
    pub sample: Option<Vec<Step>>,
    pub deadline: Option<&'a mc_kit::Deadline>,
    pub policy: Option<Policy>,
}

impl<'a> Explorer<'a> {
    pub fn new(host: HostKind, p: &'a P, bounds: &'a Bounds) -> Self {
        Explorer { host, p, bounds, stats: Stats::default(), found: vec![], node_cap: u64::MAX, sample: None, deadline: None, policy: None }
    }

    /// One scripted history on one live host (no branching, so nothing has to be re-executed).
    fn run_scripted(&mut self, pol: Policy) {
        self.stats.programs = 1;
        let mut chk = Checker::new(self.host, self.p);
        let mut h = Host::new(self.host);
        let start_call = h.start(self.p);
        self.stats.states += 1;
        if self.host.is_core() {
            self.stats.steps_executed += 1;
            if let Err(f) = chk.apply_settle(&start_call.unwrap(), false) {
                self.found.push(Found { failure: f, history: vec![] });
                return;
            }
        }
        let mut hist: Vec<Step> = vec![];
        while hist.len() < self.bounds.depth {
            let steps = pol.pick(chk.enabled(self.p, self.bounds, hist.len()), hist.len());
            let Some(st) = steps.first().copied() else { break };
            let mut hint = true;
            if let Act::Resolve(hd) = st.act {
                hint = chk.predict_resolve(hd, 0).iter().all(|r| *r == Res::Ok);
            }
            let idx = hist.len();
            hist.push(st);
            let (res, call, after) = step_on(&mut h, st, idx, hint);
            self.stats.steps_executed += 1;
            self.stats.transitions += 1;
            match self.check_step(&mut chk, st, idx, res, call, after, &h) {
                Ok(()) => self.stats.states += 1,
                Err(f) => {
                    self.found.push(Found { failure: f, history: hist.clone() });
                    return;
                }
            }
        }
        self.stats.histories += 1;
        self.stats.max_depth = self.stats.max_depth.max(hist.len());
        self.sample = Some(hist);
    }

    pub fn run(&mut self) {
        if let Some(pol) = self.policy {
            return self.run_scripted(pol);
        }
        self.stats.programs = 1;
        let chk = Checker::new(self.host, self.p);
        let mut hist = vec![];
        let mut hints = vec![];
        if self.host.is_core() {
            // the start event is a call
            let (_h, _, call, _) = execute(self.host, self.p, &[], &[]);
            self.stats.steps_executed += 1;
            let mut chk = chk;
            match chk.apply_settle(&call.unwrap(), false) {
                Ok(()) => {}
                Err(f) => {
                    self.found.push(Found { failure: f, history: vec![] });
                    return;
                }
            }
            self.stats.states += 1;
            self.dfs(&mut hist, &mut hints, &chk);
        } else {
            self.stats.states += 1;
            self.dfs(&mut hist, &mut hints, &chk);
        }
    }

    fn dfs(&mut self, hist: &mut Vec<Step>, hints: &mut Vec<bool>, chk: &Checker) {
        if !self.stats.capped && self.stats.states % 4096 == 0 && self.deadline.map_or(false, |d| d.expired()) {
            self.stats.capped = true;
        }
        if self.stats.states >= self.node_cap || (self.stats.capped && self.deadline.map_or(false, |d| d.expired())) {
            self.stats.capped = true;
            return;
        }
        // `enabled` consults the thread-local abort table of the last build: rebuild it cheaply
        let mut steps = chk.enabled(self.p, self.bounds, hist.len());
        if let Some(pol) = self.policy {
            steps = pol.pick(steps, hist.len());
        }
        if steps.is_empty() {
            self.stats.histories += 1;
            self.stats.max_depth = self.stats.max_depth.max(hist.len());
            if self.sample.is_none() || hist.len() > self.sample.as_ref().unwrap().len() {
                self.sample = Some(hist.clone());
            }
            return;
        }
        for st in steps {
            let mut chk2 = chk.clone();
            // hint for core hosts: route around Core::resolve's debug_assert when a rejection is expected
            let mut hint = true;
            if let Act::Resolve(h) = st.act {
                let pr = chk2.predict_resolve(h, 0);
                hint = pr.iter().all(|r| *r == Res::Ok);
            }
            hist.push(st);
            hints.push(hint);
            let (host, res, call, after) = execute(self.host, self.p, hist, hints);
            self.stats.steps_executed += hist.len() as u64;
            self.stats.transitions += 1;
            let idx = hist.len() - 1;
            let r = self.check_step(&mut chk2, st, idx, res, call, after, &host);
            match r {
                Ok(()) => {
                    self.stats.states += 1;
                    self.stats.max_alts = self.stats.max_alts.max(chk2.max_alts);
                    if !host.dead {
                        drop(host);
                        self.dfs(hist, hints, &chk2);
                    } else {
                        self.stats.histories += 1;
                    }
                }
                Err(f) => {
                    self.stats.histories += 1;
                    if self.found.len() < 50 {
                        self.found.push(Found { failure: f, history: hist.clone() });
                    }
                }
            }
            hist.pop();
            hints.pop();
        }
    }

    pub fn check_step_pub(
        &mut self,
        chk: &mut Checker,
        st: Step,
        idx: usize,
        res: Option<Res>,
        call: Option<ObsOut>,
        after: Option<ObsOut>,
        host: &Host,
    ) -> Result<(), Failure> {
        self.check_step(chk, st, idx, res, call, after, host)
    }

    fn check_step(
        &mut self,
        chk: &mut Checker,
        st: Step,
        idx: usize,
        res: Option<Res>,
        call: Option<ObsOut>,
        after: Option<ObsOut>,
        _host: &Host,
    ) -> Result<(), Failure> {
        let core = self.host.is_core();
        let mut was_call = false;
        match st.act {
            Act::Observe => {}
            Act::Resolve(h) => {
                if let Some(c) = &call {
                    if let Some(p) = &c.panic {
                        return Err(Failure { key: format!("panic/{}", panic_key(p)), what: format!("resolve(h{h}) panicked: {p}") });
                    }
                }
                let late = {
                    let hi = &chk.handles[h as usize];
                    hi.kind == Kind::Never || (hi.kind == Kind::Once && hi.resolves >= 1)
                };
                let pred = chk.predict_resolve(h, 0);
                if late || pred.iter().any(|r| *r != Res::Ok) {
                    chk.late_used += 1;
                }
                if res.is_none() {
                    return Err(Failure { key: "harness/no-result".into(), what: format!("resolve(h{h}) produced no result") });
                }
                chk.apply_resolve(h, fresh_value(idx), res)?;
                if core {
                    if let Some(c) = &call {
                        chk.apply_settle(c, false)?;
                        was_call = true;
                    }
                }
            }
            Act::Malformed(h) => {
                if let Some(c) = &call {
                    if let Some(p) = &c.panic {
                        return Err(Failure { key: format!("panic/{}", panic_key(p)), what: format!("undecodable response to h{h} panicked: {p}") });
                    }
                }
                chk.late_used += 1;
                chk.apply_malformed(h, res)?;
            }
            Act::Drop(h) => {
                let hi = &chk.handles[h as usize];
                if hi.kind == Kind::Never || (hi.kind == Kind::Once && hi.resolves >= 1) {
                    chk.late_used += 1;
                }
                chk.apply_drop(h);
            }
            Act::Abort(k) => chk.apply_abort(k),
            Act::SpawnMore => chk.apply_spawn_more(),
        }
        if !st.observe {
            chk.silent_used += 1;
        }
        if let Some(o) = &after {
            chk.apply_settle(o, was_call)?;
            self.stats.outcomes.insert(mc_kit::fnv64(format!("{:?}{:?}{:?}", call.as_ref().map(|c| (&c.effects, &c.events)), o.effects, o.events).as_bytes()));
        }
        Ok(())
    }
}
