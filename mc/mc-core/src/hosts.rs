//! Hosts: the different ways the same (program, history) is executed against the real crux code.

use std::pin::Pin;
use std::sync::atomic::{AtomicBool, Ordering};
use std::sync::Arc;
use std::task::{Context, Poll, Wake, Waker};

use bincode::Options;
use crux_core::bridge::{Bridge, BridgeWithSerializer};
use crux_core::command::CommandOutput;
use crux_core::{Core, ResolveError};
use futures::Stream;
use serde::Deserialize;

use crate::app::{Effect, Event, OpA, OpB, VApp, VOp};
use crate::build::{build, clear_aborts, fire_abort, Cmd};
use crate::dsl::P;
use crate::refmodel::Res;

#[derive(Clone, Debug, PartialEq, Eq, PartialOrd, Ord)]
pub struct ObsEff {
    pub label: u16,
    pub arg: u32,
    pub tags: u8,
    pub is_b: bool,
}

#[derive(Clone, Debug, Default, PartialEq, Eq)]
pub struct ObsOut {
    pub effects: Vec<ObsEff>,
    pub events: Vec<Event>,
    /// `is_done()` (direct hosts) / stream ended (stream host)
    pub done: Option<bool>,
    /// top-level task count (direct hosts, hook)
    pub live: Option<usize>,
    /// runtime queues that must be empty after a core call: (spawns, ready, effects, events)
    pub queues: Option<(usize, usize, usize, usize)>,
    /// the call did not return normally
    pub panic: Option<String>,
    /// bridge hosts: wire ids of `effects`, in the same order
    pub wire_ids: Vec<u32>,
}

#[derive(Clone, Copy, Debug, PartialEq, Eq, PartialOrd, Ord, serde::Serialize, serde::Deserialize)]
pub enum HostKind {
    Direct,
    StreamPoll,
    CoreCmd,
    CoreLegacy,
    Bincode,
    Json,
}

impl HostKind {
    pub fn name(self) -> &'static str {
        match self {
            HostKind::Direct => "direct",
            HostKind::StreamPoll => "stream-poll",
            HostKind::CoreCmd => "core-command",
            HostKind::CoreLegacy => "core-legacy",
            HostKind::Bincode => "bridge-bincode",
            HostKind::Json => "bridge-json",
        }
    }
    /// the root command is polled at every observation, woken or not
    pub fn poll_all(self) -> bool {
        self == HostKind::Direct
    }
    /// every call settles by itself; drops and aborts are not calls
    pub fn is_core(self) -> bool {
        !matches!(self, HostKind::Direct | HostKind::StreamPoll)
    }
    pub fn can_drop(self) -> bool {
        !matches!(self, HostKind::Bincode | HostKind::Json)
    }
}

fn obs_eff(e: &Effect) -> ObsEff {
    match e {
        Effect::CapA(r) => ObsEff { label: r.operation.label, arg: r.operation.arg, tags: r.operation.tags, is_b: false },
        Effect::CapB(r) => ObsEff { label: r.operation.label, arg: r.operation.arg, tags: r.operation.tags, is_b: true },
    }
}

fn map_res(r: Result<(), ResolveError>) -> Res {
    match r {
        Ok(()) => Res::Ok,
        Err(ResolveError::Never) => Res::Never,
        Err(ResolveError::FinishedMany) => Res::Finished,
        #[allow(unreachable_patterns)]
        Err(_) => Res::Other,
    }
}

fn resolve_effect(e: &mut Effect, v: u32) -> Res {
    match e {
        Effect::CapA(r) => map_res(r.resolve(OpA::out(v))),
        Effect::CapB(r) => map_res(r.resolve(OpB::out(v))),
    }
}

struct FlagWaker(AtomicBool);

impl Wake for FlagWaker {
    fn wake(self: Arc<Self>) {
        self.0.store(true, Ordering::SeqCst);
    }
    fn wake_by_ref(self: &Arc<Self>) {
        self.0.store(true, Ordering::SeqCst);
    }
}

#[derive(Deserialize)]
enum FfiMirror {
    CapA(OpA),
    CapB(OpB),
}

#[derive(Deserialize)]
struct ReqMirror {
    id: u32,
    effect: FfiMirror,
}

fn bincode_opts() -> impl bincode::Options + Copy {
    bincode::DefaultOptions::new().with_fixint_encoding().allow_trailing_bytes()
}

enum Inner {
    Direct { cmd: Cmd, handles: Vec<Option<Effect>> },
    Stream { cmd: Cmd, handles: Vec<Option<Effect>>, flag: Arc<FlagWaker>, ended: bool },
    Core { core: Core<VApp>, handles: Vec<Option<Effect>>, log_len: usize, legacy: bool },
    Bincode { bridge: Bridge<VApp>, ids: Vec<(u32, bool)>, log_len: usize },
    Json { bridge: BridgeWithSerializer<VApp>, ids: Vec<(u32, bool)>, log_len: usize },
}

pub struct Host {
    pub kind: HostKind,
    inner: Option<Inner>,
    /// the host cannot be used any further (documented panic poisoned it)
    pub dead: bool,
    spawned: u8,
}

/// site of the n-th task added through `Command::spawn` by the holder of the command
pub fn spawn_more_site(n: u8) -> crate::dsl::S {
    let id = 900 + 2 * u16::from(n);
    crate::dsl::S { id, label: id }
}

impl Host {
    pub fn new(kind: HostKind) -> Host {
        Host { kind, inner: None, dead: false, spawned: 0 }
    }

    /// Creates the subject. Core-like hosts deliver the start event, which is a call.
    pub fn start(&mut self, p: &P) -> Option<ObsOut> {
        clear_aborts();
        match self.kind {
            HostKind::Direct => {
                self.inner = Some(Inner::Direct { cmd: build(p), handles: vec![] });
                None
            }
            HostKind::StreamPoll => {
                let flag = Arc::new(FlagWaker(AtomicBool::new(true)));
                self.inner = Some(Inner::Stream { cmd: build(p), handles: vec![], flag, ended: false });
                None
            }
            HostKind::CoreCmd | HostKind::CoreLegacy => {
                let legacy = self.kind == HostKind::CoreLegacy;
                self.inner = Some(Inner::Core { core: Core::new(), handles: vec![], log_len: 0, legacy });
                let ev = if legacy { Event::StartLegacy(p.clone()) } else { Event::Start(p.clone()) };
                Some(self.core_event(ev))
            }
            HostKind::Bincode => {
                self.inner = Some(Inner::Bincode { bridge: Bridge::new(Core::new()), ids: vec![], log_len: 0 });
                Some(self.core_event(Event::Start(p.clone())))
            }
            HostKind::Json => {
                self.inner =
                    Some(Inner::Json { bridge: BridgeWithSerializer::new(Core::new()), ids: vec![], log_len: 0 });
                Some(self.core_event(Event::Start(p.clone())))
            }
        }
    }

    /// Delivers a shell event through a core-like host and observes the call.
    fn core_event(&mut self, ev: Event) -> ObsOut {
        let mut out = ObsOut::default();
        match self.inner.as_mut().unwrap() {
            Inner::Core { core, handles, log_len, legacy } => {
                let sent = ev.clone();
                match mc_kit::catch(|| core.process_event(ev)) {
                    Ok(effects) => {
                        for e in effects {
                            out.effects.push(obs_eff(&e));
                            handles.push(Some(e));
                        }
                        let log = core.view();
                        out.events = log[*log_len..].to_vec();
                        *log_len = log.len();
                        if out.events.first() == Some(&sent) {
                            out.events.remove(0);
                        } else {
                            out.panic = Some("shell event was not applied first".into());
                        }
                        let _ = legacy;
                        normalise_triggers(&mut out.events);
                        let s = core.verif_stats();
                        out.queues = Some((s.1, s.2, s.3, s.4));
                    }
                    Err(p) => {
                        out.panic = Some(format!("{} at {}:{}", p.message, p.file, p.line));
                        self.dead = true;
                    }
                }
            }
            Inner::Bincode { bridge, ids, log_len } => {
                let sent = ev.clone();
                let bytes = bincode_opts().serialize(&ev).unwrap();
                match mc_kit::catch(|| bridge.process_event(&bytes)) {
                    Ok(Ok(bytes)) => {
                        decode_bincode(&bytes, ids, &mut out);
                        let view: Vec<Event> = bincode_opts().deserialize(&bridge.view().unwrap()).unwrap();
                        out.events = view[*log_len..].to_vec();
                        normalise_triggers(&mut out.events);
                        *log_len = view.len();
                        if out.events.first() == Some(&sent) {
                            out.events.remove(0);
                        } else {
                            out.panic = Some("shell event was not applied first".into());
                        }
                        let s = bridge.verif_core().verif_stats();
                        out.queues = Some((s.1, s.2, s.3, s.4));
                    }
                    Ok(Err(e)) => out.panic = Some(format!("bridge error: {e}")),
                    Err(p) => {
                        out.panic = Some(format!("{} at {}:{}", p.message, p.file, p.line));
                        self.dead = true;
                    }
                }
            }
            Inner::Json { bridge, ids, log_len } => {
                let sent = ev.clone();
                let text = serde_json::to_vec(&ev).unwrap();
                let mut outbuf = vec![];
                let r = mc_kit::catch(|| {
                    let mut de = serde_json::Deserializer::from_slice(&text);
                    let mut ser = serde_json::Serializer::new(&mut outbuf);
                    bridge.process_event(&mut de, &mut ser)
                });
                match r {
                    Ok(Ok(())) => {
                        decode_json(&outbuf, ids, &mut out);
                        let mut vbuf = vec![];
                        bridge.view(&mut serde_json::Serializer::new(&mut vbuf)).unwrap();
                        let view: Vec<Event> = serde_json::from_slice(&vbuf).unwrap();
                        out.events = view[*log_len..].to_vec();
                        normalise_triggers(&mut out.events);
                        *log_len = view.len();
                        if out.events.first() == Some(&sent) {
                            out.events.remove(0);
                        } else {
                            out.panic = Some("shell event was not applied first".into());
                        }
                        let s = bridge.verif_core().verif_stats();
                        out.queues = Some((s.1, s.2, s.3, s.4));
                    }
                    Ok(Err(e)) => out.panic = Some(format!("bridge error: {e}")),
                    Err(p) => {
                        out.panic = Some(format!("{} at {}:{}", p.message, p.file, p.line));
                        self.dead = true;
                    }
                }
            }
            _ => unreachable!(),
        }
        out
    }

    /// Resolves handle `h` with value `v`. `expect_ok == false` routes around `Core::resolve`'s
    /// `debug_assert!` (known finding K1, which has its own dedicated check).
    pub fn resolve(&mut self, h: u16, v: u32, expect_ok: bool) -> (Option<Res>, Option<ObsOut>) {
        let h = h as usize;
        match self.inner.as_mut().unwrap() {
            Inner::Direct { handles, .. } | Inner::Stream { handles, .. } => {
                let Some(e) = handles[h].as_mut() else { return (None, None) };
                match mc_kit::catch(|| resolve_effect(e, v)) {
                    Ok(r) => (Some(r), None),
                    Err(p) => (None, Some(ObsOut { panic: Some(format!("{} at {}:{}", p.message, p.file, p.line)), ..Default::default() })),
                }
            }
            Inner::Core { core, handles, log_len, .. } => {
                let Some(e) = handles[h].as_mut() else { return (None, None) };
                if !expect_ok {
                    let r = resolve_effect(e, v);
                    if r != Res::Ok {
                        return (Some(r), None);
                    }
                    // the reference expected a rejection but the request accepted: the value is
                    // in; let a probe surface whatever follows
                    return (Some(r), None);
                }
                let mut out = ObsOut::default();
                let r = mc_kit::catch(|| match e {
                    Effect::CapA(r) => core.resolve(r, OpA::out(v)),
                    Effect::CapB(r) => core.resolve(r, OpB::out(v)),
                });
                match r {
                    Ok(Ok(effects)) => {
                        for e in effects {
                            out.effects.push(obs_eff(&e));
                            handles.push(Some(e));
                        }
                        let log = core.view();
                        out.events = log[*log_len..].to_vec();
                        *log_len = log.len();
                        normalise_triggers(&mut out.events);
                        let s = core.verif_stats();
                        out.queues = Some((s.1, s.2, s.3, s.4));
                        (Some(Res::Ok), Some(out))
                    }
                    Ok(Err(err)) => (Some(map_res(Err(err))), None),
                    Err(p) => {
                        out.panic = Some(format!("{} at {}:{}", p.message, p.file, p.line));
                        (None, Some(out))
                    }
                }
            }
            Inner::Bincode { bridge, ids, log_len } => {
                let (id, is_b) = ids[h];
                let bytes = if is_b {
                    bincode_opts().serialize(&OpB::out(v)).unwrap()
                } else {
                    bincode_opts().serialize(&OpA::out(v)).unwrap()
                };
                let mut out = ObsOut::default();
                match mc_kit::catch(|| bridge.handle_response(id, &bytes)) {
                    Ok(Ok(bytes)) => {
                        decode_bincode(&bytes, ids, &mut out);
                        let view: Vec<Event> = bincode_opts().deserialize(&bridge.view().unwrap()).unwrap();
                        out.events = view[*log_len..].to_vec();
                        normalise_triggers(&mut out.events);
                        *log_len = view.len();
                        let s = bridge.verif_core().verif_stats();
                        out.queues = Some((s.1, s.2, s.3, s.4));
                        (Some(Res::Ok), Some(out))
                    }
                    Ok(Err(e)) => (Some(bridge_err(&e)), None),
                    Err(p) => {
                        self.dead = true;
                        if p.message.contains("not found") {
                            // documented: "The id MUST match ... else the core will panic"
                            (Some(Res::Never), None)
                        } else {
                            out.panic = Some(format!("{} at {}:{}", p.message, p.file, p.line));
                            (None, Some(out))
                        }
                    }
                }
            }
            Inner::Json { bridge, ids, log_len } => {
                let (id, is_b) = ids[h];
                let text = if is_b {
                    serde_json::to_vec(&OpB::out(v)).unwrap()
                } else {
                    serde_json::to_vec(&OpA::out(v)).unwrap()
                };
                let mut out = ObsOut::default();
                let mut outbuf = vec![];
                let r = mc_kit::catch(|| {
                    let mut de = serde_json::Deserializer::from_slice(&text);
                    let mut ser = serde_json::Serializer::new(&mut outbuf);
                    bridge.handle_response(id, &mut de, &mut ser)
                });
                match r {
                    Ok(Ok(())) => {
                        decode_json(&outbuf, ids, &mut out);
                        let mut vbuf = vec![];
                        bridge.view(&mut serde_json::Serializer::new(&mut vbuf)).unwrap();
                        let view: Vec<Event> = serde_json::from_slice(&vbuf).unwrap();
                        out.events = view[*log_len..].to_vec();
                        normalise_triggers(&mut out.events);
                        *log_len = view.len();
                        let s = bridge.verif_core().verif_stats();
                        out.queues = Some((s.1, s.2, s.3, s.4));
                        (Some(Res::Ok), Some(out))
                    }
                    Ok(Err(e)) => (Some(bridge_err(&e)), None),
                    Err(p) => {
                        self.dead = true;
                        if p.message.contains("not found") {
                            (Some(Res::Never), None)
                        } else {
                            out.panic = Some(format!("{} at {}:{}", p.message, p.file, p.line));
                            (None, Some(out))
                        }
                    }
                }
            }
        }
    }

    /// Bridge hosts: a response whose bytes do not decode as the request's output type.
    pub fn malformed(&mut self, h: u16) -> (Option<Res>, Option<ObsOut>) {
        let h = h as usize;
        let mut out = ObsOut::default();
        let r = match self.inner.as_mut().unwrap() {
            Inner::Bincode { bridge, ids, .. } => {
                let id = ids[h].0;
                mc_kit::catch(|| bridge.handle_response(id, &[0xff, 0xff, 0xff]).map(|_| ()))
            }
            Inner::Json { bridge, ids, .. } => {
                let id = ids[h].0;
                mc_kit::catch(|| {
                    let mut outbuf = vec![];
                    let mut de = serde_json::Deserializer::from_slice(b"[true]");
                    let mut ser = serde_json::Serializer::new(&mut outbuf);
                    bridge.handle_response(id, &mut de, &mut ser)
                })
            }
            _ => panic!("only bridge hosts decode responses"),
        };
        match r {
            Ok(Ok(())) => (Some(Res::Ok), None),
            Ok(Err(e)) => (Some(bridge_err(&e)), None),
            Err(p) => {
                self.dead = true;
                if p.message.contains("not found") {
                    (Some(Res::Never), None)
                } else {
                    out.panic = Some(format!("{} at {}:{}", p.message, p.file, p.line));
                    (None, Some(out))
                }
            }
        }
    }

    pub fn drop_handle(&mut self, h: u16) {
        match self.inner.as_mut().unwrap() {
            Inner::Direct { handles, .. } | Inner::Stream { handles, .. } | Inner::Core { handles, .. } => {
                handles[h as usize] = None;
            }
            _ => panic!("bridge hosts cannot drop requests"),
        }
    }

    pub fn abort(&mut self, k: u8) -> bool {
        fire_abort(k)
    }

    /// The holder of a directly held command gives it one more task (`Command::spawn`): a request
    /// followed by an event. A stream host polls again afterwards, finished or not (`spawn` wakes
    /// nobody: polling again is the holder's business).
    pub fn spawn_more(&mut self) {
        let site = spawn_more_site(self.spawned);
        self.spawned += 1;
        let add = |cmd: &mut Cmd| {
            cmd.spawn(move |ctx| async move {
                let v = crate::build::areq_owned(ctx.clone(), site, 0).await;
                ctx.send_event(Event::got(site, v));
            });
        };
        match self.inner.as_mut().unwrap() {
            Inner::Direct { cmd, .. } => add(cmd),
            Inner::Stream { cmd, flag, ended, .. } => {
                add(cmd);
                *ended = false;
                flag.0.store(true, Ordering::SeqCst);
            }
            _ => panic!("only command-level hosts hold the command"),
        }
    }

    /// Direct hosts: take outputs. Core-like hosts: a no-op probe event.
    pub fn observe(&mut self) -> ObsOut {
        if self.kind.is_core() {
            return self.core_event(Event::Noop);
        }
        let mut out = ObsOut::default();
        match self.inner.as_mut().unwrap() {
            Inner::Direct { cmd, handles } => {
                let r = mc_kit::catch(|| {
                    let effects: Vec<Effect> = cmd.effects().collect();
                    let events: Vec<Event> = cmd.events().collect();
                    let done = cmd.is_done();
                    // is_done may have run more work: take what it produced as well
                    let effects2: Vec<Effect> = cmd.effects().collect();
                    let events2: Vec<Event> = cmd.events().collect();
                    (effects, events, done, effects2, events2, cmd.verif_live_tasks())
                });
                match r {
                    Ok((effects, events, done, effects2, events2, live)) => {
                        // effects of nested commands a program drives by hand come through its own channel
                        for e in effects.into_iter().chain(effects2).chain(crate::build::take_side()) {
                            out.effects.push(obs_eff(&e));
                            handles.push(Some(e));
                        }
                        out.events = events;
                        out.events.extend(events2);
                        out.done = Some(done);
                        out.live = Some(live);
                    }
                    Err(p) => {
                        out.panic = Some(format!("{} at {}:{}", p.message, p.file, p.line));
                        self.dead = true;
                    }
                }
            }
            Inner::Stream { cmd, handles, flag, ended } => {
                if !*ended && flag.0.swap(false, Ordering::SeqCst) {
                    let waker = Waker::from(flag.clone());
                    let mut cx = Context::from_waker(&waker);
                    let r = mc_kit::catch(|| {
                        let mut outs = vec![];
                        loop {
                            match Pin::new(&mut *cmd).poll_next(&mut cx) {
                                Poll::Ready(Some(o)) => outs.push(o),
                                Poll::Ready(None) => return (outs, true),
                                Poll::Pending => return (outs, false),
                            }
                        }
                    });
                    match r {
                        Ok((mut outs, end)) => {
                            *ended = end;
                            outs.extend(crate::build::take_side().into_iter().map(CommandOutput::Effect));
                            for o in outs {
                                match o {
                                    CommandOutput::Effect(e) => {
                                        out.effects.push(obs_eff(&e));
                                        handles.push(Some(e));
                                    }
                                    CommandOutput::Event(e) => out.events.push(e),
                                }
                            }
                        }
                        Err(p) => {
                            out.panic = Some(format!("{} at {}:{}", p.message, p.file, p.line));
                            self.dead = true;
                        }
                    }
                }
                out.done = Some(*ended);
            }
            _ => unreachable!(),
        }
        out
    }

    /// Bridge hosts: is the id of handle `h` currently also the id of a newer handle?
    pub fn id_reused(&self, h: u16) -> bool {
        match self.inner.as_ref().unwrap() {
            Inner::Bincode { ids, .. } | Inner::Json { ids, .. } => {
                let id = ids[h as usize].0;
                ids.iter().skip(h as usize + 1).any(|(i, _)| *i == id)
            }
            _ => false,
        }
    }

    /// Bridge hosts: wire ids of all handles so far.
    pub fn wire_ids(&self) -> Vec<u32> {
        match self.inner.as_ref().unwrap() {
            Inner::Bincode { ids, .. } | Inner::Json { ids, .. } => ids.iter().map(|(i, _)| *i).collect(),
            _ => vec![],
        }
    }

    pub fn registry_kinds(&self) -> Option<(usize, usize, usize)> {
        match self.inner.as_ref().unwrap() {
            Inner::Bincode { bridge, .. } => Some(bridge.verif_registry_kinds()),
            Inner::Json { bridge, .. } => Some(bridge.verif_registry_kinds()),
            _ => None,
        }
    }
}

/// the legacy reading of a trigger is `StartLegacy`; the reference says `Start`
fn normalise_triggers(events: &mut [Event]) {
    fn norm(e: &mut Event) {
        match e {
            Event::StartLegacy(q) => *e = Event::Start(q.clone()),
            Event::Tagged(inner) => norm(inner),
            _ => {}
        }
    }
    for e in events.iter_mut() {
        norm(e);
    }
}

fn bridge_err(e: &crux_core::bridge::BridgeError) -> Res {
    match e {
        crux_core::bridge::BridgeError::ProcessResponse(ResolveError::Never) => Res::Never,
        crux_core::bridge::BridgeError::ProcessResponse(ResolveError::FinishedMany) => Res::Finished,
        crux_core::bridge::BridgeError::DeserializeOutput(_) => Res::Undecodable,
        _ => Res::Other,
    }
}

fn decode_bincode(bytes: &[u8], ids: &mut Vec<(u32, bool)>, out: &mut ObsOut) {
    match bincode_opts().deserialize::<Vec<ReqMirror>>(bytes) {
        Ok(reqs) => push_reqs(reqs, ids, out),
        Err(e) => out.panic = Some(format!("request batch does not decode: {e}")),
    }
}

fn decode_json(bytes: &[u8], ids: &mut Vec<(u32, bool)>, out: &mut ObsOut) {
    match serde_json::from_slice::<Vec<ReqMirror>>(bytes) {
        Ok(reqs) => push_reqs(reqs, ids, out),
        Err(e) => out.panic = Some(format!("request batch does not decode: {e}")),
    }
}

fn push_reqs(reqs: Vec<ReqMirror>, ids: &mut Vec<(u32, bool)>, out: &mut ObsOut) {
    for r in reqs {
        match r.effect {
            FfiMirror::CapA(op) => {
                out.effects.push(ObsEff { label: op.label, arg: op.arg, tags: op.tags, is_b: false });
                out.wire_ids.push(r.id);
                ids.push((r.id, false));
            }
            FfiMirror::CapB(op) => {
                out.effects.push(ObsEff { label: op.label, arg: op.arg, tags: op.tags, is_b: true });
                out.wire_ids.push(r.id);
                ids.push((r.id, true));
            }
        }
    }
}
