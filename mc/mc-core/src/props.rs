//! Per-property configurations of the seqx engine (C01-C07) and the shared runner.

use std::collections::{BTreeMap, BTreeSet};

use mc_kit::{Deadline, Reporter, Tier, Violation};
use serde_json::{json, Value};

use crate::app;
use crate::dsl::{self, Grammar, P, S};
use crate::hosts::HostKind;
use crate::seqx::{self, Bounds, Explorer, Stats, Step};

pub struct Suite {
    pub name: &'static str,
    pub host: HostKind,
    pub programs: Vec<P>,
    pub bounds: Bounds,
}

fn bounds(depth: usize, aborts: u8, silent: u8, late: u8, items: u8) -> Bounds {
    Bounds { depth, items_per_stream: items, max_aborts: aborts, max_silent: silent, max_late: late, abort_before_start: true }
}

fn s0() -> S {
    S { id: 0, label: 0 }
}

fn wrap(kind: usize, p: P) -> P {
    match kind {
        0 => P::All(vec![p]),
        1 => P::then(P::Done, p),
        2 => P::and(P::Done, p),
        3 => P::MapEffect(Box::new(P::MapEvent(Box::new(p)))),
        _ => P::FromInto(Box::new(p)),
    }
}

fn wrapped(progs: &[P], depth: usize) -> Vec<P> {
    let mut out = vec![];
    for p in progs {
        for kind in 0..5 {
            let mut q = p.clone();
            for _ in 0..depth {
                q = wrap(kind, q);
            }
            out.push(q.normalized());
        }
        // mixed wrapper kinds
        let mut q = p.clone();
        for k in 0..depth {
            q = wrap(k % 5, q);
        }
        out.push(q.normalized());
    }
    out.sort();
    out.dedup();
    out
}

fn trigger_programs() -> Vec<P> {
    // events that make update return further commands (trigger depth <= 2)
    let mut out = vec![];
    let inner = [
        P::Req(s0()),
        P::Notify(s0()),
        P::Burst(s0(), s0()),
        P::Stream(s0()),
        P::Event(s0()),
        P::Join(s0(), s0()),
        P::SpawnAfter(s0(), s0()),
    ];
    for q in &inner {
        out.push(P::Trigger(s0(), Box::new(q.clone())));
        out.push(P::Trigger(s0(), Box::new(P::Trigger(s0(), Box::new(q.clone())))));
        out.push(P::All(vec![P::Trigger(s0(), Box::new(q.clone())), P::Req(s0())]));
        out.push(P::then(P::Req(s0()), P::Trigger(s0(), Box::new(q.clone()))));
        out.push(P::then(P::Trigger(s0(), Box::new(q.clone())), P::Notify(s0())));
        out.push(P::MapEvent(Box::new(P::Trigger(s0(), Box::new(q.clone())))));
        out.push(P::and(P::Burst(s0(), s0()), P::Trigger(s0(), Box::new(q.clone()))));
    }
    out.into_iter().map(P::normalized).collect()
}

fn legacy_programs(n: usize) -> Vec<P> {
    let atoms = vec![
        P::Done,
        P::Event(s0()),
        P::Notify(s0()),
        P::Req(s0()),
        P::Stream(s0()),
        P::ReqReq(s0(), s0()),
        P::Join(s0(), s0()),
        P::Select(s0(), s0()),
        P::Burst(s0(), s0()),
        P::SpawnAfter(s0(), s0()),
    ];
    let g = Grammar { unary: false, abortable: false, manual: false, trigger: true, sibling_abort: false, all3: true };
    dsl::terms_up_to(n, &atoms, g).into_iter().filter(app::legacy_ok).collect()
}

fn burst_programs() -> Vec<P> {
    // C03: bursts before and after an await under every combinator and map_event, triggering
    // further commands which burst again
    let b = || P::Burst(s0(), s0());
    let t = |p: P| P::Trigger(s0(), Box::new(p));
    let mut out = vec![
        b(),
        P::MapEvent(Box::new(b())),
        P::MapEvent(Box::new(P::MapEvent(Box::new(b())))),
        P::All(vec![b(), b()]),
        P::and(b(), b()),
        P::then(b(), b()),
        P::All(vec![b(), P::Stream(s0())]),
        t(b()),
        P::then(b(), t(b())),
        P::All(vec![t(b()), b()]),
        P::MapEvent(Box::new(t(b()))),
        t(P::then(b(), t(b()))),
        P::then(P::Event(s0()), P::then(P::Event(s0()), P::Event(s0()))),
        P::All(vec![P::Event(s0()), P::Event(s0()), P::Event(s0())]),
        P::FromInto(Box::new(b())),
        P::and(b(), P::StreamMap(s0())),
    ];
    for p in dsl::async_atoms() {
        out.push(P::All(vec![b(), p.clone()]));
        out.push(P::then(p, b()));
    }
    out.into_iter().map(P::normalized).collect()
}

fn lookalike_programs() -> Vec<P> {
    let base = vec![
        P::All(vec![P::Req(s0()), P::Req(s0())]),
        P::All(vec![P::Req(s0()), P::Req(s0()), P::Req(s0())]),
        P::All(vec![P::Req(s0()), P::Stream(s0())]),
        P::All(vec![P::Stream(s0()), P::Stream(s0())]),
        P::All(vec![P::Req(s0()), P::Notify(s0()), P::Stream(s0())]),
        P::and(P::Req(s0()), P::Req(s0())),
        P::Join(s0(), s0()),
        P::Select(s0(), s0()),
        P::All(vec![P::ReqReq(s0(), s0()), P::Req(s0())]),
        P::All(vec![P::Join(s0(), s0()), P::Req(s0())]),
        P::StreamStream(s0(), s0()),
        P::All(vec![P::StreamReq(s0(), s0()), P::Req(s0())]),
        P::All(vec![P::MapEffect(Box::new(P::Req(s0()))), P::Req(s0())]),
        P::then(P::Req(s0()), P::Req(s0())),
        P::All(vec![P::SpawnJoin(s0(), s0()), P::Req(s0())]),
        P::All(vec![P::ReqMap(s0()), P::Req(s0())]),
    ];
    let mut out = vec![];
    for p in base {
        let p = p.normalized();
        out.push(p.clone().lookalike(2)); // OpA
        out.push(p.clone().lookalike(3)); // OpB
        out.push(p);
    }
    out
}

pub fn suites(id: &str, tier: Tier) -> Vec<Suite> {
    let q = tier == Tier::Quick;
    let all = dsl::all_atoms();
    let plain = |n| dsl::terms_up_to(n, &all, Grammar::plain());
    let with_abort = |n| dsl::terms_up_to(n, &all, Grammar::with_abort());
    let legacy_filter = |v: Vec<P>| -> Vec<P> { v.into_iter().filter(app::legacy_ok).collect() };
    match id {
        "C01" => {
            let mut trig = trigger_programs();
            trig.extend(plain(2));
            vec![
                Suite { name: "core/command-api", host: HostKind::CoreCmd, programs: if q { plain(3) } else { plain(3) }, bounds: bounds(tier.pick(6, 8), 0, 0, 1, 2) },
                Suite { name: "core/command-api/triggers", host: HostKind::CoreCmd, programs: trig.clone(), bounds: bounds(tier.pick(6, 9), 0, 0, 1, 2) },
                Suite { name: "core/command-api/aborts", host: HostKind::CoreCmd, programs: with_abort(tier.pick(2, 3)), bounds: bounds(tier.pick(6, 7), tier.pick(1, 2), 0, 1, 2) },
                Suite { name: "core/legacy-api", host: HostKind::CoreLegacy, programs: legacy_programs(tier.pick(3, 4)), bounds: bounds(tier.pick(7, 9), 0, 0, 1, 2) },
                Suite { name: "bridge/bincode", host: HostKind::Bincode, programs: { let mut v = plain(2); v.extend(trigger_programs()); v }, bounds: bounds(tier.pick(6, 8), 0, 0, 1, 2) },
                Suite { name: "bridge/json", host: HostKind::Json, programs: { let mut v = plain(2); v.extend(trigger_programs()); v }, bounds: bounds(tier.pick(6, 8), 0, 0, 1, 2) },
            ]
        }
        "C02" => {
            let la = lookalike_programs();
            let b = bounds(tier.pick(7, 9), 0, 1, tier.pick(2, 3), tier.pick(2, 3));
            let mut v = vec![];
            for host in [HostKind::Direct, HostKind::CoreCmd, HostKind::Bincode, HostKind::Json] {
                v.push(Suite { name: "look-alikes", host, programs: la.clone(), bounds: b.clone() });
            }
            v.push(Suite { name: "look-alikes/legacy", host: HostKind::CoreLegacy, programs: legacy_filter(la.clone()), bounds: b.clone() });
            v.push(Suite { name: "arities", host: HostKind::Direct, programs: plain(2), bounds: bounds(tier.pick(6, 8), 0, 1, 3, 3) });
            v.push(Suite { name: "arities/after-cleanup", host: HostKind::Direct, programs: with_abort(2), bounds: bounds(tier.pick(6, 8), 1, 1, 3, 2) });
            v
        }
        "C03" => {
            let bp = burst_programs();
            let mut v = vec![];
            for host in [HostKind::CoreCmd, HostKind::Bincode, HostKind::Json] {
                v.push(Suite { name: "bursts", host, programs: bp.clone(), bounds: bounds(tier.pick(6, 9), 0, 0, 1, 2) });
            }
            v.push(Suite { name: "bursts/legacy", host: HostKind::CoreLegacy, programs: { let mut l = legacy_filter(bp.clone()); l.extend(legacy_programs(3)); l }, bounds: bounds(tier.pick(6, 9), 0, 0, 1, 2) });
            v
        }
        "C04" => {
            let mut v = vec![Suite { name: "terms", host: HostKind::Direct, programs: plain(3), bounds: bounds(tier.pick(6, 8), 0, 1, 1, 2) }];
            if !q {
                v.push(Suite { name: "terms/4-nodes", host: HostKind::Direct, programs: plain(4), bounds: bounds(6, 0, 1, 1, 2) });
                let basic = dsl::basic_atoms();
                v.push(Suite { name: "terms/5-nodes-basic", host: HostKind::Direct, programs: dsl::terms_up_to(5, &basic, Grammar::plain()), bounds: bounds(7, 0, 1, 1, 2) });
            }
            v
        }
        "C05" => {
            let base = plain(tier.pick(1, 2));
            let mut v = vec![];
            for host in [HostKind::Direct, HostKind::StreamPoll, HostKind::CoreCmd, HostKind::Bincode, HostKind::Json] {
                for k in 1..=tier.pick(3, 4) {
                    if q && k == 2 && host != HostKind::Direct && host != HostKind::StreamPoll {
                        continue;
                    }
                    v.push(Suite { name: "wrapped", host, programs: wrapped(&base, k), bounds: bounds(tier.pick(5, 7), 0, 1, 1, 2) });
                }
                v.push(Suite { name: "plain", host, programs: plain(2), bounds: bounds(tier.pick(6, 8), 0, 1, 1, 2) });
            }
            v.push(Suite { name: "plain/legacy", host: HostKind::CoreLegacy, programs: legacy_programs(3), bounds: bounds(tier.pick(6, 8), 0, 0, 1, 2) });
            v
        }
        "C06" => {
            let progs = with_abort(3);
            let mut v = vec![];
            for host in [HostKind::Direct, HostKind::StreamPoll, HostKind::CoreCmd] {
                v.push(Suite { name: "aborts+drops", host, programs: progs.clone(), bounds: bounds(tier.pick(6, 8), tier.pick(1, 2), 1, tier.pick(1, 2), 2) });
            }
            if !q {
                let basic = dsl::basic_atoms();
                v.push(Suite { name: "aborts+drops/4-nodes-basic", host: HostKind::Direct, programs: dsl::terms_up_to(4, &basic, Grammar::with_abort()), bounds: bounds(7, 2, 1, 1, 2) });
            }
            v
        }
        "C07" => {
            let asy = dsl::async_atoms();
            let mut progs = dsl::terms_up_to(tier.pick(3, 3), &{ let mut a = asy.clone(); a.extend(dsl::builder_atoms()); a.push(P::Req(s0())); a.push(P::Stream(s0())); a }, Grammar::plain());
            progs.extend(plain(2));
            progs.sort();
            progs.dedup();
            vec![
                Suite { name: "done-iff-nothing-left", host: HostKind::Direct, programs: progs, bounds: bounds(tier.pick(7, 9), 0, tier.pick(1, 2), 1, 2) },
                Suite { name: "done-iff-nothing-left/aborts", host: HostKind::Direct, programs: with_abort(2), bounds: bounds(tier.pick(7, 9), 1, 1, 1, 2) },
            ]
        }
        _ => vec![],
    }
}

pub struct RunOutcome {
    pub stats: Stats,
    pub per_suite: Vec<Value>,
    pub samples: Vec<Value>,
    pub failures: usize,
}

pub fn replay_json(host: HostKind, p: &P, history: &[Step]) -> Value {
    json!({ "engine": "seqx", "host": host, "program": p, "history": history,
            "history_readable": history.iter().map(seqx::step_json).collect::<Vec<_>>() })
}

/// Runs all suites; reports failures to `rep` with keys `<property-scope>/<class>`.
pub fn run_suites(rep: &Reporter, suites: &[Suite], deadline_s: f64, node_cap: u64) -> RunOutcome {
    let deadline = Deadline::new(deadline_s);
    let mut items: Vec<(usize, usize)> = vec![];
    for (si, s) in suites.iter().enumerate() {
        for pi in 0..s.programs.len() {
            items.push((si, pi));
        }
    }
    let results = mc_kit::par_map(&items, |_, (si, pi)| {
        let s = &suites[*si];
        let p = &s.programs[*pi];
        if deadline.expired() {
            let mut st = Stats::default();
            st.capped = true;
            return (st, vec![], None);
        }
        let mut ex = Explorer::new(s.host, p, &s.bounds);
        ex.node_cap = node_cap;
        ex.run();
        let found: Vec<_> = ex.found.into_iter().map(|f| (f.failure, f.history)).collect();
        (ex.stats, found, ex.sample)
    });
    let mut total = Stats::default();
    let mut per: BTreeMap<usize, Stats> = BTreeMap::new();
    let mut samples = vec![];
    let mut failures = 0;
    let mut seen_sample: BTreeSet<usize> = BTreeSet::new();
    for ((si, pi), (st, found, sample)) in items.iter().zip(results) {
        total.merge(&st);
        per.entry(*si).or_default().merge(&st);
        let s = &suites[*si];
        let p = &s.programs[*pi];
        if let Some(h) = sample {
            if h.len() >= 3 && seen_sample.insert(*si) {
                samples.push(json!({"suite": s.name, "host": s.host.name(), "program": format!("{p:?}"),
                    "history": h.iter().map(seqx::step_json).collect::<Vec<_>>()}));
            }
        }
        for (f, h) in found {
            failures += 1;
            // determinism self-check: the failing case must fail identically twice
            let hints: Vec<bool> = vec![true; h.len()];
            let a = seqx::execute(s.host, p, &h, &hints);
            let b = seqx::execute(s.host, p, &h, &hints);
            if (a.1, &a.2, &a.3) != (b.1, &b.2, &b.3) {
                mc_kit::machinery_error(&format!("non-deterministic replay of {p:?} {h:?}"));
            }
            rep.violation(Violation {
                key: f.key.clone(),
                what: format!("[{} / {}] program {:?}; history {:?}: {}", s.name, s.host.name(), p,
                    h.iter().map(seqx::step_json).collect::<Vec<_>>(), f.what),
                replay: replay_json(s.host, p, &h),
                size: p.size() * 100 + h.len(),
            });
        }
    }
    let per_suite = per
        .iter()
        .map(|(si, st)| {
            let s = &suites[*si];
            json!({"suite": s.name, "host": s.host.name(), "programs": st.programs, "states": st.states,
                "transitions": st.transitions, "complete_histories": st.histories, "max_depth": st.max_depth,
                "depth_bound": s.bounds.depth, "max_aborts": s.bounds.max_aborts, "max_unobserved_steps": s.bounds.max_silent,
                "max_late_resolutions": s.bounds.max_late, "items_per_stream": s.bounds.items_per_stream,
                "distinct_outcomes": st.outcomes.len(), "capped": st.capped})
        })
        .collect();
    RunOutcome { stats: total, per_suite, samples, failures }
}

pub fn replay(path: &str) -> i32 {
    let text = std::fs::read_to_string(path).unwrap_or_else(|e| mc_kit::machinery_error(&format!("cannot read {path}: {e}")));
    let v: Value = serde_json::from_str(&text).unwrap();
    let case = &v["case"];
    if case["engine"] == "timers" {
        return crate::timers::replay_case(case);
    }
    if case["engine"] == "sched" {
        return crate::sched::replay(case);
    }
    let host: HostKind = serde_json::from_value(case["host"].clone()).unwrap();
    let p: P = serde_json::from_value(case["program"].clone()).unwrap();
    let history: Vec<Step> = serde_json::from_value(case["history"].clone()).unwrap();
    println!("replay: host {} program {:?}", host.name(), p);
    let mut chk = seqx::Checker::new(host, &p);
    let b = Bounds { depth: 99, items_per_stream: 9, max_aborts: 9, max_silent: 9, max_late: 9, abort_before_start: true };
    let mut ex = Explorer::new(host, &p, &b);
    let mut hints = vec![];
    if host.is_core() {
        let (_h, _, call, _) = seqx::execute(host, &p, &[], &[]);
        println!("  start -> {:?}", call);
        if let Err(f) = chk.apply_settle(&call.unwrap(), false) {
            println!("  DIVERGENCE {}: {}", f.key, f.what);
            return 1;
        }
    }
    for i in 0..history.len() {
        let st = history[i];
        let hint = if let seqx::Act::Resolve(h) = st.act {
            chk.predict_resolve(h, 0).iter().all(|r| *r == crate::refmodel::Res::Ok)
        } else {
            true
        };
        hints.push(hint);
        let (host_obj, res, call, after) = seqx::execute(host, &p, &history[..=i], &hints);
        println!("  step {i}: {} -> result {:?}\n      call {:?}\n      after {:?}", seqx::step_json(&st), res, call, after);
        if let Err(f) = ex.check_step_pub(&mut chk, st, i, res, call, after, &host_obj) {
            println!("  DIVERGENCE {}: {}", f.key, f.what);
            return 1;
        }
    }
    println!("  no divergence");
    0
}
