//! Per-property configurations of the seqx engine (C01-C07) and the shared runner.

use std::collections::{BTreeMap, BTreeSet};

use mc_kit::{Deadline, Reporter, Tier, Violation};
use serde_json::{json, Value};

use crate::app;
use crate::dsl::{self, Grammar, P, S};
use crate::hosts::HostKind;
use crate::seqx::{self, Bounds, Explorer, Stats, Step};

pub struct Suite {
    pub name: &'static str,
    pub host: HostKind,
    pub programs: Vec<P>,
    pub bounds: Bounds,
}

fn bounds(depth: usize, aborts: u8, silent: u8, late: u8, items: u8) -> Bounds {
    Bounds { depth, items_per_stream: items, max_aborts: aborts, max_silent: silent, max_late: late, abort_before_start: true, max_spawn_more: 0 }
}

fn s0() -> S {
    S { id: 0, label: 0 }
}

fn wrap(kind: usize, p: P) -> P {
    match kind {
        0 => P::All(vec![p]),
        1 => P::then(P::Done, p),
        2 => P::and(P::Done, p),
        3 => P::MapEffect(Box::new(P::MapEvent(Box::new(p)))),
        _ => P::FromInto(Box::new(p)),
    }
}

fn wrapped(progs: &[P], depth: usize) -> Vec<P> {
    let mut out = vec![];
    for p in progs {
        for kind in 0..5 {
            let mut q = p.clone();
            for _ in 0..depth {
                q = wrap(kind, q);
            }
            out.push(q.normalized());
        }
        // mixed wrapper kinds
        let mut q = p.clone();
        for k in 0..depth {
            q = wrap(k % 5, q);
        }
        out.push(q.normalized());
    }
    out.sort();
    out.dedup();
    out
}

fn trigger_programs() -> Vec<P> {
    // events that make update return further commands (trigger depth <= 2)
    let mut out = vec![];
    let inner = [
        P::Req(s0()),
        P::Notify(s0()),
        P::Burst(s0(), s0()),
        P::Stream(s0()),
        P::Event(s0()),
        P::Join(s0(), s0()),
        P::SpawnAfter(s0(), s0()),
    ];
    for q in &inner {
        out.push(P::Trigger(s0(), Box::new(q.clone())));
        out.push(P::Trigger(s0(), Box::new(P::Trigger(s0(), Box::new(q.clone())))));
        out.push(P::All(vec![P::Trigger(s0(), Box::new(q.clone())), P::Req(s0())]));
        out.push(P::then(P::Req(s0()), P::Trigger(s0(), Box::new(q.clone()))));
        out.push(P::then(P::Trigger(s0(), Box::new(q.clone())), P::Notify(s0())));
        out.push(P::MapEvent(Box::new(P::Trigger(s0(), Box::new(q.clone())))));
        out.push(P::and(P::Burst(s0(), s0()), P::Trigger(s0(), Box::new(q.clone()))));
    }
    out.into_iter().map(P::normalized).collect()
}

/// Large programs for the scripted long histories (`seqx::Policy`): many members, deep chains, deep
/// nesting - sizes around and above the constants that occur in crux and its dependencies (slab and
/// queue capacities, futures' join_all switch at 30, sort thresholds at 20/32).
pub fn scale_programs(legacy: bool) -> Vec<P> {
    let req = || P::Req(s0());
    let many = |n: usize, f: &dyn Fn(usize) -> P| P::All((0..n).map(f).collect());
    let mut out = vec![
        many(33, &|_| req()),
        many(70, &|_| req()),
        many(40, &|i| if i % 8 == 0 { P::Stream(s0()) } else if i % 5 == 0 { P::Notify(s0()) } else { req() }),
        many(24, &|i| if i % 2 == 0 { P::Burst(s0(), s0()) } else { P::Join(s0(), s0()) }),
        (0..24).fold(req(), |acc, _| P::then(acc, req())),
        (0..24).fold(req(), |acc, i| P::and(acc, if i % 6 == 0 { P::Stream(s0()) } else { req() })),
        // more than 1024 effects and a few dozen events out of ONE call (queues and batches have sizes too)
        many(1100, &|i| if i % 110 == 7 { P::Burst(s0(), s0()) } else if i % 3 == 0 { req() } else { P::Notify(s0()) }),
    ];
    if !legacy {
        out.push((0..12).fold(P::All(vec![req(), req()]), |acc, i| if i % 3 == 0 { P::MapEvent(Box::new(acc)) } else if i % 3 == 1 { P::All(vec![acc, req()]) } else { P::FromInto(Box::new(acc)) }));
        out.push(many(20, &|i| match i % 5 { 0 => P::ReqReq(s0(), s0()), 1 => P::SpawnJoin(s0(), s0()), 2 => P::Select(s0(), s0()), 3 => P::StreamUntil(s0(), s0()), _ => P::Channel(s0(), s0()) }));
        out.push(many(36, &|i| if i % 4 == 0 { P::StreamReq(s0(), s0()) } else { P::ReqMap(s0()) }));
    }
    out.into_iter().map(P::normalized).collect()
}

fn scale_suites(hosts: &[HostKind]) -> Vec<Suite> {
    let mut v = vec![];
    for &host in hosts {
        let legacy = host == HostKind::CoreLegacy;
        let progs: Vec<P> = if legacy { scale_programs(true).into_iter().filter(app::legacy_ok).collect() } else { scale_programs(false) };
        let silent = if host.is_core() { 0 } else { 200 };
        for name in ["scale/low-first", "scale/high-first", "scale/alternate", "scale/drop-third", "scale/silent-pairs"] {
            if name == "scale/drop-third" && !host.can_drop() {
                continue;
            }
            if name == "scale/silent-pairs" && host.is_core() {
                continue;
            }
            v.push(Suite { name, host, programs: progs.clone(), bounds: Bounds { depth: 600, items_per_stream: 2, max_aborts: 0, max_silent: silent, max_late: 0, abort_before_start: false, max_spawn_more: 0 } });
        }
        // one subscription fed with dozens of items while its consumer is busy or not polled: buffers
        // behind a request are sized by somebody (32 and 64 are popular)
        let flood: Vec<P> = [
            P::Stream(s0()),
            P::StreamReq(s0(), s0()),
            P::StreamMap(s0()),
            P::StreamStream(s0(), s0()),
            P::All(vec![P::StreamReq(s0(), s0()), P::Req(s0())]),
            P::MapEvent(Box::new(P::StreamReq(s0(), s0()))),
        ]
        .into_iter()
        .map(P::normalized)
        .filter(|p| !legacy || app::legacy_ok(p))
        .collect();
        for name in ["scale/stream-flood", "scale/stream-flood-silent"] {
            if name == "scale/stream-flood-silent" && host.is_core() {
                continue;
            }
            v.push(Suite { name, host, programs: flood.clone(), bounds: Bounds { depth: 400, items_per_stream: 70, max_aborts: 0, max_silent: if host.is_core() { 0 } else { 250 }, max_late: 0, abort_before_start: false, max_spawn_more: 0 } });
        }
    }
    v
}

pub fn policy_of(suite: &str) -> Option<seqx::Policy> {
    Some(match suite {
        "scale/low-first" => seqx::Policy::LowFirst,
        "scale/high-first" => seqx::Policy::HighFirst,
        "scale/alternate" => seqx::Policy::Alternate,
        "scale/drop-third" => seqx::Policy::DropThird,
        "scale/silent-pairs" => seqx::Policy::SilentPairs,
        "scale/stream-flood" => seqx::Policy::LowFirst,
        "scale/stream-flood-silent" => seqx::Policy::Flood,
        _ => return None,
    })
}

/// A task that spawns a child and aborts its own command in the same poll, alone and with other tasks
/// still queued behind it in the pass (the child is in the spawn queue when the abort is noticed).
/// A join handle polled dozens of times while pending (see `P::JoinBusy`), alone and under combinators.
pub fn join_busy_programs() -> Vec<P> {
    let x = || P::JoinBusy(s0(), s0());
    vec![x(), P::All(vec![x(), P::Req(s0())]), P::then(x(), P::Req(s0())), P::then(P::Req(s0()), x()), P::MapEvent(Box::new(x())), P::and(x(), P::Stream(s0())), P::All(vec![x(), x()])]
        .into_iter()
        .map(P::normalized)
        .collect()
}

/// A task that can wake another task in the very poll that leaves it without a waker of its own.
pub fn join_forward_programs() -> Vec<P> {
    let x = || P::JoinForward(s0(), s0(), s0());
    vec![x(), P::All(vec![x(), P::Req(s0())]), P::then(x(), P::Req(s0())), P::MapEvent(Box::new(x())), P::and(x(), P::Stream(s0()))]
        .into_iter()
        .map(P::normalized)
        .collect()
}

pub fn spawn_then_self_abort_programs() -> Vec<P> {
    let x = || P::SpawnThenSelfAbort(s0(), s0());
    let progs = vec![
        x(),
        P::and(x(), P::Req(s0())),
        P::and(x(), P::Stream(s0())),
        P::and(P::and(x(), P::Req(s0())), P::Req(s0())),
        P::and(x(), P::Burst(s0(), s0())),
        P::and(P::Req(s0()), x()),
        P::All(vec![x(), P::Req(s0())]),
        P::then(x(), P::Req(s0())),
        P::then(P::and(x(), P::Req(s0())), P::Notify(s0())),
        P::MapEvent(Box::new(P::and(x(), P::Req(s0())))),
        P::All(vec![P::and(x(), P::Req(s0())), P::Stream(s0())]),
        P::JoinHosted(s0(), Box::new(P::and(x(), P::Req(s0())))),
    ];
    progs.into_iter().map(P::normalized).collect()
}

/// A task that drives a nested command by hand (public `Stream` impl) while also awaiting a request
/// of its own: the hosting task has a wake source besides the command it hosts. Command-level hosts.
pub fn join_hosted_programs(thorough: bool) -> Vec<P> {
    let mut inner = vec![
        P::Req(s0()),
        P::Select(s0(), s0()),
        P::Join(s0(), s0()),
        P::Stream(s0()),
        P::StreamUntil(s0(), s0()),
        P::ReqReq(s0(), s0()),
        P::All(vec![P::Req(s0()), P::Req(s0())]),
        P::and(P::Req(s0()), P::Notify(s0())),
        P::Done,
        P::Event(s0()),
        P::SpawnJoin(s0(), s0()),
        P::QuietSelfAbort(s0()),
        P::abortable(0, P::Select(s0(), s0())),
        P::abortable(0, P::Stream(s0())),
    ];
    if thorough {
        inner.extend([
            P::then(P::Req(s0()), P::Select(s0(), s0())),
            P::SelectJoinReq(s0(), s0(), s0()),
            P::HandOff(s0(), s0(), s0()),
            P::StreamHandOff(s0(), s0()),
            P::MapEvent(Box::new(P::Select(s0(), s0()))),
            P::JoinHosted(s0(), Box::new(P::Select(s0(), s0()))),
            P::SelfAbort(s0(), s0()),
        ]);
    }
    let mut out = vec![];
    for q in inner {
        let jh = P::JoinHosted(s0(), Box::new(q));
        out.push(jh.clone());
        out.push(P::MapEvent(Box::new(jh.clone())));
        out.push(P::All(vec![jh.clone(), P::Req(s0())]));
        out.push(P::then(jh.clone(), P::Notify(s0())));
        if thorough {
            out.push(P::abortable(1, jh.clone()));
            out.push(P::then(P::Req(s0()), jh.clone()));
            out.push(P::and(jh.clone(), P::Stream(s0())));
        }
    }
    let mut out: Vec<P> = out.into_iter().map(P::normalized).collect();
    out.sort();
    out.dedup();
    out
}

/// command-API programs that also use the legacy capability API from the same `update`
fn mixed_programs() -> Vec<P> {
    let leg: Vec<P> = vec![P::Req(s0()), P::Stream(s0()), P::Notify(s0()), P::Burst(s0(), s0()), P::SpawnAfter(s0(), s0()), P::Join(s0(), s0()), P::Event(s0())];
    let cmd: Vec<P> = vec![P::Req(s0()), P::Stream(s0()), P::Notify(s0()), P::Burst(s0(), s0()), P::SpawnAfter(s0(), s0()), P::ReqReq(s0(), s0()), P::Done, P::MixedNotify(s0(), s0())];
    let mut out = vec![P::MixedNotify(s0(), s0()), P::then(P::MixedNotify(s0(), s0()), P::Notify(s0())), P::MapEvent(Box::new(P::MixedNotify(s0(), s0())))];
    for l in &leg {
        for c in &cmd {
            out.push(P::All(vec![P::Legacy(Box::new(l.clone())), c.clone()]));
            // (a `Legacy` part starts when `update` runs, so it may only stand where the program
            // starts at once: top level or members of all/and, not behind a `then`)
            out.push(P::and(c.clone(), P::Legacy(Box::new(l.clone()))));
        }
        out.push(P::Trigger(s0(), Box::new(P::All(vec![P::Legacy(Box::new(l.clone())), P::MixedNotify(s0(), s0())]))));
    }
    out.into_iter().map(P::normalized).collect()
}

/// bridge hosts: programs that leave holes in the id space and then issue several requests in one
/// batch (ids must stay distinct among outstanding requests and responses must reach their request)
fn registry_stress_programs() -> Vec<P> {
    let r = || P::Req(s0());
    let v = vec![
        P::All(vec![P::then(r(), P::All(vec![r(), r()])), r(), r()]),
        P::All(vec![P::then(r(), P::All(vec![r(), r(), r()])), r(), r(), r()]),
        P::then(P::All(vec![r(), r()]), P::All(vec![r(), r()])),
        P::then(P::All(vec![r(), r(), r()]), P::All(vec![r(), r()])),
        P::All(vec![P::ReqReq(s0(), s0()), P::ReqReq(s0(), s0()), r()]),
        P::All(vec![P::then(r(), P::All(vec![r(), P::Stream(s0())])), P::Stream(s0()), r()]),
        P::All(vec![P::StreamStream(s0(), s0()), r(), r()]),
        P::All(vec![P::then(r(), P::All(vec![P::Notify(s0()), r(), r()])), r(), P::Notify(s0())]),
    ];
    let mut out = vec![];
    for p in v {
        let p = p.normalized();
        out.push(p.clone().lookalike(2));
        out.push(p);
    }
    out
}

fn legacy_programs(n: usize) -> Vec<P> {
    let atoms = vec![
        P::Done,
        P::Event(s0()),
        P::Notify(s0()),
        P::Req(s0()),
        P::Stream(s0()),
        P::ReqReq(s0(), s0()),
        P::Join(s0(), s0()),
        P::Select(s0(), s0()),
        P::Burst(s0(), s0()),
        P::SpawnAfter(s0(), s0()),
        P::HandOff(s0(), s0(), s0()),
        P::StreamHandOff(s0(), s0()),
    ];
    let g = Grammar { unary: false, abortable: false, manual: false, trigger: true, sibling_abort: false, all3: true };
    let mut v: Vec<P> = dsl::terms_up_to(n, &atoms, g).into_iter().filter(app::legacy_ok).collect();
    // capabilities whose events are mapped (Capability::map_event / channel map_input), one and two levels
    let small: Vec<P> = dsl::terms_up_to(n.min(2), &atoms, g).into_iter().filter(app::legacy_ok).collect();
    for p in small {
        v.push(P::MapEvent(Box::new(p.clone())).normalized());
        v.push(P::MapEvent(Box::new(P::MapEvent(Box::new(p.clone())))).normalized());
        v.push(P::All(vec![P::MapEvent(Box::new(p.clone())), P::Burst(s0(), s0())]).normalized());
    }
    v.sort();
    v.dedup();
    v
}

fn burst_programs() -> Vec<P> {
    // C03: bursts before and after an await under every combinator and map_event, triggering
    // further commands which burst again
    let b = || P::Burst(s0(), s0());
    let t = |p: P| P::Trigger(s0(), Box::new(p));
    let mut out = vec![
        b(),
        P::MapEvent(Box::new(b())),
        P::MapEvent(Box::new(P::MapEvent(Box::new(b())))),
        P::All(vec![b(), b()]),
        P::and(b(), b()),
        P::then(b(), b()),
        P::All(vec![b(), P::Stream(s0())]),
        t(b()),
        P::then(b(), t(b())),
        P::All(vec![t(b()), b()]),
        P::MapEvent(Box::new(t(b()))),
        t(P::then(b(), t(b()))),
        P::then(P::Event(s0()), P::then(P::Event(s0()), P::Event(s0()))),
        P::All(vec![P::Event(s0()), P::Event(s0()), P::Event(s0())]),
        P::FromInto(Box::new(b())),
        P::and(b(), P::StreamMap(s0())),
    ];
    for p in dsl::async_atoms() {
        out.push(P::All(vec![b(), p.clone()]));
        out.push(P::then(p, b()));
    }
    out.into_iter().map(P::normalized).collect()
}

fn lookalike_programs() -> Vec<P> {
    let base = vec![
        P::All(vec![P::Req(s0()), P::Req(s0())]),
        P::All(vec![P::Req(s0()), P::Req(s0()), P::Req(s0())]),
        P::All(vec![P::Req(s0()), P::Stream(s0())]),
        P::All(vec![P::Stream(s0()), P::Stream(s0())]),
        P::All(vec![P::Req(s0()), P::Notify(s0()), P::Stream(s0())]),
        P::and(P::Req(s0()), P::Req(s0())),
        P::Join(s0(), s0()),
        P::Select(s0(), s0()),
        P::All(vec![P::ReqReq(s0(), s0()), P::Req(s0())]),
        P::All(vec![P::Join(s0(), s0()), P::Req(s0())]),
        P::StreamStream(s0(), s0()),
        P::All(vec![P::StreamReq(s0(), s0()), P::Req(s0())]),
        P::All(vec![P::MapEffect(Box::new(P::Req(s0()))), P::Req(s0())]),
        P::then(P::Req(s0()), P::Req(s0())),
        P::All(vec![P::SpawnJoin(s0(), s0()), P::Req(s0())]),
        P::All(vec![P::ReqMap(s0()), P::Req(s0())]),
    ];
    let mut out = vec![];
    for p in base {
        let p = p.normalized();
        out.push(p.clone().lookalike(2)); // OpA
        out.push(p.clone().lookalike(3)); // OpB
        out.push(p);
    }
    out
}

pub fn suites(id: &str, tier: Tier) -> Vec<Suite> {
    let mut v = suites_tree(id, tier);
    v.extend(match id {
        "C01" => scale_suites(&[HostKind::CoreCmd, HostKind::Bincode]),
        "C02" => scale_suites(&[HostKind::Direct, HostKind::Json]),
        "C03" => scale_suites(&[HostKind::CoreCmd, HostKind::CoreLegacy]),
        "C05" => scale_suites(&[HostKind::StreamPoll, HostKind::CoreLegacy, HostKind::CoreCmd]),
        "C07" => scale_suites(&[HostKind::Direct]),
        _ => vec![],
    });
    v
}

fn suites_tree(id: &str, tier: Tier) -> Vec<Suite> {
    let q = tier == Tier::Quick;
    let all = dsl::all_atoms();
    let plain = |n| dsl::terms_up_to(n, &all, Grammar::plain());
    let with_abort = |n| dsl::terms_up_to(n, &all, Grammar::with_abort());
    let legacy_filter = |v: Vec<P>| -> Vec<P> { v.into_iter().filter(app::legacy_ok).collect() };
    match id {
        "C01" => {
            let mut trig = trigger_programs();
            trig.extend(plain(2));
            vec![
                // quick: the three-node terms one step shallower than the two-node ones, so that the tree
                // is completed inside the wall cap on an idle machine instead of being cut at an unknown place
                Suite { name: "core/command-api", host: HostKind::CoreCmd, programs: plain(3), bounds: bounds(tier.pick(5, 8), 0, 0, 1, 2) },
                Suite { name: "core/command-api/2-nodes-deeper", host: HostKind::CoreCmd, programs: if q { plain(2) } else { vec![] }, bounds: bounds(6, 0, 0, 1, 2) },
                Suite { name: "core/command-api/triggers", host: HostKind::CoreCmd, programs: trig.clone(), bounds: bounds(tier.pick(6, 9), 0, 0, 1, 2) },
                Suite { name: "core/command-api/aborts", host: HostKind::CoreCmd, programs: with_abort(tier.pick(2, 3)), bounds: bounds(tier.pick(6, 7), tier.pick(1, 2), 0, 1, 2) },
                Suite { name: "core/mixed-legacy+command", host: HostKind::CoreCmd, programs: mixed_programs(), bounds: bounds(tier.pick(6, 8), 0, 0, 1, 2) },
                Suite { name: "bridge/bincode/mixed-legacy+command", host: HostKind::Bincode, programs: mixed_programs(), bounds: bounds(tier.pick(6, 8), 0, 0, 1, 2) },
                Suite { name: "core/legacy-api", host: HostKind::CoreLegacy, programs: legacy_programs(tier.pick(3, 4)), bounds: bounds(tier.pick(7, 9), 0, 0, 1, 2) },
                Suite { name: "bridge/bincode", host: HostKind::Bincode, programs: { let mut v = plain(2); v.extend(trigger_programs()); v }, bounds: bounds(tier.pick(6, 8), 0, 0, 1, 2) },
                Suite { name: "bridge/json", host: HostKind::Json, programs: { let mut v = plain(2); v.extend(trigger_programs()); v }, bounds: bounds(tier.pick(6, 8), 0, 0, 1, 2) },
            ]
        }
        "C02" => {
            let la = lookalike_programs();
            let b = bounds(tier.pick(7, 9), 0, 1, tier.pick(2, 3), tier.pick(2, 3));
            let mut v = vec![];
            for host in [HostKind::Direct, HostKind::CoreCmd, HostKind::Bincode, HostKind::Json] {
                v.push(Suite { name: "look-alikes", host, programs: la.clone(), bounds: b.clone() });
            }
            v.push(Suite { name: "look-alikes/legacy", host: HostKind::CoreLegacy, programs: legacy_filter(la.clone()), bounds: b.clone() });
            v.push(Suite { name: "legacy-futures", host: HostKind::CoreLegacy, programs: legacy_programs(tier.pick(2, 3)), bounds: bounds(tier.pick(7, 8), 0, 0, 2, 2) });
            v.push(Suite { name: "request-futures-changing-hands", host: HostKind::CoreCmd, programs: vec![P::HandOff(s0(), s0(), s0()).normalized(), P::HandOff(s0(), s0(), s0()).normalized().lookalike(2), P::All(vec![P::HandOff(s0(), s0(), s0()), P::Req(s0())]).normalized().lookalike(3)], bounds: bounds(tier.pick(7, 9), 0, 0, 2, 2) });
            for host in [HostKind::Bincode, HostKind::Json] {
                v.push(Suite { name: "id-space-holes+batches", host, programs: registry_stress_programs(), bounds: bounds(tier.pick(6, 8), 0, 0, 0, 1) });
            }
            v.push(Suite { name: "arities", host: HostKind::Direct, programs: plain(2), bounds: bounds(tier.pick(6, 8), 0, 1, 3, 3) });
            v.push(Suite { name: "arities/after-cleanup", host: HostKind::Direct, programs: with_abort(2), bounds: bounds(tier.pick(6, 8), 1, 1, 3, 2) });
            v
        }
        "C03" => {
            let mut bp = burst_programs();
            for p in plain(2) {
                if p.contains(&|x| matches!(x, P::Burst(..) | P::Event(_) | P::Channel(..) | P::AbortChild(..) | P::Stream(_) | P::StreamMap(_))) {
                    bp.push(P::MapEvent(Box::new(P::All(vec![p.clone(), P::Burst(s0(), s0())]))).normalized());
                    bp.push(P::Trigger(s0(), Box::new(p.clone())).normalized());
                }
            }
            // a task that spawns an emitting child and suspends in the same poll without emitting itself
            for q in [
                P::SpawnEvent(s0(), s0()),
                P::All(vec![P::SpawnEvent(s0(), s0()), P::Burst(s0(), s0())]),
                P::MapEvent(Box::new(P::SpawnEvent(s0(), s0()))),
                P::then(P::Req(s0()), P::SpawnEvent(s0(), s0())),
                P::Trigger(s0(), Box::new(P::SpawnEvent(s0(), s0()))),
                P::and(P::Stream(s0()), P::SpawnEvent(s0(), s0())),
            ] {
                bp.push(q.normalized());
            }
            bp.sort();
            bp.dedup();
            let mut v = vec![];
            for host in [HostKind::CoreCmd, HostKind::Bincode, HostKind::Json] {
                v.push(Suite { name: "bursts", host, programs: bp.clone(), bounds: bounds(tier.pick(6, 9), 0, 0, 1, 2) });
            }
            v.push(Suite { name: "bursts/legacy", host: HostKind::CoreLegacy, programs: { let mut l = legacy_filter(bp.clone()); l.extend(legacy_programs(3)); l }, bounds: bounds(tier.pick(6, 9), 0, 0, 1, 2) });
            v
        }
        "C04" => {
            let mut v = vec![Suite { name: "terms", host: HostKind::Direct, programs: plain(3), bounds: bounds(tier.pick(6, 8), 0, 1, 1, 2) }];
            v.push(Suite { name: "terms/join-handle-polled-often", host: HostKind::Direct, programs: join_busy_programs(), bounds: bounds(tier.pick(6, 8), 0, 1, 1, 2) });
            v.push(Suite { name: "terms/forwarding-join", host: HostKind::Direct, programs: join_forward_programs(), bounds: bounds(tier.pick(6, 8), 0, 1, 1, 2) });
            if !q {
                v.push(Suite { name: "terms/4-nodes", host: HostKind::Direct, programs: plain(4), bounds: bounds(6, 0, 1, 1, 2) });
                let basic = dsl::basic_atoms();
                v.push(Suite { name: "terms/5-nodes-basic", host: HostKind::Direct, programs: dsl::terms_up_to(5, &basic, Grammar::plain()), bounds: bounds(7, 0, 1, 1, 2) });
            }
            v
        }
        "C05" => {
            let base = plain(2);
            let mut v = vec![];
            for host in [HostKind::Direct, HostKind::StreamPoll, HostKind::CoreCmd, HostKind::Bincode, HostKind::Json] {
                for k in 1..=tier.pick(3, 4) {
                    v.push(Suite { name: "wrapped", host, programs: wrapped(&base, k), bounds: bounds(tier.pick(5, 7), 0, 1, 1, 2) });
                }
                v.push(Suite { name: "plain", host, programs: plain(tier.pick(2, 3)), bounds: bounds(tier.pick(6, 7), 0, 1, 1, 2) });
            }
            // the join atoms written for particular defect classes, on every host
            for host in [HostKind::Direct, HostKind::StreamPoll, HostKind::CoreCmd, HostKind::Bincode, HostKind::Json] {
                let mut progs = join_busy_programs();
                progs.extend(join_forward_programs());
                v.push(Suite { name: "busy-and-forwarding-joins", host, programs: progs, bounds: bounds(tier.pick(6, 7), 0, 1, 1, 2) });
            }
            v.push(Suite { name: "plain/legacy", host: HostKind::CoreLegacy, programs: legacy_programs(3), bounds: bounds(tier.pick(6, 8), 0, 0, 1, 2) });
            v.push(Suite { name: "mixed-legacy+command", host: HostKind::CoreCmd, programs: mixed_programs(), bounds: bounds(tier.pick(6, 8), 0, 0, 1, 2) });
            v.push(Suite { name: "mixed-legacy+command", host: HostKind::Json, programs: mixed_programs(), bounds: bounds(tier.pick(6, 8), 0, 0, 1, 2) });
            for host in [HostKind::Bincode, HostKind::Json, HostKind::CoreCmd] {
                v.push(Suite { name: "id-space-holes+batches", host, programs: registry_stress_programs(), bounds: bounds(tier.pick(6, 8), 0, 0, 0, 1) });
            }
            // the holder of a directly held command adds a task with `Command::spawn`, at any point of the
            // history - also after the command has finished (a stream host polls again afterwards)
            for host in [HostKind::Direct, HostKind::StreamPoll] {
                let mut b = bounds(tier.pick(6, 7), 0, 1, 1, 2);
                b.max_spawn_more = tier.pick(1, 2);
                v.push(Suite { name: "holder-spawns-more-work", host, programs: plain(2), bounds: b });
            }
            // a command hosted by a *task of another command* that drives it by hand
            for host in [HostKind::Direct, HostKind::StreamPoll] {
                v.push(Suite { name: "hand-driven-nested-command", host, programs: join_hosted_programs(tier == Tier::Thorough), bounds: bounds(tier.pick(6, 7), 1, 1, 1, 2) });
            }
            v
        }
        "C06" => {
            let mut progs = with_abort(3);
            // sibling containment needs >= 4 nodes: an abortable member next to a live sibling in
            // every combinator position (the handle is taken *before* the member is combined)
            let members: Vec<P> = vec![P::Req(s0()), P::Stream(s0()), P::Burst(s0(), s0()), P::Join(s0(), s0()), P::SpawnJoin(s0(), s0()), P::ReqReq(s0(), s0()), P::StreamStream(s0(), s0()), P::Event(s0())];
            for a in &members {
                for b in &members {
                    let ab = || P::abortable(0, a.clone());
                    progs.push(P::All(vec![ab(), b.clone()]).normalized());
                    progs.push(P::All(vec![b.clone(), ab()]).normalized());
                    progs.push(P::and(ab(), b.clone()).normalized());
                    progs.push(P::and(b.clone(), ab()).normalized());
                    progs.push(P::then(ab(), b.clone()).normalized());
                    progs.push(P::then(b.clone(), ab()).normalized());
                    progs.push(P::All(vec![ab(), b.clone(), P::Req(s0())]).normalized());
                    progs.push(P::MapEvent(Box::new(P::All(vec![ab(), b.clone()]))).normalized());
                }
            }
            progs.sort();
            progs.dedup();
            let mut v = vec![];
            if q {
                // quick: full depth for the terms of up to 2 nodes and the sibling-containment programs,
                // one step less for the (many) generic 3-node terms - the thorough tier runs all to depth 8
                let (deep, wide): (Vec<P>, Vec<P>) = progs.iter().cloned().partition(|p| p.size() <= 2 || p.contains(&|x| matches!(x, P::Abortable(..))) && p.size() >= 4);
                v.push(Suite { name: "aborts+drops", host: HostKind::Direct, programs: deep, bounds: bounds(6, 1, 1, 1, 2) });
                v.push(Suite { name: "aborts+drops/3-node-terms", host: HostKind::Direct, programs: wide, bounds: bounds(5, 1, 1, 1, 2) });
            } else {
                v.push(Suite { name: "aborts+drops", host: HostKind::Direct, programs: progs.clone(), bounds: bounds(8, 2, 1, 2, 2) });
            }
            for host in [HostKind::Direct, HostKind::StreamPoll, HostKind::CoreCmd] {
                let silent = if host.is_core() { 0 } else { 2 };
                v.push(Suite { name: "spawn-then-self-abort", host, programs: spawn_then_self_abort_programs().into_iter().filter(|p| !host.is_core() || !p.contains(&|q| matches!(q, P::JoinHosted(..)))).collect(), bounds: bounds(tier.pick(7, 9), 0, silent, 1, 2) });
            }
            // the lazily polled hosts: in the quick tier the 3-node terms over a reduced atom set (all
            // 2-node terms and all sibling-containment programs stay)
            let lazy_progs: Vec<P> = if q {
                let keep = |p: &P| p.size() <= 2 || p.size() >= 4 || !p.contains(&|x| matches!(x,
                    P::ReqMap(_) | P::StreamMap(_) | P::ReqStream(..) | P::IntoFuture(..) | P::JoinTwice(..) | P::SelfWake(..) | P::SpawnChain(..)
                    | P::SelectJoinReq(..) | P::Channel(..) | P::StreamUntil(..) | P::HandOff(..) | P::JoinSpawn(..) | P::SpawnAfter(..) | P::Notify(_)));
                progs.iter().filter(|p| keep(p)).cloned().collect()
            } else {
                progs.clone()
            };
            v.push(Suite { name: "aborts+drops", host: HostKind::StreamPoll, programs: lazy_progs.clone(), bounds: bounds(tier.pick(5, 8), tier.pick(1, 2), 1, tier.pick(1, 2), 2) });
            v.push(Suite { name: "aborts+drops", host: HostKind::CoreCmd, programs: lazy_progs, bounds: bounds(tier.pick(5, 8), tier.pick(1, 2), 0, tier.pick(1, 2), 2) });
            if !q {
                let basic = dsl::basic_atoms();
                v.push(Suite { name: "aborts+drops/4-nodes-basic", host: HostKind::Direct, programs: dsl::terms_up_to(4, &basic, Grammar::with_abort()), bounds: bounds(7, 2, 1, 1, 2) });
            }
            v
        }
        "C07" => {
            let asy = dsl::async_atoms();
            let mut progs = dsl::terms_up_to(tier.pick(3, 3), &{ let mut a = asy.clone(); a.extend(dsl::builder_atoms()); a.push(P::Req(s0())); a.push(P::Stream(s0())); a }, Grammar::plain());
            progs.extend(plain(2));
            progs.sort();
            progs.dedup();
            // the same question asked of a command that is driven as a Stream: it must end (`None`)
            // exactly when nothing is left
            let streamed: Vec<P> = dsl::terms_up_to(2, &{ let mut a = asy.clone(); a.push(P::Req(s0())); a.push(P::Stream(s0())); a }, Grammar::plain());
            vec![
                Suite { name: "done-iff-nothing-left/driven-as-a-stream", host: HostKind::StreamPoll, programs: streamed, bounds: bounds(tier.pick(5, 7), 0, 1, 1, 2) },
                Suite { name: "done-iff-nothing-left", host: HostKind::Direct, programs: progs, bounds: bounds(tier.pick(6, 9), 0, tier.pick(1, 2), 1, 2) },
                Suite { name: "done-iff-nothing-left/aborts", host: HostKind::Direct, programs: with_abort(2), bounds: bounds(tier.pick(7, 9), 1, 1, 1, 2) },
                Suite { name: "done-iff-nothing-left/spawn-then-self-abort", host: HostKind::Direct, programs: spawn_then_self_abort_programs(), bounds: bounds(tier.pick(7, 9), 0, 2, 1, 2) },
                Suite { name: "done-iff-nothing-left/join-handle-polled-often", host: HostKind::Direct, programs: join_busy_programs(), bounds: bounds(tier.pick(7, 9), 0, 2, 1, 2) },
                Suite { name: "done-iff-nothing-left/forwarding-join", host: HostKind::Direct, programs: join_forward_programs(), bounds: bounds(tier.pick(7, 9), 0, 2, 1, 2) },
                Suite { name: "done-iff-nothing-left/forwarding-join", host: HostKind::StreamPoll, programs: join_forward_programs(), bounds: bounds(tier.pick(7, 9), 0, 2, 1, 2) },
                Suite { name: "done-iff-nothing-left/join-handle-polled-often", host: HostKind::StreamPoll, programs: join_busy_programs(), bounds: bounds(tier.pick(7, 9), 0, 2, 1, 2) },
                Suite { name: "done-iff-nothing-left/spawn-then-self-abort", host: HostKind::StreamPoll, programs: spawn_then_self_abort_programs(), bounds: bounds(tier.pick(7, 9), 0, 2, 1, 2) },
                Suite { name: "done-iff-nothing-left/hand-driven-nested-command", host: HostKind::Direct, programs: join_hosted_programs(tier == Tier::Thorough), bounds: bounds(tier.pick(6, 8), 1, 1, 1, 2) },
                Suite { name: "done-iff-nothing-left/hand-driven-nested-command", host: HostKind::StreamPoll, programs: join_hosted_programs(tier == Tier::Thorough), bounds: bounds(tier.pick(6, 8), 1, 1, 1, 2) },
            ]
        }
        _ => vec![],
    }
}

pub struct RunOutcome {
    pub stats: Stats,
    pub per_suite: Vec<Value>,
    pub samples: Vec<Value>,
    pub failures: usize,
}

pub fn replay_json(host: HostKind, p: &P, history: &[Step]) -> Value {
    json!({ "engine": "seqx", "host": host, "program": p, "history": history,
            "history_readable": history.iter().map(seqx::step_json).collect::<Vec<_>>() })
}

/// Runs all suites; reports failures to `rep` with keys `<property-scope>/<class>`.
pub fn run_suites(rep: &Reporter, suites: &[Suite], deadline_s: f64, node_cap: u64) -> RunOutcome {
    let deadline = Deadline::new(deadline_s);
    let mut items: Vec<(usize, usize)> = vec![];
    for (si, s) in suites.iter().enumerate() {
        for pi in 0..s.programs.len() {
            items.push((si, pi));
        }
    }
    // small suites first (targeted program lists, scripted scale members): under a wall-clock cap
    // it is the big trees that are cut short, never the suites written for a particular defect class
    items.sort_by_key(|(si, pi)| (suites[*si].programs.len(), *si, *pi));
    let results = mc_kit::par_map(&items, |_, (si, pi)| {
        let s = &suites[*si];
        let p = &s.programs[*pi];
        if deadline.expired() {
            let mut st = Stats::default();
            st.capped = true;
            return (st, vec![], None);
        }
        let mut ex = Explorer::new(s.host, p, &s.bounds);
        ex.node_cap = node_cap;
        ex.deadline = Some(&deadline);
        ex.policy = policy_of(s.name);
        ex.run();
        let found: Vec<_> = ex.found.into_iter().map(|f| (f.failure, f.history)).collect();
        (ex.stats, found, ex.sample)
    });
    let mut total = Stats::default();
    let mut per: BTreeMap<usize, Stats> = BTreeMap::new();
    let mut samples = vec![];
    let mut failures = 0;
    let mut seen_sample: BTreeSet<usize> = BTreeSet::new();
    for ((si, pi), (st, found, sample)) in items.iter().zip(results) {
        total.merge(&st);
        per.entry(*si).or_default().merge(&st);
        let s = &suites[*si];
        let p = &s.programs[*pi];
        if let Some(h) = sample {
            if h.len() >= 3 && seen_sample.insert(*si) {
                samples.push(json!({"suite": s.name, "host": s.host.name(), "program": format!("{p:?}"),
                    "history": h.iter().map(seqx::step_json).collect::<Vec<_>>()}));
            }
        }
        for (f, h) in found {
            failures += 1;
            // determinism self-check: the failing case must fail identically twice
            let hints: Vec<bool> = vec![true; h.len()];
            let a = seqx::execute(s.host, p, &h, &hints);
            let b = seqx::execute(s.host, p, &h, &hints);
            if (a.1, &a.2, &a.3) != (b.1, &b.2, &b.3) {
                mc_kit::machinery_error(&format!("non-deterministic replay of {p:?} {h:?}"));
            }
            rep.violation(Violation {
                key: f.key.clone(),
                what: format!("[{} / {}] program {:?}; history {:?}: {}", s.name, s.host.name(), p,
                    h.iter().map(seqx::step_json).collect::<Vec<_>>(), f.what),
                replay: replay_json(s.host, p, &h),
                size: p.size() * 100 + h.len(),
            });
        }
    }
    let per_suite = per
        .iter()
        .map(|(si, st)| {
            let s = &suites[*si];
            json!({"suite": s.name, "host": s.host.name(), "programs": st.programs, "states": st.states,
                "transitions": st.transitions, "complete_histories": st.histories, "max_depth": st.max_depth,
                "depth_bound": s.bounds.depth, "max_aborts": s.bounds.max_aborts, "max_unobserved_steps": s.bounds.max_silent,
                "max_late_resolutions": s.bounds.max_late, "items_per_stream": s.bounds.items_per_stream,
                "distinct_outcomes": st.outcomes.len(), "capped": st.capped})
        })
        .collect();
    RunOutcome { stats: total, per_suite, samples, failures }
}

pub fn replay(path: &str) -> i32 {
    if let Ok(text) = std::fs::read_to_string(path) {
        if let Ok(v) = serde_json::from_str::<Value>(&text) {
            if v["case"]["engine"] == "extra" {
                let id = v["property"].as_str().unwrap_or("").to_string();
                let rep = Reporter::new(&id, Tier::Quick);
                let ran = extra_cases(&id, &rep);
                println!("re-ran dedicated cases {ran:?}: {} violation key(s)", rep.violation_count());
                return i32::from(rep.violation_count() > 0);
            }
        }
    }
    let text = std::fs::read_to_string(path).unwrap_or_else(|e| mc_kit::machinery_error(&format!("cannot read {path}: {e}")));
    let v: Value = serde_json::from_str(&text).unwrap();
    let case = &v["case"];
    if case["engine"] == "laws" {
        return crate::laws::replay_case(case);
    }
    if case["engine"] == "timers" {
        return crate::timers::replay_case(case);
    }
    if case["engine"] == "sched" {
        return crate::sched::replay(case);
    }
    let host: HostKind = serde_json::from_value(case["host"].clone()).unwrap();
    let p: P = serde_json::from_value(case["program"].clone()).unwrap();
    let history: Vec<Step> = serde_json::from_value(case["history"].clone()).unwrap();
    println!("replay: host {} program {:?}", host.name(), p);
    let mut chk = seqx::Checker::new(host, &p);
    let b = Bounds { depth: 99, items_per_stream: 9, max_aborts: 9, max_silent: 9, max_late: 9, abort_before_start: true, max_spawn_more: 0 };
    let mut ex = Explorer::new(host, &p, &b);
    let mut hints = vec![];
    if host.is_core() {
        let (_h, _, call, _) = seqx::execute(host, &p, &[], &[]);
        println!("  start -> {:?}", call);
        if let Err(f) = chk.apply_settle(&call.unwrap(), false) {
            println!("  DIVERGENCE {}: {}", f.key, f.what);
            return 1;
        }
    }
    for i in 0..history.len() {
        let st = history[i];
        let hint = if let seqx::Act::Resolve(h) = st.act {
            chk.predict_resolve(h, 0).iter().all(|r| *r == crate::refmodel::Res::Ok)
        } else {
            true
        };
        hints.push(hint);
        let (host_obj, res, call, after) = seqx::execute(host, &p, &history[..=i], &hints);
        println!("  step {i}: {} -> result {:?}\n      call {:?}\n      after {:?}", seqx::step_json(&st), res, call, after);
        if let Err(f) = ex.check_step_pub(&mut chk, st, i, res, call, after, &host_obj) {
            println!("  DIVERGENCE {}: {}", f.key, f.what);
            return 1;
        }
    }
    println!("  no divergence");
    0
}

// ---------------------------------------------------------------------------------------------
// Dedicated cases for known findings K1 (C02, C06) and K2 (C07)

pub fn extra_cases(id: &str, rep: &Reporter) -> Vec<Value> {
    use crate::app::{Effect, Event, OpA, VApp, VOp};
    use crux_core::Core;
    let mut ran = vec![];
    let core_resolve = |req: &mut Effect, core: &Core<VApp>, v: u32| -> Result<Result<usize, String>, mc_kit::PanicInfo> {
        mc_kit::catch(|| match req {
            Effect::CapA(r) => core.resolve(r, OpA::out(v)).map(|e| e.len()).map_err(|e| e.to_string()),
            Effect::CapB(r) => core.resolve(r, crate::app::OpB::out(v)).map(|e| e.len()).map_err(|e| e.to_string()),
        })
    };
    let report = |rep: &Reporter, what: &str, r: Result<Result<usize, String>, mc_kit::PanicInfo>, case: Value| match r {
        Ok(Err(_)) => {} // rejected with an error value: what the property asks for
        Ok(Ok(_)) => rep.violation(Violation {
            key: "core-resolve/rejection-expected-but-accepted".into(),
            what: format!("{what}: Core::resolve accepted a resolution that must be rejected"),
            replay: case,
            size: 1,
        }),
        Err(p) if p.message.contains("resolve_result.is_ok()") => rep.violation(Violation {
            key: "core-resolve/debug-assert".into(),
            what: format!("{what}: Core::resolve panics ({} at {}:{}) instead of returning the error (debug assertions on)", p.message, p.file, p.line),
            replay: case,
            size: 1,
        }),
        Err(p) => rep.violation(Violation {
            key: format!("panic/{}", p.key()),
            what: format!("{what}: panic {} at {}:{}", p.message, p.file, p.line),
            replay: case,
            size: 1,
        }),
    };
    if id == "C02" {
        // second resolution of a one-shot, and resolution of a notification, through Core::resolve
        let core: Core<VApp> = Core::new();
        let mut effs = core.process_event(Event::Start(P::All(vec![P::Req(S { id: 2, label: 2 }), P::Notify(S { id: 4, label: 4 })]).normalized()));
        let case = json!({"engine": "extra", "case": "C02/core-resolve: second resolution of a one-shot and resolution of a notification through Core::resolve"});
        let first = core_resolve(&mut effs[0], &core, 1);
        if !matches!(first, Ok(Ok(_))) {
            rep.violation(Violation { key: "core-resolve/first-resolution-rejected".into(), what: format!("{first:?}"), replay: case.clone(), size: 1 });
        }
        let second = core_resolve(&mut effs[0], &core, 2);
        report(rep, "second resolution of a one-shot request", second, case.clone());
        let notif = core_resolve(&mut effs[1], &core, 3);
        report(rep, "resolution of a notification", notif, case.clone());
        let log = core.view();
        let got: Vec<_> = log.iter().filter(|e| matches!(e, Event::Out(_))).collect();
        if got.len() != 1 {
            rep.violation(Violation { key: "core-resolve/rejected-resolution-had-an-effect".into(), what: format!("log after the rejected resolutions: {log:?}"), replay: case.clone(), size: 1 });
        }
        ran.push(case);
    }
    if id == "C06" {
        // late item for a stream whose consumer was aborted and cleaned up, through Core::resolve
        let core: Core<VApp> = Core::new();
        crate::build::clear_aborts();
        let mut effs = core.process_event(Event::Start(P::abortable(0, P::All(vec![P::Stream(S { id: 2, label: 2 }), P::Req(S { id: 4, label: 4 })])).normalized()));
        let case = json!({"engine": "extra", "case": "C06/core-resolve: stream item after the consumer was aborted and cleaned up, through Core::resolve"});
        crate::build::fire_abort(0);
        // a response to the sibling request wakes the aborted command, which is then cleaned up
        let mut req = effs.remove(1);
        let r1 = core_resolve(&mut req, &core, 1);
        if !matches!(r1, Ok(Ok(_))) {
            rep.violation(Violation { key: "core-resolve/late-one-shot-rejected".into(), what: format!("{r1:?}"), replay: case.clone(), size: 1 });
        }
        let late = core_resolve(&mut effs[0], &core, 2);
        report(rep, "stream item after its consumer was cancelled", late, case.clone());
        let log = core.view();
        if log.iter().any(|e| matches!(e, Event::Out(_))) {
            rep.violation(Violation { key: "cancelled-work/output-after-abort".into(), what: format!("log: {log:?}"), replay: case.clone(), size: 1 });
        }
        ran.push(case);
    }
    if id == "C06" {
        // an aborted, directly held command reports done as soon as - and not before - its
        // already-emitted outputs have been taken
        let case = json!({"engine": "extra", "case": "C06/aborted-command-with-pending-outputs: done exactly when the emitted outputs were taken"});
        for which in 0..3 {
            crate::build::clear_aborts();
            let p = P::abortable(0, P::All(vec![P::Burst(S { id: 1, label: 1 }, S { id: 2, label: 2 }), P::Stream(S { id: 4, label: 4 })])).normalized();
            let mut cmd = crate::build::build(&p);
            let r = mc_kit::catch(|| {
                // poll once: two marks and two requests are emitted; take only some of them
                let mut problems = vec![];
                let effects: Vec<_> = if which != 1 { cmd.effects().collect() } else { vec![] };
                let events: Vec<_> = if which == 1 { cmd.events().collect() } else { vec![] };
                crate::build::fire_abort(0);
                if cmd.is_done() {
                    problems.push(format!("variant {which}: is_done() is true while emitted outputs have not been taken"));
                }
                if !cmd.was_aborted() {
                    problems.push("was_aborted() is false after abort".to_string());
                }
                let rest_effects: Vec<_> = cmd.effects().collect();
                let rest_events: Vec<_> = cmd.events().collect();
                if effects.len() + rest_effects.len() != 2 || events.len() + rest_events.len() != 2 {
                    problems.push(format!(
                        "variant {which}: outputs emitted before the abort were lost or new ones appeared: effects {}+{}, events {}+{}",
                        effects.len(), rest_effects.len(), events.len(), rest_events.len()
                    ));
                }
                if !cmd.is_done() {
                    problems.push(format!("variant {which}: is_done() is false although every emitted output was taken"));
                }
                // late responses: accepted or FinishedMany, never a panic, never an output
                for mut e in effects.into_iter().chain(rest_effects) {
                    match &mut e {
                        Effect::CapA(r) => {
                            let _ = r.resolve(7);
                        }
                        Effect::CapB(r) => {
                            let _ = r.resolve(crate::app::OpB::out(7));
                        }
                    }
                }
                if cmd.effects().count() + cmd.events().count() != 0 || !cmd.is_done() {
                    problems.push(format!("variant {which}: a late response to aborted work had a visible consequence"));
                }
                problems
            });
            match r {
                Ok(problems) => {
                    for what in problems {
                        rep.violation(Violation { key: "aborted-command/done-vs-pending-outputs".into(), what, replay: case.clone(), size: 1 });
                    }
                }
                Err(p) => rep.violation(Violation { key: format!("panic/{}", p.key()), what: format!("{} at {}:{}", p.message, p.file, p.line), replay: case.clone(), size: 1 }),
            }
        }
        ran.push(case);
    }
    if id == "C07" {
        // extended atom: a task awaiting a FuturesUnordered of shell requests
        let case = json!({"engine": "extra", "case": "C07/futures-unordered: both requests of a FuturesUnordered dropped"});
        let mut cmd = crate::build::build(&P::Unordered(S { id: 2, label: 2 }, S { id: 4, label: 4 }));
        let effs: Vec<_> = cmd.effects().collect();
        let n = effs.len();
        drop(effs);
        let done = cmd.is_done();
        let live = cmd.verif_live_tasks();
        if n != 2 {
            rep.violation(Violation { key: "futures-unordered/requests".into(), what: format!("{n} requests"), replay: case.clone(), size: 1 });
        }
        if !done || live != 0 {
            rep.violation(Violation {
                key: "linger/futures-unordered".into(),
                what: format!("all requests of the task were dropped, yet is_done() = {done} and {live} task(s) remain"),
                replay: case.clone(),
                size: 1,
            });
        }
        // and the positive half: resolving both completes it
        let mut cmd = crate::build::build(&P::Unordered(S { id: 2, label: 2 }, S { id: 4, label: 4 }));
        let mut effs: Vec<_> = cmd.effects().collect();
        for (i, e) in effs.iter_mut().enumerate() {
            if let Effect::CapA(r) = e {
                let _ = r.resolve(i as u32);
            }
        }
        let evs: Vec<_> = cmd.events().collect();
        if evs.len() != 2 || !cmd.is_done() {
            rep.violation(Violation { key: "futures-unordered/resolved-not-done".into(), what: format!("events {evs:?}"), replay: case.clone(), size: 1 });
        }
        ran.push(case);
    }
    ran
}

/// Built-in canary: the reference is told a deliberately wrong program; the explorer must object.
pub fn canary() -> Result<(), String> {
    let real = P::then(P::Req(S { id: 2, label: 2 }), P::Req(S { id: 4, label: 4 }));
    let lie = P::and(P::Req(S { id: 2, label: 2 }), P::Req(S { id: 4, label: 4 }));
    let host = HostKind::Direct;
    let mut h = crate::hosts::Host::new(host);
    h.start(&real);
    let obs = h.observe();
    let mut chk = seqx::Checker::new(host, &lie);
    if chk.apply_settle(&obs, false).is_ok() {
        return Err("seqx canary: the checker accepted `then` as `and`".into());
    }
    let mut chk = seqx::Checker::new(host, &real);
    if let Err(f) = chk.apply_settle(&obs, false) {
        return Err(format!("seqx canary: the checker rejected the true program: {}", f.what));
    }
    Ok(())
}
