//! sched: controlled scheduler over real threads calling into one real Core / Bridge (C08).
//! Exactly one registered thread runs at a time; switches happen only at the schedule points
//! compiled into crux under `--cfg crux_verif`. Exploration is the deviation(=preemption)-bounded
//! depth-first search over choice prefixes.

use std::cell::Cell;
use std::collections::{BTreeMap, BTreeSet};
use std::sync::{Arc, Condvar, Mutex};
use std::time::{Duration, Instant};

use bincode::Options;
use crux_core::bridge::Bridge;
use crux_core::verif::Controller;
use crux_core::Core;
use serde_json::{json, Value};

use crate::app::{Effect, Event, OpA, OpB, Out, VApp, VOp, REENTRIES};
use crate::dsl::{P, S};
use crate::hosts::ObsEff;

const HORIZON: usize = 20_000;

thread_local! {
    static ME: Cell<usize> = const { Cell::new(usize::MAX) };
}

#[derive(Clone, Copy, Debug, PartialEq, Eq)]
enum PKind {
    Point,
    Yield,
    /// about to block on the lock with this identity (exclusive, or the read side of a RwLock)
    Acquire(usize, bool),
}

#[derive(Clone, Copy, Debug, PartialEq, Eq)]
enum Th {
    NotStarted,
    Parked(&'static str, PKind),
    Running,
    /// made no progress for a while without reaching a schedule point: presumably blocked on a
    /// lock the controller does not model, held by a parked thread; others may run meanwhile
    Stuck,
    Finished,
}

#[derive(Clone, Debug)]
pub struct Decision {
    pub enabled: Vec<usize>,
    pub chosen: usize,
    pub cur_enabled: bool,
    pub at: Vec<&'static str>,
}

struct CtlState {
    status: Vec<Th>,
    running: Option<usize>,
    /// lock identity -> (held exclusively, holders)
    locks: BTreeMap<usize, (bool, Vec<usize>)>,
    prefix: Vec<u8>,
    decisions: Vec<Decision>,
    points: usize,
    abort: Option<String>,
    done: bool,
    /// free spins used per thread (see `yield_point`)
    spins: Vec<u8>,
}

pub struct Ctl {
    m: Mutex<CtlState>,
    cv: Condvar,
    /// see `Scenario::fine`
    fine: bool,
}

struct AbortExec;

impl Ctl {
    fn new(n: usize, prefix: Vec<u8>, fine: bool) -> Ctl {
        Ctl {
            fine,
            m: Mutex::new(CtlState {
                status: vec![Th::NotStarted; n],
                running: None,
                locks: BTreeMap::new(),
                prefix,
                decisions: vec![],
                points: 0,
                abort: None,
                done: false,
                spins: vec![0; n],
            }),
            cv: Condvar::new(),
        }
    }

    /// Chooses the next thread to run. `cur` is the thread that just parked or finished.
    fn decide(st: &mut CtlState, cur: Option<usize>) {
        let enabled_of = |st: &CtlState, want_yield: bool| -> Vec<usize> {
            let mut v = vec![];
            for (i, t) in st.status.iter().enumerate() {
                if let Th::Parked(_, k) = t {
                    let ok = match k {
                        PKind::Acquire(l, exclusive) => match st.locks.get(l) {
                            None => true,
                            Some((held_exclusively, holders)) => holders.is_empty() || (!*held_exclusively && !*exclusive),
                        },
                        PKind::Yield => want_yield,
                        PKind::Point => true,
                    };
                    if ok {
                        v.push(i);
                    }
                }
            }
            v
        };
        // a spinning thread is not eligible while anybody else can run
        let mut enabled = enabled_of(st, false);
        if enabled.is_empty() {
            enabled = enabled_of(st, true);
        }
        if enabled.is_empty() {
            if st.status.iter().all(|t| *t == Th::Finished) {
                st.done = true;
            } else if st.status.iter().any(|t| *t == Th::Stuck) {
                // wait for the blocked thread to come back to a schedule point
            } else {
                st.abort = Some("deadlock: no enabled thread while some thread is unfinished".into());
            }
            st.running = None;
            return;
        }
        // canonical order: the current thread first (if enabled), then ascending ids
        let mut cur_enabled = false;
        if let Some(c) = cur {
            if let Some(pos) = enabled.iter().position(|i| *i == c) {
                enabled.remove(pos);
                enabled.insert(0, c);
                cur_enabled = true;
            }
        }
        let pos = st.decisions.len();
        let choice = if pos < st.prefix.len() { st.prefix[pos] as usize } else { 0 };
        if choice >= enabled.len() {
            st.abort = Some(format!("replay divergence: choice {choice} of {} at decision {pos}", enabled.len()));
            st.running = None;
            return;
        }
        let at = st
            .status
            .iter()
            .map(|t| match t {
                Th::Parked(n, _) => *n,
                Th::Finished => "finished",
                Th::Running => "running",
                Th::Stuck => "blocked-outside-schedule-points",
                Th::NotStarted => "not-started",
            })
            .collect();
        st.decisions.push(Decision { enabled: enabled.clone(), chosen: choice, cur_enabled, at });
        st.running = Some(enabled[choice]);
    }

    fn park(&self, name: &'static str, kind: PKind) {
        if std::thread::panicking() {
            return;
        }
        let me = ME.with(Cell::get);
        if me == usize::MAX {
            return;
        }
        let mut st = self.m.lock().unwrap();
        if st.abort.is_some() {
            drop(st);
            std::panic::resume_unwind(Box::new(AbortExec));
        }
        st.points += 1;
        if st.points > HORIZON {
            st.abort = Some(format!("livelock: more than {HORIZON} schedule points in one execution (last: {name})"));
            self.cv.notify_all();
            drop(st);
            std::panic::resume_unwind(Box::new(AbortExec));
        }
        let was_running = st.running == Some(me) || st.running.is_none();
        st.status[me] = Th::Parked(name, kind);
        if was_running {
            Ctl::decide(&mut st, Some(me));
        }
        self.cv.notify_all();
        loop {
            if st.abort.is_some() {
                drop(st);
                std::panic::resume_unwind(Box::new(AbortExec));
            }
            if st.running == Some(me) {
                break;
            }
            st = self.cv.wait(st).unwrap();
        }
        if let PKind::Acquire(l, exclusive) = kind {
            let e = st.locks.entry(l).or_insert((exclusive, vec![]));
            e.0 = exclusive;
            e.1.push(me);
        }
        st.status[me] = Th::Running;
    }

    fn arrive(&self, me: usize) {
        let mut st = self.m.lock().unwrap();
        st.status[me] = Th::Parked("start", PKind::Point);
        self.cv.notify_all();
        loop {
            if st.abort.is_some() {
                drop(st);
                std::panic::resume_unwind(Box::new(AbortExec));
            }
            if st.running == Some(me) {
                break;
            }
            st = self.cv.wait(st).unwrap();
        }
        st.status[me] = Th::Running;
    }

    fn finish(&self, me: usize) {
        let mut st = self.m.lock().unwrap();
        st.status[me] = Th::Finished;
        for (_, (_, holders)) in st.locks.iter_mut() {
            holders.retain(|h| *h != me);
        }
        if st.abort.is_none() {
            if st.running == Some(me) || st.running.is_none() {
                Ctl::decide(&mut st, Some(me));
            }
        } else if st.status.iter().all(|t| *t == Th::Finished) {
            st.done = true;
        }
        self.cv.notify_all();
    }
}

impl Controller for Ctl {
    fn point(&self, name: &'static str) {
        if !self.fine && name.starts_with("atomic.") {
            return;
        }
        self.park(name, PKind::Point);
    }
    fn yield_point(&self, name: &'static str) {
        // A spinning thread normally may not run again before somebody else has made progress
        // (otherwise the loop would be unrolled without end). The first FREE_SPINS iterations of a
        // thread are ordinary schedule points, though, so that "B goes round its retry loop twice
        // while A is still inside its poll" is an explored schedule.
        const FREE_SPINS: u8 = 2;
        let me = ME.with(Cell::get);
        let free = if me == usize::MAX {
            false
        } else {
            let mut st = self.m.lock().unwrap();
            if st.spins[me] < FREE_SPINS {
                st.spins[me] += 1;
                true
            } else {
                false
            }
        };
        self.park(name, if free { PKind::Point } else { PKind::Yield });
    }
    fn lock_acquire(&self, lock: usize, exclusive: bool, what: &'static str) {
        self.park(what, PKind::Acquire(lock, exclusive));
    }
    fn lock_taken(&self, lock: usize, exclusive: bool) {
        // a successful try_lock: no waiting, the lock is simply held from now on
        let me = ME.with(Cell::get);
        if me == usize::MAX {
            return;
        }
        let mut st = self.m.lock().unwrap();
        let e = st.locks.entry(lock).or_insert((exclusive, vec![]));
        e.0 = exclusive;
        e.1.push(me);
    }
    fn lock_release(&self, lock: usize, _exclusive: bool) {
        let me = ME.with(Cell::get);
        let mut st = self.m.lock().unwrap();
        if let Some((_, holders)) = st.locks.get_mut(&lock) {
            if let Some(pos) = holders.iter().position(|h| *h == me) {
                holders.remove(pos);
            }
            if holders.is_empty() {
                st.locks.remove(&lock);
            }
        }
    }
}

// ---------------------------------------------------------------------------------------------
// Scenarios

#[derive(Clone, Debug)]
pub enum Call {
    /// deliver a shell event
    Event(Event),
    /// resolve the k-th request obtained during setup with a fresh value
    Resolve(usize),
    /// drop the k-th request unresolved
    DropReq(usize),
    View,
}

#[derive(Clone, Copy, Debug, PartialEq, Eq)]
pub enum Sys {
    Core,
    Bridge,
}

#[derive(Clone, Debug)]
pub struct Scenario {
    pub name: &'static str,
    pub sys: Sys,
    /// atomic operations of crux_core / crux_time (instrumented types in verification builds) are
    /// schedule points too; off: only the named points and the lock operations are
    pub fine: bool,
    /// events delivered single-threaded before the threads start; their requests become handles
    pub setup: Vec<Event>,
    pub threads: Vec<Vec<Call>>,
}

enum SysObj {
    Core(Core<VApp>),
    Bridge(Bridge<VApp>),
}

enum Handle {
    Typed(Effect),
    Wire { id: u32, is_b: bool },
}

impl Handle {
    fn share(&self) -> Option<Handle> {
        match self {
            Handle::Wire { id, is_b } => Some(Handle::Wire { id: *id, is_b: *is_b }),
            Handle::Typed(_) => None,
        }
    }
}

fn opts() -> impl bincode::Options + Copy {
    bincode::DefaultOptions::new().with_fixint_encoding().allow_trailing_bytes()
}

#[derive(serde::Deserialize)]
enum FfiMirror {
    CapA(OpA),
    CapB(OpB),
}

#[derive(serde::Deserialize)]
struct ReqMirror {
    id: u32,
    effect: FfiMirror,
}

fn obs_eff(e: &Effect) -> ObsEff {
    match e {
        Effect::CapA(r) => ObsEff { label: r.operation.label, arg: r.operation.arg, tags: r.operation.tags, is_b: false },
        Effect::CapB(r) => ObsEff { label: r.operation.label, arg: r.operation.arg, tags: r.operation.tags, is_b: true },
    }
}

impl SysObj {
    fn event(&self, ev: Event) -> Vec<(ObsEff, Handle)> {
        match self {
            SysObj::Core(c) => c.process_event(ev).into_iter().map(|e| (obs_eff(&e), Handle::Typed(e))).collect(),
            SysObj::Bridge(b) => {
                let bytes = opts().serialize(&ev).unwrap();
                decode(&b.process_event(&bytes).expect("event accepted"))
            }
        }
    }

    /// Ok(effects) or Err(description of the rejection)
    fn resolve(&self, h: &mut Handle, v: u32) -> Result<Vec<(ObsEff, Handle)>, String> {
        match (self, h) {
            (SysObj::Core(c), Handle::Typed(e)) => {
                // Request::resolve + process through a no-op would hide Core::resolve; use it directly
                // Core::resolve debug_asserts that the resolution was accepted (known finding K1):
                // a rejected resolution surfaces as that panic; report it as the rejection it is
                let r = std::panic::catch_unwind(std::panic::AssertUnwindSafe(|| match e {
                    Effect::CapA(r) => c.resolve(r, OpA::out(v)),
                    Effect::CapB(r) => c.resolve(r, OpB::out(v)),
                }));
                match r {
                    Ok(r) => r
                        .map(|effs| effs.into_iter().map(|e| (obs_eff(&e), Handle::Typed(e))).collect())
                        .map_err(|e| e.to_string()),
                    Err(payload) => {
                        if payload.is::<AbortExec>() {
                            std::panic::resume_unwind(payload);
                        }
                        let info = mc_kit::take_last_panic();
                        match info {
                            Some(p) if p.message.contains("resolve_result.is_ok()") => {
                                Err("rejected (Core::resolve debug assertion)".into())
                            }
                            Some(p) => std::panic::resume_unwind(Box::new(format!("{} at {}:{}", p.message, p.file, p.line))),
                            None => std::panic::resume_unwind(payload),
                        }
                    }
                }
            }
            (SysObj::Bridge(b), Handle::Wire { id, is_b }) => {
                let bytes = if *is_b { opts().serialize(&OpB::out(v)).unwrap() } else { opts().serialize(&OpA::out(v)).unwrap() };
                b.handle_response(*id, &bytes).map(|bytes| decode(&bytes)).map_err(|e| e.to_string())
            }
            _ => unreachable!(),
        }
    }

    fn log(&self) -> Vec<Event> {
        match self {
            SysObj::Core(c) => c.view(),
            SysObj::Bridge(b) => opts().deserialize(&b.view().unwrap()).unwrap(),
        }
    }

    fn queues(&self) -> (usize, usize, usize, usize) {
        let s = match self {
            SysObj::Core(c) => c.verif_stats(),
            SysObj::Bridge(b) => b.verif_core().verif_stats(),
        };
        (s.1, s.2, s.3, s.4)
    }
}

fn decode(bytes: &[u8]) -> Vec<(ObsEff, Handle)> {
    let reqs: Vec<ReqMirror> = opts().deserialize(bytes).expect("request batch decodes");
    reqs.into_iter()
        .map(|r| match r.effect {
            FfiMirror::CapA(op) => (
                ObsEff { label: op.label, arg: op.arg, tags: op.tags, is_b: false },
                Handle::Wire { id: r.id, is_b: false },
            ),
            FfiMirror::CapB(op) => (
                ObsEff { label: op.label, arg: op.arg, tags: op.tags, is_b: true },
                Handle::Wire { id: r.id, is_b: true },
            ),
        })
        .collect()
}

type CallOut = (Vec<(ObsEff, Handle)>, Option<String>);

/// Canonical result of one execution (concurrent or sequential).
#[derive(Clone, Debug, PartialEq, Eq, PartialOrd, Ord)]
pub struct Outcome {
    /// multiset of effects returned by all calls of all threads
    pub effects: Vec<ObsEff>,
    /// multiset of events applied to the model
    pub events: Vec<Event>,
    /// results of the calls that can be rejected, by (thread, call)
    pub rejections: Vec<(usize, usize, String)>,
    /// what the sequential drain after the run produced (effects, events), as multisets
    pub after_effects: Vec<ObsEff>,
    pub after_events: Vec<Event>,
    pub problems: Vec<String>,
}

pub struct Execution {
    pub outcome: Outcome,
    pub decisions: Vec<Decision>,
    pub abort: Option<String>,
    pub panics: Vec<String>,
    pub log: Vec<Event>,
}

fn order_problems(log: &[Event]) -> Vec<String> {
    let mut last: BTreeMap<u16, u32> = BTreeMap::new();
    let mut out = vec![];
    for e in log {
        if let Event::Out(Out::Mark { site, n }) = e.peel().0 {
            let slot = last.entry(*site).or_insert(0);
            if *n + 1 <= *slot {
                out.push(format!("events of site {site} applied out of emission order"));
            }
            *slot = *n + 1;
        }
    }
    out
}

/// Runs the scenario. `schedule`: Some(prefix) = concurrent under the controller;
/// None with `order` = sequential in the given merge order (thread index per call).
pub fn run(scn: &Scenario, schedule: Option<&[u8]>, order: Option<&[(usize, usize)]>) -> Execution {
    let sys = match scn.sys {
        Sys::Core => SysObj::Core(Core::new()),
        Sys::Bridge => SysObj::Bridge(Bridge::new(Core::new())),
    };
    let reentries_before = REENTRIES.load(std::sync::atomic::Ordering::SeqCst);
    let mut handles: Vec<Option<Handle>> = vec![];
    for ev in &scn.setup {
        for (_, h) in sys.event(ev.clone()) {
            handles.push(Some(h));
        }
    }
    let log_before = sys.log().len();
    // hand every thread the handles its calls name
    let mut per_thread: Vec<Vec<(usize, Handle)>> = scn.threads.iter().map(|_| vec![]).collect();
    for (t, calls) in scn.threads.iter().enumerate() {
        for c in calls {
            if let Call::Resolve(k) | Call::DropReq(k) = c {
                if per_thread[t].iter().any(|(kk, _)| kk == k) {
                    continue;
                }
                let shared = handles[*k].as_ref().and_then(Handle::share);
                if let Some(h) = shared {
                    per_thread[t].push((*k, h));
                } else if let Some(h) = handles[*k].take() {
                    per_thread[t].push((*k, h));
                }
            }
        }
    }
    let sys = Arc::new(sys);
    let results: Arc<Mutex<Vec<Vec<CallOut>>>> = Arc::new(Mutex::new(scn.threads.iter().map(|_| vec![]).collect()));
    let panics: Arc<Mutex<Vec<String>>> = Arc::new(Mutex::new(vec![]));
    fn value_of(t: usize, i: usize) -> u32 {
        1000 + (t as u32) * 100 + i as u32
    }
    fn do_call(sys: &SysObj, mine: &mut Vec<(usize, Handle)>, c: &Call, t: usize, i: usize) -> CallOut {
        match c {
            Call::Event(e) => (sys.event(e.clone()), None),
            Call::Resolve(k) => {
                let pos = mine.iter().position(|(kk, _)| kk == k).expect("handle available");
                let r = sys.resolve(&mut mine[pos].1, value_of(t, i));
                match r {
                    Ok(effs) => (effs, None),
                    Err(e) => (vec![], Some(e)),
                }
            }
            Call::DropReq(k) => {
                if let Some(pos) = mine.iter().position(|(kk, _)| kk == k) {
                    drop(mine.remove(pos));
                }
                (vec![], None)
            }
            Call::View => {
                let _ = sys.log();
                (vec![], None)
            }
        }
    }

    let mut decisions = vec![];
    let mut abort = None;
    let mut leftover: Vec<(usize, Handle)> = vec![];
    if let Some(prefix) = schedule {
        let n = scn.threads.len();
        let ctl = Arc::new(Ctl::new(n, prefix.to_vec(), scn.fine));
        let mut joins = vec![];
        for (t, mine) in per_thread.into_iter().enumerate() {
            let (ctl, sys, results, panics) = (ctl.clone(), sys.clone(), results.clone(), panics.clone());
            let calls = scn.threads[t].clone();
            joins.push(std::thread::spawn(move || {
                ME.with(|m| m.set(t));
                mc_kit::capture_on_this_thread(true);
                let mut mine = mine;
                let r = std::panic::catch_unwind(std::panic::AssertUnwindSafe(|| {
                    ctl.arrive(t);
                    crux_core::verif::set_controller(Some(ctl.clone() as Arc<dyn Controller>));
                    for (i, c) in calls.iter().enumerate() {
                        let out = do_call(&sys, &mut mine, c, t, i);
                        results.lock().unwrap()[t].push(out);
                    }
                }));
                crux_core::verif::set_controller(None);
                if let Err(payload) = r {
                    if !payload.is::<AbortExec>() {
                        let info = mc_kit::take_last_panic();
                        panics.lock().unwrap().push(match (info, payload.downcast_ref::<String>()) {
                            (_, Some(s)) => s.clone(),
                            (Some(p), _) => format!("{} at {}:{}", p.message, p.file, p.line),
                            _ => "panic".into(),
                        });
                    }
                }
                ME.with(|m| m.set(usize::MAX));
                ctl.finish(t);
                mine
            }));
        }
        (decisions, abort) = coordinate(&ctl, scn.name, prefix);
        for j in joins {
            if let Ok(mine) = j.join() {
                leftover.extend(mine);
            }
        }
    } else {
        let order = order.expect("sequential order");
        let mut by_index: BTreeMap<(usize, usize), CallOut> = BTreeMap::new();
        for &(t, i) in order {
            let c = &scn.threads[t][i];
            let r = mc_kit::catch(|| do_call(&sys, &mut per_thread[t], c, t, i));
            match r {
                Ok(out) => {
                    by_index.insert((t, i), out);
                }
                Err(p) => panics.lock().unwrap().push(format!("{} at {}:{}", p.message, p.file, p.line)),
            }
        }
        // results are keyed by the call's position in its thread's list, whatever the order was
        for ((t, _), out) in by_index {
            results.lock().unwrap()[t].push(out);
        }
        for mine in per_thread {
            leftover.extend(mine);
        }
    }

    let used_by_threads: Vec<usize> = scn
        .threads
        .iter()
        .flatten()
        .filter_map(|c| if let Call::Resolve(k) | Call::DropReq(k) = c { Some(*k) } else { None })
        .collect();
    let has_drop = scn.threads.iter().flatten().any(|c| matches!(c, Call::DropReq(_)));
    // setup handles that are subscriptions: those resolved more than once by the scenario, or whose
    // setup program is a plain stream
    let stream_setup_handles: Vec<usize> = {
        let mut v = vec![];
        let mut idx = 0;
        for ev in &scn.setup {
            if let Event::Start(p) | Event::StartLegacy(p) = ev {
                let n = match p {
                    P::Stream(_) => {
                        v.push(idx);
                        1
                    }
                    P::Join(..) | P::Select(..) => 2,
                    P::All(m) => m.len(),
                    _ => 1,
                };
                idx += n;
            }
        }
        v
    };
    // ---- evaluate (single-threaded, controller off)
    let mut out = Outcome {
        effects: vec![],
        events: vec![],
        rejections: vec![],
        after_effects: vec![],
        after_events: vec![],
        problems: vec![],
    };
    let panics_v = panics.lock().unwrap().clone();
    let mut new_handles: Vec<(ObsEff, Handle)> = vec![];
    for (t, calls) in std::mem::take(&mut *results.lock().unwrap()).into_iter().enumerate() {
        for (i, (effs, rej)) in calls.into_iter().enumerate() {
            for (d, h) in effs {
                out.effects.push(d.clone());
                new_handles.push((d, h));
            }
            if let Some(r) = rej {
                out.rejections.push((t, i, r));
            }
        }
    }
    out.effects.sort();
    let mut log = vec![];
    let has_rejection = !out.rejections.is_empty();
    if abort.is_none() && panics_v.is_empty() {
        let r = mc_kit::catch(|| {
            let log = sys.log();
            let mut problems = order_problems(&log);
            let mut q = sys.queues();
            if has_drop || has_rejection {
                // dropping a request is not a core call: the wake-up it causes legitimately waits
                // for the next call. The same holds for a response the bridge rejects (a late item
                // of a finished subscription): the registry entry is dropped, which drops the
                // stream's sender, whose close wakes the stale waker chain of the finished task; the
                // error path returns without running the core, so that wake-up (for a task slot that
                // is gone or re-used: a spurious poll at worst) is consumed by the next call. The
                // probe below still demands that nothing observable comes of it.
                q.1 = 0;
            }
            if q != (0, 0, 0, 0) {
                problems.push(format!(
                    "not quiescent when all calls had returned: queued spawns {}, queued wake-ups {}, undelivered effects {}, unapplied events {}",
                    q.0, q.1, q.2, q.3
                ));
            }
            // a no-op probe must find nothing to do
            let probe = sys.event(Event::Noop);
            if !probe.is_empty() {
                problems.push(format!(
                    "a no-op probe after the run returned effects that no call had returned: {:?}",
                    probe.iter().map(|(d, _)| (d.label, d.arg)).collect::<Vec<_>>()
                ));
            }
            let log2 = sys.log();
            if log2.len() != log.len() + 1 {
                problems.push("the no-op probe applied further events".into());
            }
            // drain: resolve everything still outstanding, sequentially, in a canonical order
            // (live subscriptions must still deliver; evicted tasks show as missing events)
            let mut after_effects = vec![];
            let mut pending: Vec<(ObsEff, Handle)> = new_handles;
            for (k, h) in leftover {
                // leftover handles of the threads: one more item each for streams. An answered
                // one-shot must not be answered again through the bridge (its id is forgotten and
                // may have been handed to a newer request: shell misuse, documented panic).
                if matches!(h, Handle::Wire { .. }) && !stream_setup_handles.contains(&k) {
                    continue;
                }
                pending.push((ObsEff { label: 9999, arg: 0, tags: 0, is_b: false }, h));
            }
            for (k, h) in handles.into_iter().enumerate() {
                let Some(h) = h else { continue };
                // wire handles are shared with the threads by copy: one the threads have answered is
                // only still answerable if it is a subscription
                if matches!(h, Handle::Wire { .. }) && used_by_threads.contains(&k) {
                    continue;
                }
                pending.push((ObsEff { label: 9998, arg: 0, tags: 0, is_b: false }, h));
            }
            let mut round = 0;
            while !pending.is_empty() && round < 6 {
                pending.sort_by(|a, b| a.0.cmp(&b.0));
                let mut next = vec![];
                for (k, (d, mut h)) in pending.into_iter().enumerate() {
                    if let Ok(effs) = sys.resolve(&mut h, 5000 + round * 100 + k as u32) {
                        for (d2, h2) in effs {
                            after_effects.push(d2.clone());
                            next.push((d2, h2));
                        }
                    }
                    let _ = d;
                }
                pending = next;
                round += 1;
            }
            let log3 = sys.log();
            (log, problems, after_effects, log3)
        });
        match r {
            Ok((l, problems, after_effects, log3)) => {
                out.events = l[log_before..].to_vec();
                out.events.sort();
                out.problems = problems;
                out.after_effects = after_effects;
                out.after_effects.sort();
                out.after_events = log3[l.len() + 1..].to_vec();
                // values in the drain depend on canonical order only; sort as multiset
                out.after_events.sort();
                log = l;
            }
            Err(p) => out.problems.push(format!("panic while evaluating the final state: {} at {}:{}", p.message, p.file, p.line)),
        }
    }
    let re = REENTRIES.load(std::sync::atomic::Ordering::SeqCst);
    if re != reentries_before {
        out.problems.push("update was entered while another update was running".into());
    }
    Execution { outcome: out, decisions, abort, panics: panics_v, log }
}

/// Coordinator of one controlled execution: waits for every thread to arrive, takes the first
/// decision, waits for the end (marking a thread that stopped outside a schedule point as stuck).
fn coordinate(ctl: &Ctl, what: &str, prefix: &[u8]) -> (Vec<Decision>, Option<String>) {
    let mut st = ctl.m.lock().unwrap();
    while !st.status.iter().all(|t| matches!(t, Th::Parked(..))) {
        st = ctl.cv.wait(st).unwrap();
    }
    Ctl::decide(&mut st, None);
    ctl.cv.notify_all();
    let t0 = Instant::now();
    let mut last_points = st.points;
    let mut last_progress = Instant::now();
    while !st.done && !(st.abort.is_some() && st.status.iter().all(|t| *t == Th::Finished)) {
        let (g, _) = ctl.cv.wait_timeout(st, Duration::from_millis(100)).unwrap();
        st = g;
        if st.points != last_points || st.status.iter().all(|t| *t == Th::Finished) {
            last_points = st.points;
            last_progress = Instant::now();
        } else if last_progress.elapsed() > Duration::from_millis(2500) && st.abort.is_none() {
            if let Some(r) = st.running {
                if st.status[r] == Th::Running {
                    st.status[r] = Th::Stuck;
                    st.running = None;
                    Ctl::decide(&mut st, None);
                    ctl.cv.notify_all();
                    last_progress = Instant::now();
                }
            }
        }
        if t0.elapsed() > Duration::from_secs(20) {
            let at: Vec<_> = st.status.clone();
            mc_kit::machinery_error(&format!(
                "scheduler hang in scenario {} (a thread blocked outside a schedule point?) prefix {:?} status {:?}",
                what, prefix, at
            ));
        }
    }
    (st.decisions.clone(), st.abort.clone())
}

/// Result of one controlled execution of arbitrary thread bodies (see `run_controlled`).
pub struct Controlled<T> {
    pub results: Vec<Option<T>>,
    pub decisions: Vec<Decision>,
    pub abort: Option<String>,
    pub panics: Vec<String>,
}

/// Runs the given bodies on real threads under the controller, following `prefix` and taking
/// choice 0 afterwards. The generic core of `run`, for drivers that are not Core/Bridge scenarios.
pub fn run_controlled<T: Send + 'static>(bodies: Vec<Box<dyn FnOnce() -> T + Send>>, prefix: &[u8], fine: bool, what: &str) -> Controlled<T> {
    let n = bodies.len();
    let ctl = Arc::new(Ctl::new(n, prefix.to_vec(), fine));
    let panics: Arc<Mutex<Vec<String>>> = Arc::new(Mutex::new(vec![]));
    let mut joins = vec![];
    for (t, body) in bodies.into_iter().enumerate() {
        let (ctl, panics) = (ctl.clone(), panics.clone());
        joins.push(std::thread::spawn(move || {
            ME.with(|m| m.set(t));
            mc_kit::capture_on_this_thread(true);
            let r = std::panic::catch_unwind(std::panic::AssertUnwindSafe(|| {
                ctl.arrive(t);
                crux_core::verif::set_controller(Some(ctl.clone() as Arc<dyn Controller>));
                body()
            }));
            crux_core::verif::set_controller(None);
            let out = match r {
                Ok(v) => Some(v),
                Err(payload) => {
                    if !payload.is::<AbortExec>() {
                        let info = mc_kit::take_last_panic();
                        panics.lock().unwrap().push(match (info, payload.downcast_ref::<String>()) {
                            (_, Some(s)) => s.clone(),
                            (Some(p), _) => format!("{} at {}:{}", p.message, p.file, p.line),
                            _ => "panic".into(),
                        });
                    }
                    None
                }
            };
            ME.with(|m| m.set(usize::MAX));
            ctl.finish(t);
            out
        }));
    }
    let (decisions, abort) = coordinate(&ctl, what, prefix);
    let results = joins.into_iter().map(|j| j.join().ok().flatten()).collect();
    let panics = panics.lock().unwrap().clone();
    Controlled { results, decisions, abort, panics }
}

pub struct ControlledResult {
    pub executions: u64,
    pub decisions: u64,
    pub bound_completed: Option<usize>,
    pub distinct_results: usize,
    /// (key, what, choices)
    pub violations: Vec<(String, String, Vec<u8>)>,
}

/// Preemption-bounded depth-first search over the schedules of `make()`'s bodies; `check` judges one
/// execution, `show` gives the canonical form of its results (for the count of distinct results).
pub fn explore_controlled<T: Send + 'static>(
    what: &str,
    make: &dyn Fn() -> Vec<Box<dyn FnOnce() -> T + Send>>,
    max_bound: usize,
    fine: bool,
    show: &dyn Fn(&[Option<T>]) -> String,
    check: &dyn Fn(&Controlled<T>) -> Option<(String, String)>,
) -> ControlledResult {
    let mut res = ControlledResult { executions: 0, decisions: 0, bound_completed: None, distinct_results: 0, violations: vec![] };
    let mut distinct: BTreeSet<String> = BTreeSet::new();
    // harness determinism: the default schedule twice
    let (a, b) = (run_controlled(make(), &[], fine, what), run_controlled(make(), &[], fine, what));
    if a.decisions.len() != b.decisions.len() || a.decisions.iter().zip(&b.decisions).any(|(x, y)| x.enabled != y.enabled || x.at != y.at) {
        mc_kit::machinery_error(&format!("driver {what} is not deterministic under the controller"));
    }
    for bound in 0..=max_bound {
        let mut stack: Vec<Vec<u8>> = vec![vec![]];
        while let Some(prefix) = stack.pop() {
            let ex = run_controlled(make(), &prefix, fine, what);
            res.executions += 1;
            res.decisions += ex.decisions.len() as u64;
            let choices: Vec<u8> = ex.decisions.iter().map(|d| d.chosen as u8).collect();
            if let Some(a) = &ex.abort {
                if a.starts_with("replay divergence") {
                    mc_kit::machinery_error(&format!("{a} in driver {what} prefix {prefix:?}"));
                }
            }
            distinct.insert(show(&ex.results));
            let verdict = if let Some(a) = &ex.abort {
                Some((if a.starts_with("deadlock") { "deadlock".to_string() } else { "livelock".to_string() }, a.clone()))
            } else if !ex.panics.is_empty() {
                Some((format!("panic/{}", short(&ex.panics[0])), format!("panic in a concurrent call: {:?}", ex.panics)))
            } else {
                check(&ex)
            };
            if let Some((key, what_failed)) = verdict {
                if !res.violations.iter().any(|(k, _, _)| *k == key) {
                    res.violations.push((key, format!("driver {what}, preemption bound {bound}, schedule {choices:?}: {what_failed}"), choices.clone()));
                }
            }
            let mut pre = 0usize;
            let mut costs = vec![];
            for d in &ex.decisions {
                costs.push(pre);
                if d.chosen != 0 && d.cur_enabled {
                    pre += 1;
                }
            }
            for i in prefix.len()..ex.decisions.len() {
                let d = &ex.decisions[i];
                for alt in 1..d.enabled.len() {
                    if costs[i] + usize::from(d.cur_enabled) <= bound {
                        let mut p2: Vec<u8> = choices[..i].to_vec();
                        p2.push(alt as u8);
                        stack.push(p2);
                    }
                }
            }
        }
        res.bound_completed = Some(bound);
        if !res.violations.is_empty() {
            break;
        }
    }
    res.distinct_results = distinct.len();
    res
}

/// all merges of the threads' call lists (sequential orders that respect per-thread order), as
/// (thread, call index) pairs
fn merges(lens: &[usize]) -> Vec<Vec<(usize, usize)>> {
    all_orders(lens).into_iter().filter(|o| respects_program_order(o)).collect()
}

fn respects_program_order(order: &[(usize, usize)]) -> bool {
    let mut next: BTreeMap<usize, usize> = BTreeMap::new();
    for &(t, i) in order {
        let n = next.entry(t).or_insert(0);
        if i != *n {
            return false;
        }
        *n += 1;
    }
    true
}

/// every sequential order of the calls, including those that reorder one caller's own calls
fn all_orders(lens: &[usize]) -> Vec<Vec<(usize, usize)>> {
    let calls: Vec<(usize, usize)> = lens.iter().enumerate().flat_map(|(t, n)| (0..*n).map(move |i| (t, i))).collect();
    fn rec(rem: &mut Vec<(usize, usize)>, cur: &mut Vec<(usize, usize)>, out: &mut Vec<Vec<(usize, usize)>>) {
        if rem.is_empty() {
            out.push(cur.clone());
            return;
        }
        for k in 0..rem.len() {
            let c = rem.remove(k);
            cur.push(c);
            rec(rem, cur, out);
            cur.pop();
            rem.insert(k, c);
        }
    }
    let mut out = vec![];
    rec(&mut calls.clone(), &mut vec![], &mut out);
    out
}

fn order_from_json(v: &Value) -> Vec<(usize, usize)> {
    // either [[t, i], ...] or the older form [t, t, ...] (program order within each thread)
    if let Ok(p) = serde_json::from_value::<Vec<(usize, usize)>>(v.clone()) {
        return p;
    }
    let ts: Vec<usize> = serde_json::from_value(v.clone()).unwrap();
    let mut next: BTreeMap<usize, usize> = BTreeMap::new();
    ts.into_iter()
        .map(|t| {
            let n = next.entry(t).or_insert(0);
            *n += 1;
            (t, *n - 1)
        })
        .collect()
}

pub struct ScenarioResult {
    pub name: &'static str,
    pub executions: u64,
    pub decisions: u64,
    pub max_decisions: usize,
    pub by_bound: Vec<(usize, u64)>,
    pub distinct_outcomes: usize,
    pub distinct_logs: usize,
    pub sequential_outcomes: usize,
    pub bound_completed: Option<usize>,
    pub target_bound: usize,
    pub violations: Vec<(String, String, Value)>,
    pub sample: Option<Value>,
    pub capped: bool,
    /// executions whose outcome equals a sequential order of the calls only if two calls of one
    /// caller are swapped
    pub reordered_own_calls: u64,
    pub reordered_sample: Option<Value>,
}

fn schedule_json(scn: &Scenario, prefix: &[u8], ex: &Execution) -> Value {
    json!({
        "engine": "sched",
        "scenario": scn.name,
        "choices": prefix,
        "decisions": ex.decisions.iter().map(|d| json!({
            "enabled": d.enabled, "chosen": d.enabled[d.chosen], "running_still_enabled": d.cur_enabled, "threads_at": d.at
        })).collect::<Vec<_>>(),
    })
}

pub fn explore(scn: &Scenario, max_bound: usize, max_execs: u64, deadline: &mc_kit::Deadline) -> ScenarioResult {
    // three-thread drivers grow fastest: one bound less
    let max_bound = if scn.threads.len() > 2 { max_bound.saturating_sub(1).max(1) } else { max_bound };
    // with every atomic operation a schedule point the executions are several times longer: one bound less
    let max_bound = if scn.fine { max_bound.saturating_sub(1).max(1) } else { max_bound };
    let lens: Vec<usize> = scn.threads.iter().map(Vec::len).collect();
    let mut seq: BTreeSet<Outcome> = BTreeSet::new();
    let mut res = ScenarioResult {
        name: scn.name,
        executions: 0,
        decisions: 0,
        max_decisions: 0,
        by_bound: vec![],
        distinct_outcomes: 0,
        distinct_logs: 0,
        sequential_outcomes: 0,
        bound_completed: None,
        target_bound: max_bound,
        violations: vec![],
        sample: None,
        capped: false,
        reordered_own_calls: 0,
        reordered_sample: None,
    };
    for order in merges(&lens) {
        let ex = run(scn, None, Some(&order));
        if !ex.panics.is_empty() || !ex.outcome.problems.is_empty() {
            res.violations.push((
                "sequential/problem".into(),
                format!("scenario {} already fails sequentially in order {:?}: {:?} {:?}", scn.name, order, ex.panics, ex.outcome.problems),
                json!({"engine": "sched", "scenario": scn.name, "sequential_order": order}),
            ));
            return res;
        }
        seq.insert(ex.outcome);
    }
    res.sequential_outcomes = seq.len();
    // The property asks for equivalence to *some sequential order of the calls*. Orders that respect
    // each caller's own order are tried first; an outcome only explained by an order that swaps two
    // calls of one caller (possible because a call may return before its input has been applied when
    // another thread holds the task: the other thread finishes the work) is accepted and counted.
    let mut seq_any: Option<BTreeSet<Outcome>> = None;
    let multi_call = lens.iter().any(|n| *n > 1);
    let mut outcomes: BTreeSet<Outcome> = BTreeSet::new();
    let mut logs: BTreeSet<u64> = BTreeSet::new();
    // harness determinism: the default schedule twice
    let a = run(scn, Some(&[]), None);
    let b = run(scn, Some(&[]), None);
    if a.outcome != b.outcome || a.decisions.len() != b.decisions.len() {
        mc_kit::machinery_error(&format!("scenario {} is not deterministic under the controller", scn.name));
    }
    for bound in 0..=max_bound {
        let mut stack: Vec<Vec<u8>> = vec![vec![]];
        let mut execs_this_bound = 0u64;
        let mut complete = true;
        while let Some(prefix) = stack.pop() {
            if res.executions >= max_execs || deadline.expired() {
                res.capped = true;
                complete = false;
                break;
            }
            let ex = run(scn, Some(&prefix), None);
            res.executions += 1;
            execs_this_bound += 1;
            res.decisions += ex.decisions.len() as u64;
            res.max_decisions = res.max_decisions.max(ex.decisions.len());
            // only executions with exactly `bound` preemptions are new at this bound
            let choices: Vec<u8> = ex.decisions.iter().map(|d| d.chosen as u8).collect();
            let mut verdict: Option<(String, String)> = None;
            if let Some(a) = &ex.abort {
                let key = if a.starts_with("deadlock") { "deadlock" } else if a.starts_with("livelock") { "livelock" } else { "replay-divergence" };
                if key == "replay-divergence" {
                    mc_kit::machinery_error(&format!("{a} in scenario {} prefix {:?}", scn.name, prefix));
                }
                verdict = Some((key.into(), a.clone()));
            } else if !ex.panics.is_empty() {
                verdict = Some((format!("panic/{}", short(&ex.panics[0])), format!("panic in a concurrent call: {:?}", ex.panics)));
            } else if !ex.outcome.problems.is_empty() {
                let p = &ex.outcome.problems[0];
                let key = if p.contains("another update") { "update-entered-concurrently" } else if p.contains("quiescent") { "not-quiescent" } else if p.contains("probe") { "effect-left-behind" } else if p.contains("order") { "event-order" } else { "final-state" };
                verdict = Some((key.into(), p.clone()));
            } else if !seq.contains(&ex.outcome)
                && multi_call
                && seq_any
                    .get_or_insert_with(|| {
                        all_orders(&lens)
                            .iter()
                            .filter(|o| !respects_program_order(o))
                            .map(|o| run(scn, None, Some(o)))
                            .filter(|e| e.panics.is_empty() && e.outcome.problems.is_empty())
                            .map(|e| e.outcome)
                            .collect()
                    })
                    .contains(&ex.outcome)
            {
                res.reordered_own_calls += 1;
                if res.reordered_sample.is_none() {
                    res.reordered_sample = Some(schedule_json(scn, &choices, &ex));
                }
            } else if !seq.contains(&ex.outcome) {
                let s0 = seq.iter().next().unwrap();
                let key = if ex.outcome.effects != s0.effects && seq.iter().all(|s| s.effects != ex.outcome.effects) {
                    "effects-lost-or-duplicated"
                } else if seq.iter().all(|s| s.events != ex.outcome.events) {
                    "events-lost-or-duplicated"
                } else if seq.iter().all(|s| s.rejections != ex.outcome.rejections) {
                    "response-rejected"
                } else {
                    "later-behaviour-differs"
                };
                verdict = Some((
                    key.into(),
                    format!(
                        "outcome equals no sequential order of the calls: concurrent effects {:?} events {:?} rejections {:?} drain-effects {:?} drain-events {:?}; a sequential order gives effects {:?} events {:?} rejections {:?} drain-effects {:?} drain-events {:?}",
                        ex.outcome.effects.iter().map(|e| (e.label, e.arg)).collect::<Vec<_>>(), ex.outcome.events, ex.outcome.rejections,
                        ex.outcome.after_effects.iter().map(|e| (e.label, e.arg)).collect::<Vec<_>>(), ex.outcome.after_events,
                        s0.effects.iter().map(|e| (e.label, e.arg)).collect::<Vec<_>>(), s0.events, s0.rejections,
                        s0.after_effects.iter().map(|e| (e.label, e.arg)).collect::<Vec<_>>(), s0.after_events
                    ),
                ));
            }
            if let Some((key, what)) = verdict {
                if !res.violations.iter().any(|(k, _, _)| *k == key) {
                    // replay twice: the same schedule must fail the same way
                    let again = run(scn, Some(&choices), None);
                    if again.outcome != ex.outcome && again.abort != ex.abort {
                        mc_kit::machinery_error(&format!("violating schedule of {} did not replay identically", scn.name));
                    }
                    res.violations.push((
                        key,
                        format!("scenario {} preemption bound {bound}, schedule {:?}: {what}", scn.name, choices),
                        schedule_json(scn, &choices, &ex),
                    ));
                }
            }
            outcomes.insert(ex.outcome.clone());
            logs.insert(mc_kit::fnv64(format!("{:?}", ex.log).as_bytes()));
            if res.sample.is_none() && ex.decisions.len() > 4 && prefix.len() > 2 {
                res.sample = Some(schedule_json(scn, &choices, &ex));
            }
            // branch
            let mut pre = 0usize;
            let mut costs = vec![];
            for d in &ex.decisions {
                costs.push(pre);
                if d.chosen != 0 && d.cur_enabled {
                    pre += 1;
                }
            }
            for i in prefix.len()..ex.decisions.len() {
                let d = &ex.decisions[i];
                for alt in 1..d.enabled.len() {
                    let cost = costs[i] + usize::from(d.cur_enabled);
                    if cost <= bound {
                        // at bound b only expand prefixes that were not expandable at bound b-1:
                        // simple and correct alternative: re-explore everything (bounds are small)
                        let mut p2: Vec<u8> = choices[..i].to_vec();
                        p2.push(alt as u8);
                        stack.push(p2);
                    }
                }
            }
        }
        res.by_bound.push((bound, execs_this_bound));
        if complete {
            res.bound_completed = Some(bound);
        } else {
            break;
        }
        if !res.violations.is_empty() {
            break;
        }
    }
    res.distinct_outcomes = outcomes.len();
    res.distinct_logs = logs.len();
    res
}

fn short(p: &str) -> String {
    let loc = p.rsplit(" at ").next().unwrap_or("");
    let file = loc.rsplit('/').next().unwrap_or(loc).split(':').next().unwrap_or("");
    let msg: String = p
        .chars()
        .take_while(|c| *c != ':' && *c != '\n')
        .take(40)
        .map(|c| if c.is_ascii_alphanumeric() { c.to_ascii_lowercase() } else { '-' })
        .collect();
    format!("{}/{}", file, msg.trim_matches('-'))
}

fn s(id: u16) -> S {
    S { id, label: id }
}

pub fn scenarios(thorough: bool) -> Vec<Scenario> {
    let start = |p: P| Event::Start(p);
    let mut v = vec![
        Scenario {
            name: "S1 live subscription, two threads deliver items through Bridge::handle_response (same id)",
            sys: Sys::Bridge,
            fine: false,
            setup: vec![start(P::Stream(s(2)))],
            threads: vec![vec![Call::Resolve(0)], vec![Call::Resolve(0)]],
        },
        Scenario {
            name: "S2 join!(r1,r2): A resolves r1, B resolves r2 (Core::resolve)",
            sys: Sys::Core,
            fine: false,
            setup: vec![start(P::Join(s(2), s(4)))],
            threads: vec![vec![Call::Resolve(0)], vec![Call::Resolve(1)]],
        },
        Scenario {
            name: "S3 A process_event(new command) || B resolves a request of an older command",
            sys: Sys::Core,
            fine: false,
            setup: vec![start(P::Req(s(2)))],
            threads: vec![vec![Call::Event(start(P::ReqReq(s(4), s(6))))], vec![Call::Resolve(0)]],
        },
        Scenario {
            name: "S4 legacy join!(r1,r2): A resolves r1, B resolves r2",
            sys: Sys::Core,
            fine: false,
            setup: vec![Event::StartLegacy(P::Join(s(2), s(4)))],
            threads: vec![vec![Call::Resolve(0)], vec![Call::Resolve(1)]],
        },
        Scenario {
            name: "S5 A process_event(burst) || B view || C resolve",
            sys: Sys::Core,
            fine: false,
            setup: vec![start(P::Req(s(2)))],
            threads: vec![vec![Call::Event(start(P::Burst(s(3), s(4))))], vec![Call::View], vec![Call::Resolve(0)]],
        },
        Scenario {
            name: "S6 A and B both process_event, each a burst of events plus effects",
            sys: Sys::Core,
            fine: false,
            setup: vec![],
            threads: vec![
                vec![Call::Event(start(P::All(vec![P::Burst(s(1), s(2)), P::Notify(s(4))])))],
                vec![Call::Event(start(P::All(vec![P::Burst(s(5), s(6)), P::Notify(s(8))])))],
            ],
        },
        Scenario {
            name: "S8 select(r1,r2): A resolves r1 || B drops r2",
            sys: Sys::Core,
            fine: false,
            setup: vec![start(P::Select(s(2), s(4)))],
            threads: vec![vec![Call::Resolve(0)], vec![Call::DropReq(1)]],
        },
        Scenario {
            name: "S9 all([req,req]) in one command: A resolves r1, B resolves r2",
            sys: Sys::Core,
            fine: false,
            setup: vec![start(P::All(vec![P::Req(s(2)), P::Req(s(4))]))],
            threads: vec![vec![Call::Resolve(0)], vec![Call::Resolve(1)]],
        },
        Scenario {
            name: "S10 stream.then_request: A delivers an outer item || B resolves the in-flight inner request",
            sys: Sys::Core,
            fine: false,
            setup: vec![start(P::All(vec![P::Stream(s(2)), P::ReqReq(s(4), s(6))]))],
            threads: vec![vec![Call::Resolve(0)], vec![Call::Resolve(1)]],
        },
        Scenario {
            name: "S11 two subscriptions of two commands, one item each, through the bridge",
            sys: Sys::Bridge,
            fine: false,
            setup: vec![start(P::Stream(s(2))), start(P::Stream(s(4)))],
            threads: vec![vec![Call::Resolve(0)], vec![Call::Resolve(1)]],
        },
        Scenario {
            name: "S12 spawn+join handle: A resolves the child's request || B resolves a sibling request",
            sys: Sys::Core,
            fine: false,
            setup: vec![start(P::All(vec![P::SpawnJoin(s(2), s(3)), P::Req(s(4))]))],
            threads: vec![vec![Call::Resolve(0)], vec![Call::Resolve(1)]],
        },
        Scenario {
            name: "S13 legacy: A resolves a request whose task then spawns another || B delivers an event",
            sys: Sys::Core,
            fine: false,
            setup: vec![Event::StartLegacy(P::SpawnAfter(s(2), s(4)))],
            threads: vec![vec![Call::Resolve(0)], vec![Call::Event(Event::StartLegacy(P::Burst(s(5), s(6))))]],
        },
        Scenario {
            name: "S14 one thread makes two calls (event, then resolve of an old request) || other resolves",
            sys: Sys::Core,
            fine: false,
            setup: vec![start(P::Join(s(2), s(4)))],
            threads: vec![vec![Call::Event(start(P::Notify(s(6)))), Call::Resolve(0)], vec![Call::Resolve(1)]],
        },
    ];
    v.push(Scenario {
        name: "S17 two threads deliver events through the Bridge; each registers a request (ids must not collide, routing must hold)",
        sys: Sys::Bridge,
        fine: false,
        setup: vec![],
        threads: vec![
            vec![Call::Event(start(P::All(vec![P::Req(s(2)), P::Notify(s(4))])))],
            vec![Call::Event(start(P::ReqReq(s(6), s(8))))],
        ],
    });
    v.push(Scenario {
        name: "S18 bridge: A answers a one-shot whose continuation registers a new request || B delivers an event that registers one",
        sys: Sys::Bridge,
        fine: false,
        setup: vec![start(P::ReqReq(s(2), s(4)))],
        threads: vec![vec![Call::Resolve(0)], vec![Call::Event(start(P::Req(s(6))))]],
    });
    v.push(Scenario {
        name: "S19 legacy subscription (ShellStream), two threads deliver items through Bridge::handle_response (same id)",
        sys: Sys::Bridge,
        fine: false,
        setup: vec![Event::StartLegacy(P::Stream(s(2)))],
        threads: vec![vec![Call::Resolve(0)], vec![Call::Resolve(0)]],
    });
    v.push(Scenario {
        name: "S20 legacy: A delivers a stream item || B resolves a one-shot of the same capability batch",
        sys: Sys::Core,
        fine: false,
        setup: vec![Event::StartLegacy(P::All(vec![P::Stream(s(2)), P::Req(s(4))]))],
        threads: vec![vec![Call::Resolve(0)], vec![Call::Resolve(1)]],
    });
    v.push(Scenario {
        name: "S22 bridge: A ends a subscription's consumer, then sends a late item (entry removed) || B delivers an event that registers a request (slot reuse)",
        sys: Sys::Bridge,
        fine: false,
        setup: vec![start(P::StreamUntil(s(2), s(4)))],
        threads: vec![vec![Call::Resolve(1), Call::Resolve(0)], vec![Call::Event(start(P::Req(s(6))))]],
    });
    if thorough {
        v.push(Scenario {
            name: "S21 legacy: A delivers a stream item || B delivers an event starting a legacy burst",
            sys: Sys::Core,
            fine: false,
            setup: vec![Event::StartLegacy(P::Stream(s(2)))],
            threads: vec![vec![Call::Resolve(0)], vec![Call::Event(Event::StartLegacy(P::Burst(s(5), s(6))))]],
        });
        v.push(Scenario {
            name: "S15 three threads: two resolve a join, one delivers an event",
            sys: Sys::Core,
            fine: false,
            setup: vec![start(P::Join(s(2), s(4)))],
            threads: vec![vec![Call::Resolve(0)], vec![Call::Resolve(1)], vec![Call::Event(start(P::Req(s(6))))]],
        });
        v.push(Scenario {
            name: "S16 subscription: A delivers two items || B delivers one (typed core)",
            sys: Sys::Core,
            fine: false,
            setup: vec![start(P::Stream(s(2)))],
            threads: vec![vec![Call::Resolve(0), Call::Resolve(0)], vec![Call::Event(start(P::Req(s(4))))]],
        });
    }
    // every driver once more with the atomic operations visible (names are looked up by replays)
    let fine: Vec<Scenario> = v
        .iter()
        .map(|s| Scenario { name: fine_name(s.name), fine: true, ..s.clone() })
        .collect();
    v.extend(fine);
    v
}

fn fine_name(name: &'static str) -> &'static str {
    static NAMES: Mutex<BTreeMap<&'static str, &'static str>> = Mutex::new(BTreeMap::new());
    *NAMES
        .lock()
        .unwrap()
        .entry(name)
        .or_insert_with(|| Box::leak(format!("{name} [atomic operations are schedule points]").into_boxed_str()))
}

pub fn replay(case: &Value) -> i32 {
    let name = case["scenario"].as_str().unwrap_or("");
    let Some(scn) = scenarios(true).into_iter().find(|s| s.name == name) else {
        println!("unknown scenario {name}");
        return 2;
    };
    if let Some(order) = case.get("sequential_order") {
        let order = order_from_json(order);
        let ex = run(&scn, None, Some(&order));
        println!("sequential order {:?}: outcome {:#?} panics {:?}", order, ex.outcome, ex.panics);
        return 0;
    }
    let choices: Vec<u8> = serde_json::from_value(case["choices"].clone()).unwrap();
    let ex = run(&scn, Some(&choices), None);
    println!("scenario: {}", scn.name);
    for (i, d) in ex.decisions.iter().enumerate() {
        println!("  decision {i}: threads at {:?}, enabled {:?}, chose thread {}", d.at, d.enabled, d.enabled[d.chosen]);
    }
    println!("abort: {:?}\npanics: {:?}\noutcome: {:#?}", ex.abort, ex.panics, ex.outcome);
    let lens: Vec<usize> = scn.threads.iter().map(Vec::len).collect();
    let seq: BTreeSet<Outcome> = merges(&lens).iter().map(|o| run(&scn, None, Some(o)).outcome).collect();
    let any: BTreeSet<Outcome> = all_orders(&lens).iter().map(|o| run(&scn, None, Some(o))).filter(|e| e.panics.is_empty() && e.outcome.problems.is_empty()).map(|e| e.outcome).collect();
    if ex.abort.is_none() && ex.panics.is_empty() && ex.outcome.problems.is_empty() && !seq.contains(&ex.outcome) && any.contains(&ex.outcome) {
        println!("outcome equals a sequential order of the calls that swaps two calls of one caller (accepted, counted)");
        return 0;
    }
    if ex.abort.is_some() || !ex.panics.is_empty() || !ex.outcome.problems.is_empty() || !seq.contains(&ex.outcome) {
        println!("DIVERGENCE: this schedule's outcome equals no sequential order (or aborted)");
        1
    } else {
        println!("outcome equals a sequential order");
        0
    }
}

/// Canary: an outcome in which one call's consequences are missing must not be accepted.
pub fn canary() -> Result<(), String> {
    let scn = scenarios(false).into_iter().find(|s| s.name.starts_with("S2")).unwrap();
    let lens: Vec<usize> = scn.threads.iter().map(Vec::len).collect();
    let seq: BTreeSet<Outcome> = merges(&lens).iter().map(|o| run(&scn, None, Some(o)).outcome).collect();
    let full = run(&scn, Some(&[]), None);
    if !seq.contains(&full.outcome) {
        return Err("sched canary: the default schedule is not accepted".into());
    }
    let mut crippled = scn.clone();
    crippled.threads[1].clear();
    let lost = run(&crippled, Some(&[]), None);
    if seq.contains(&lost.outcome) {
        return Err("sched canary: an execution that lost a call's consequences was accepted".into());
    }
    Ok(())
}
