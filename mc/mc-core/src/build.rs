//! DSL term -> real `crux_core::Command`, using only the public API.

use std::cell::RefCell;
use std::collections::BTreeMap;
use std::future::Future;
use std::pin::Pin;
use std::task::{Context, Poll};

use crux_core::command::{CommandContext, CommandOutput};
use crux_core::Command;
use futures::future::Either;
use futures::stream::FuturesUnordered;
use futures::{FutureExt, StreamExt};

use crate::app::{is_b, Effect, Effect2, Event, Event2, OpA, OpB, VOp};
use crate::dsl::{P, S};

pub type Cmd = Command<Effect, Event>;
type Ctx = CommandContext<Effect, Event>;

thread_local! {
    /// Abort handles of `Abortable` nodes built on this thread, by handle index.
    pub static ABORTS: RefCell<BTreeMap<u8, Box<dyn Fn()>>> = RefCell::new(BTreeMap::new());
}

thread_local! {
    /// Legacy capability contexts of the app whose `update` is currently building a command.
    pub static CAPS: RefCell<Option<(crux_core::capability::CapabilityContext<OpA, Event>, crux_core::capability::CapabilityContext<OpB, Event>)>> = const { RefCell::new(None) };
}

thread_local! {
    /// Effects of nested commands that a program drives by hand (`JoinHosted`): the program's own
    /// channel to the shell. The command-level hosts drain it after every run of the command.
    pub static SIDE: RefCell<Vec<Effect>> = const { RefCell::new(Vec::new()) };
}

pub fn take_side() -> Vec<Effect> {
    SIDE.with(|v| std::mem::take(&mut *v.borrow_mut()))
}

pub fn clear_aborts() {
    ABORTS.with(|a| a.borrow_mut().clear());
    let _ = take_side();
}

pub fn fire_abort(k: u8) -> bool {
    ABORTS.with(|a| {
        if let Some(f) = a.borrow().get(&k) {
            f();
            true
        } else {
            false
        }
    })
}

pub fn abort_known(k: u8) -> bool {
    ABORTS.with(|a| a.borrow().contains_key(&k))
}

async fn areq(ctx: &Ctx, s: S, arg: u32) -> u32 {
    if is_b(s.label) {
        OpB::val(ctx.request_from_shell(OpB::make(s.label, arg)).await)
    } else {
        OpA::val(ctx.request_from_shell(OpA::make(s.label, arg)).await)
    }
}

pub fn areq_owned(ctx: Ctx, s: S, arg: u32) -> futures::future::BoxFuture<'static, u32> {
    async move { areq(&ctx, s, arg).await }.boxed()
}

fn astream(ctx: &Ctx, s: S, arg: u32) -> futures::stream::BoxStream<'static, u32> {
    if is_b(s.label) {
        ctx.stream_from_shell(OpB::make(s.label, arg)).map(OpB::val).boxed()
    } else {
        ctx.stream_from_shell(OpA::make(s.label, arg)).map(OpA::val).boxed()
    }
}

/// expands `$body` once with `$Op = OpA` and once with `$Op = OpB`, selected by the site's label
macro_rules! with_op {
    ($s:expr, $Op:ident => $body:expr) => {
        if is_b($s.label) {
            type $Op = OpB;
            $body
        } else {
            type $Op = OpA;
            $body
        }
    };
}

struct SelfWake(u8);

impl Future for SelfWake {
    type Output = ();
    fn poll(mut self: Pin<&mut Self>, cx: &mut Context<'_>) -> Poll<()> {
        if self.0 == 0 {
            Poll::Ready(())
        } else {
            self.0 -= 1;
            cx.waker().wake_by_ref();
            Poll::Pending
        }
    }
}

pub const MAP_OFFSET: u32 = 1_000_000;

fn tag_effect(e: Effect) -> Effect {
    match e {
        Effect::CapA(mut r) => {
            r.operation.tags += 1;
            Effect::CapA(r)
        }
        Effect::CapB(mut r) => {
            r.operation.tags += 1;
            Effect::CapB(r)
        }
    }
}

pub fn build(p: &P) -> Cmd {
    match p.clone() {
        P::Done => Command::done(),
        P::Event(s) => Command::event(Event::mark(s, 0)),
        P::Trigger(_, q) => Command::event(Event::Start(*q)),
        P::Notify(s) => with_op!(s, Op => Command::notify_shell(Op::make(s.label, 0)).into()),
        P::Req(s) => with_op!(s, Op => Command::request_from_shell(Op::make(s.label, 0))
            .then_send(move |v| Event::got(s, Op::val(v)))),
        P::Stream(s) => with_op!(s, Op => Command::stream_from_shell(Op::make(s.label, 0))
            .then_send(move |v| Event::got(s, Op::val(v)))),
        P::ReqMap(s) => with_op!(s, Op => Command::request_from_shell(Op::make(s.label, 0))
            .map(|v| Op::val(v) + MAP_OFFSET)
            .then_send(move |v| Event::got(s, v))),
        P::StreamMap(s) => with_op!(s, Op => Command::stream_from_shell(Op::make(s.label, 0))
            .map(|v| Op::val(v) + MAP_OFFSET)
            .then_send(move |v| Event::got(s, v))),
        P::ReqReq(s, t) => with_op!(s, Op1 => with_op!(t, Op2 =>
            Command::request_from_shell(Op1::make(s.label, 0))
                .then_request(move |v| Command::request_from_shell(Op2::make(t.label, Op1::val(v))))
                .then_send(move |w| Event::got(t, Op2::val(w))))),
        P::ReqStream(s, t) => with_op!(s, Op1 => with_op!(t, Op2 =>
            Command::request_from_shell(Op1::make(s.label, 0))
                .then_stream(move |v| Command::stream_from_shell(Op2::make(t.label, Op1::val(v))))
                .then_send(move |w| Event::got(t, Op2::val(w))))),
        P::StreamReq(s, t) => with_op!(s, Op1 => with_op!(t, Op2 =>
            Command::stream_from_shell(Op1::make(s.label, 0))
                .then_request(move |v| Command::request_from_shell(Op2::make(t.label, Op1::val(v))))
                .then_send(move |w| Event::got(t, Op2::val(w))))),
        P::StreamStream(s, t) => with_op!(s, Op1 => with_op!(t, Op2 =>
            Command::stream_from_shell(Op1::make(s.label, 0))
                .then_stream(move |v| Command::stream_from_shell(Op2::make(t.label, Op1::val(v))))
                .then_send(move |w| Event::got(t, Op2::val(w))))),
        P::IntoFuture(s, n, t) => Command::new(move |ctx| async move {
            let v = with_op!(s, Op => Op::val(Command::<Effect, Event>::request_from_shell(Op::make(s.label, 0)).into_future(ctx.clone()).await));
            with_op!(n, Op => Command::<Effect, Event>::notify_shell(Op::make(n.label, v)).into_future(ctx.clone()).await);
            with_op!(t, Op => {
                let mut st = std::pin::pin!(Command::<Effect, Event>::stream_from_shell(Op::make(t.label, v)).into_stream(ctx.clone()));
                while let Some(w) = st.next().await {
                    ctx.send_event(Event::got(t, Op::val(w)));
                }
            });
        }),
        P::SpawnEvent(m, s) => Command::new(move |ctx| async move {
            ctx.spawn(move |ctx| async move {
                ctx.send_event(Event::mark(m, 0));
            });
            let v = areq(&ctx, s, 0).await;
            ctx.send_event(Event::got(s, v));
        }),
        P::Join(s, t) => Command::new(move |ctx| async move {
            let (v, w) = futures::join!(areq(&ctx, s, 0), areq(&ctx, t, 0));
            ctx.send_event(Event::got(s, v));
            ctx.send_event(Event::got(t, w));
        }),
        P::Select(s, t) => Command::new(move |ctx| async move {
            let l = Box::pin(areq(&ctx, s, 0));
            let r = Box::pin(areq(&ctx, t, 0));
            match futures::future::select(l, r).await {
                Either::Left((v, _loser)) => ctx.send_event(Event::got(s, v)),
                Either::Right((w, _loser)) => ctx.send_event(Event::got(t, w)),
            }
        }),
        P::SpawnJoin(s, m) => Command::new(move |ctx| async move {
            let jh = ctx.spawn(move |ctx| async move {
                let v = areq(&ctx, s, 0).await;
                ctx.send_event(Event::got(s, v));
            });
            jh.await;
            ctx.send_event(Event::mark(m, 0));
        }),
        P::SpawnAfter(s, m) => Command::new(move |ctx| async move {
            let v = areq(&ctx, s, 0).await;
            ctx.spawn(move |ctx| async move {
                if is_b(m.label) {
                    ctx.notify_shell(OpB::make(m.label, v));
                } else {
                    ctx.notify_shell(OpA::make(m.label, v));
                }
            });
        }),
        P::JoinReq(s, t, m) => Command::new(move |ctx| async move {
            let jh = ctx.spawn(move |ctx| async move {
                let v = areq(&ctx, s, 0).await;
                ctx.send_event(Event::got(s, v));
            });
            let ((), w) = futures::join!(jh, areq(&ctx, t, 0));
            ctx.send_event(Event::got(t, w));
            ctx.send_event(Event::mark(m, 0));
        }),
        P::SelectJoinReq(s, t, m) => Command::new(move |ctx| async move {
            let jh = ctx.spawn(move |ctx| async move {
                let v = areq(&ctx, s, 0).await;
                ctx.send_event(Event::got(s, v));
            });
            let r = Box::pin(areq(&ctx, t, 0));
            match futures::future::select(jh, r).await {
                Either::Left(((), _loser)) => ctx.send_event(Event::mark(m, 0)),
                Either::Right((w, _jh)) => ctx.send_event(Event::got(t, w)),
            }
        }),
        P::AbortSpawned(s, m) => Command::new(move |ctx| async move {
            let jh = ctx.spawn(move |ctx| async move {
                let v = areq(&ctx, s, 0).await;
                ctx.send_event(Event::got(s, v));
            });
            jh.abort();
            jh.await;
            ctx.send_event(Event::mark(m, 0));
        }),
        P::SelfAbort(s, m) => {
            let slot: std::sync::Arc<std::sync::Mutex<Option<Box<dyn Fn() + Send>>>> = Default::default();
            let slot2 = slot.clone();
            let cmd = Command::new(move |ctx| async move {
                let v = areq(&ctx, s, 0).await;
                ctx.send_event(Event::got(s, v));
                if let Some(abort) = slot2.lock().unwrap().as_ref() {
                    abort();
                }
                ctx.send_event(Event::mark(m, 0));
            });
            let h = cmd.abort_handle();
            *slot.lock().unwrap() = Some(Box::new(move || h.abort()));
            cmd
        }
        P::SpawnThenSelfAbort(s, m) => {
            let slot: std::sync::Arc<std::sync::Mutex<Option<Box<dyn Fn() + Send>>>> = Default::default();
            let slot2 = slot.clone();
            let cmd = Command::new(move |ctx| async move {
                let v = areq(&ctx, s, 0).await;
                ctx.spawn(move |ctx| async move {
                    if is_b(m.label) {
                        ctx.notify_shell(OpB::make(m.label, v));
                    } else {
                        ctx.notify_shell(OpA::make(m.label, v));
                    }
                });
                if let Some(abort) = slot2.lock().unwrap().as_ref() {
                    abort();
                }
            });
            let h = cmd.abort_handle();
            *slot.lock().unwrap() = Some(Box::new(move || h.abort()));
            cmd
        }
        P::QuietSelfAbort(s) => {
            let slot: std::sync::Arc<std::sync::Mutex<Option<Box<dyn Fn() + Send>>>> = Default::default();
            let slot2 = slot.clone();
            let cmd = Command::new(move |ctx| async move {
                let _ = areq(&ctx, s, 0).await;
                if let Some(abort) = slot2.lock().unwrap().as_ref() {
                    abort();
                }
            });
            let h = cmd.abort_handle();
            *slot.lock().unwrap() = Some(Box::new(move || h.abort()));
            cmd
        }
        P::JoinSpawn(s, t, n) => Command::new(move |ctx| async move {
            let c2 = ctx.clone();
            let (v, ()) = futures::join!(areq(&ctx, s, 0), async move {
                let w = areq(&c2, t, 0).await;
                c2.spawn(move |ctx| async move {
                    if is_b(n.label) {
                        ctx.notify_shell(OpB::make(n.label, w));
                    } else {
                        ctx.notify_shell(OpA::make(n.label, w));
                    }
                });
            });
            ctx.send_event(Event::got(s, v));
        }),
        P::StreamHandOff(s, u) => Command::new(move |ctx| async move {
            let mut st = astream(&ctx, s, 0);
            // (a stream that ends before its first item ends the task: in the legacy API a dropped
            // request wakes nobody, so only this reading is output-equivalent in both APIs)
            if let Some(v) = st.next().await {
                ctx.send_event(Event::got(s, v));
                ctx.spawn(move |ctx| async move {
                    while let Some(v) = st.next().await {
                        ctx.send_event(Event::got(s, v));
                    }
                });
                let x = areq(&ctx, u, 0).await;
                ctx.send_event(Event::got(u, x));
            }
        }),
        P::HandOff(s, t, u) => Command::new(move |ctx| async move {
            let l = areq_owned(ctx.clone(), s, 0);
            let r = areq_owned(ctx.clone(), t, 0);
            match futures::future::select(l, r).await {
                Either::Left((v, rest)) => {
                    ctx.send_event(Event::got(s, v));
                    ctx.spawn(move |ctx| async move {
                        let w = rest.await;
                        ctx.send_event(Event::got(t, w));
                    });
                }
                Either::Right((w, rest)) => {
                    ctx.send_event(Event::got(t, w));
                    ctx.spawn(move |ctx| async move {
                        let v = rest.await;
                        ctx.send_event(Event::got(s, v));
                    });
                }
            }
            let x = areq(&ctx, u, 0).await;
            ctx.send_event(Event::got(u, x));
        }),
        P::StreamUntil(s, t) => Command::new(move |ctx| async move {
            let mut st = astream(&ctx, s, 0);
            let mut stop = areq_owned(ctx.clone(), t, 0);
            let mut stream_ended = false;
            loop {
                if stream_ended {
                    let w = stop.await;
                    ctx.send_event(Event::got(t, w));
                    break;
                }
                match futures::future::select(st.next(), &mut stop).await {
                    Either::Left((Some(v), _)) => ctx.send_event(Event::got(s, v)),
                    Either::Left((None, _)) => stream_ended = true,
                    Either::Right((w, _)) => {
                        ctx.send_event(Event::got(t, w));
                        break;
                    }
                }
            }
        }),
        P::SpawnChain(s, t) => Command::new(move |ctx| async move {
            ctx.spawn(move |ctx| async move {
                let v = areq(&ctx, s, 0).await;
                ctx.send_event(Event::got(s, v));
                ctx.spawn(move |ctx| async move {
                    let w = areq(&ctx, t, v).await;
                    ctx.send_event(Event::got(t, w));
                });
            });
        }),
        P::JoinBusy(s, m) => Command::new(move |ctx| async move {
            let jh = ctx.spawn(move |ctx| async move {
                let v = areq(&ctx, s, 0).await;
                ctx.send_event(Event::got(s, v));
            });
            futures::join!(jh, SelfWake(40));
            ctx.send_event(Event::mark(m, 0));
        }),
        P::JoinTwice(s, m) => Command::new(move |ctx| async move {
            let jh = ctx.spawn(move |ctx| async move {
                let v = areq(&ctx, s, 0).await;
                ctx.send_event(Event::got(s, v));
            });
            futures::join!(jh.clone(), jh);
            ctx.send_event(Event::mark(m, 0));
        }),
        P::Burst(m, s) => Command::new(move |ctx| async move {
            ctx.send_event(Event::mark(m, 0));
            ctx.send_event(Event::mark(m, 1));
            let v = areq(&ctx, s, 0).await;
            ctx.send_event(Event::mark(m, 2));
            ctx.send_event(Event::got(s, v));
            ctx.send_event(Event::mark(m, 3));
        }),
        P::SelfWake(m, k) => Command::new(move |ctx| async move {
            SelfWake(k).await;
            ctx.send_event(Event::mark(m, 0));
        }),
        P::Channel(s, m) => Command::new(move |ctx| async move {
            let (tx, rx) = async_channel::unbounded::<u32>();
            ctx.spawn(move |ctx| async move {
                let v = areq(&ctx, s, 0).await;
                let _ = tx.send(v).await;
            });
            ctx.spawn(move |ctx| async move {
                while let Ok(v) = rx.recv().await {
                    ctx.send_event(Event::got(s, v));
                }
                ctx.send_event(Event::mark(m, 0));
            });
        }),
        P::JoinForward(s, u, m) => Command::new(move |ctx| async move {
            let (tx, rx) = async_channel::unbounded::<u32>();
            ctx.spawn(move |ctx| async move {
                let left = async {
                    let w = areq(&ctx, u, 0).await;
                    ctx.send_event(Event::got(u, w));
                };
                let right = async {
                    let v = areq(&ctx, s, 0).await;
                    let _ = tx.send(v).await;
                };
                futures::join!(left, right);
            });
            ctx.spawn(move |ctx| async move {
                while let Ok(v) = rx.recv().await {
                    ctx.send_event(Event::got(s, v));
                }
                ctx.send_event(Event::mark(m, 0));
            });
        }),
        P::AbortChild(s, t, m) => Command::new(move |ctx| async move {
            let jh = ctx.spawn(move |ctx| async move {
                let mut st = astream(&ctx, s, 0);
                while let Some(v) = st.next().await {
                    ctx.send_event(Event::got(s, v));
                }
            });
            let jh2 = jh.clone();
            ctx.spawn(move |ctx| async move {
                let v = areq(&ctx, t, 0).await;
                jh2.abort();
                ctx.send_event(Event::got(t, v));
            });
            ctx.spawn(move |ctx| async move {
                jh.await;
                ctx.send_event(Event::mark(m, 0));
            });
        }),
        P::Unordered(s, t) => Command::new(move |ctx| async move {
            let mut fu = FuturesUnordered::new();
            let c1 = ctx.clone();
            let c2 = ctx.clone();
            fu.push(async move { (s, areq(&c1, s, 0).await) }.boxed());
            fu.push(async move { (t, areq(&c2, t, 0).await) }.boxed());
            while let Some((site, v)) = fu.next().await {
                ctx.send_event(Event::got(site, v));
            }
        }),
        P::Manual(q) => build(&q),
        // the legacy part was started by `update` itself (app.rs: start_legacy_parts)
        P::Legacy(_) => Command::done(),
        P::MixedNotify(s, n) => {
            let (ca, cb) = CAPS.with(|c| c.borrow().clone()).expect("MixedNotify can only be built inside update");
            Command::new(move |ctx| async move {
                let v = areq(&ctx, s, 0).await;
                if is_b(n.label) {
                    let c2 = cb.clone();
                    cb.spawn(async move { c2.notify_shell(OpB::make(n.label, v)).await });
                } else {
                    let c2 = ca.clone();
                    ca.spawn(async move { c2.notify_shell(OpA::make(n.label, v)).await });
                }
            })
        }
        P::JoinHosted(s, q) => {
            // built eagerly, like every nested command (its abort handles exist before anything runs)
            let mut child = build(&q);
            Command::new(move |ctx| async move {
                let own = areq_owned(ctx.clone(), s, 0);
                let host = {
                    let ctx = ctx.clone();
                    async move {
                        while let Some(o) = child.next().await {
                            match o {
                                CommandOutput::Effect(e) => SIDE.with(|v| v.borrow_mut().push(e)),
                                CommandOutput::Event(ev) => ctx.send_event(ev),
                            }
                        }
                    }
                };
                let (v, ()) = futures::future::join(own, host).await;
                ctx.send_event(Event::got(s, v));
            })
        }
        P::SiblingAbort(s, q) => {
            let inner = build(&q);
            let h = inner.abort_handle();
            Command::all([
                Command::new(move |ctx| async move {
                    let v = areq(&ctx, s, 0).await;
                    h.abort();
                    ctx.send_event(Event::got(s, v));
                }),
                inner,
            ])
        }
        P::Then(a, b) => build(&a).then(build(&b)),
        P::And(a, b) => build(&a).and(build(&b)),
        // both spellings of `all`
        P::All(v) if v.len() % 2 == 0 => v.iter().map(build).collect(),
        P::All(v) => Command::all(v.iter().map(build)),
        P::MapEffect(q) => build(&q).map_effect(tag_effect),
        P::MapEvent(q) => build(&q).map_event(Event::tagged),
        P::FromInto(q) => {
            let c2: Command<Effect2, Event2> = build(&q).into();
            Command::from(c2)
        }
        P::Abortable(k, q) => {
            let c = build(&q);
            let h = c.abort_handle();
            ABORTS.with(|a| a.borrow_mut().insert(k, Box::new(move || h.abort())));
            c
        }
    }
}
