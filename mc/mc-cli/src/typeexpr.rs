//! Field-type-expression dimension of C20.
//!
//! In the bundled descriptions a field that leads to another container names it directly or
//! through exactly one `Option<_>` / `Vec<_>`. This module alters bundled descriptions in memory so
//! that one field mentions its type T through every type expression of a small grammar, runs the
//! real pipeline, and checks that the registry stays closed, that T and everything below it is
//! still defined exactly as before, that the field's format is the rendering of the expression and
//! that nothing else moved.
//!
//! Constructors crux_cli's type parser (`impl From<&Type> for Format`, formatter.rs, and
//! `check_type`, node.rs) supports today, and which the grammar is built from:
//!   `Option<_>` -> OPTION, `Vec<_>` -> SEQ, tuples `(_, u8)` -> TUPLE (and named types, `String`,
//!   primitives as leaves).
//! Not supported today and therefore left out of the grammar (each is probed once per run and the
//! observed behaviour recorded as a note, never as a violation): arrays `[T; 2]` and slices
//! (`todo!()` in the formatter), `Box<T>`, `HashMap<String, T>`, `BTreeMap<String, T>` (no arm in
//! the formatter: any other generic path is rendered as TYPENAME of its last segment; their
//! defining crates alloc/std have no bundled description, so the run cannot get past loading them
//! here).

use super::*;
use rustdoc_types::{ExternalCrate, GenericArg, GenericArgs, ItemSummary, Path, VariantKind};

#[derive(Serialize, Deserialize, Clone, Debug, PartialEq, Eq, PartialOrd, Ord)]
pub struct TypeExpr {
    pub krate: String,
    pub container: u32,
    #[serde(default, skip_serializing_if = "Option::is_none")]
    pub variant: Option<u32>,
    pub field: u32,
    /// constructors around T, outermost first: `O` = `Option<_>`, `V` = `Vec<_>`, `P` = `(_, u8)`
    pub expr: String,
    /// `None`: T is the (local) type the field already has. `Some`: T is the export type of this
    /// dependent crate, which the app does not otherwise mention
    #[serde(default, skip_serializing_if = "Option::is_none")]
    pub remote: Option<Remote>,
    /// probe of an unsupported constructor as the outermost layer (notes only)
    #[serde(default, skip_serializing_if = "Option::is_none")]
    pub probe: Option<String>,
    /// the field additionally carries `#[serde(skip)]`: serde never writes it, so neither the
    /// field nor anything reachable only through it belongs in the registry. Here `expr` may also
    /// contain `R` = `std::rc::Rc<_>`, a type that is not serialisable and that the generator has
    /// no definition for (the usual reason a member is skipped)
    #[serde(default, skip_serializing_if = "std::ops::Not::not")]
    pub skipped: bool,
    /// with `skipped`: every field of the struct carries `#[serde(skip)]` (types unchanged); the
    /// struct is still a type serde knows, with no serialised fields
    #[serde(default, skip_serializing_if = "std::ops::Not::not")]
    pub all_fields: bool,
    /// T is a NEW struct without fields added to the app crate, reachable only through this
    /// field: `unit` = `struct Marker;`, `tuple-0` = `struct Marker();`, `braced-0` = `struct Marker {}`
    #[serde(default, skip_serializing_if = "Option::is_none")]
    pub fieldless: Option<String>,
}

pub const MARKER: &str = "Marker";
pub const FIELDLESS: [&str; 3] = ["unit", "tuple-0", "braced-0"];

#[derive(Serialize, Deserialize, Clone, Debug, PartialEq, Eq, PartialOrd, Ord)]
pub struct Remote {
    pub krate: String,
    /// another field of the app names T directly, so the crate is loaded whatever the wrapped
    /// field does
    pub also_plain: bool,
}

pub const PROBES: [&str; 4] = ["array", "box", "hashmap", "btreemap"];

pub fn written(expr: &str, t: &str) -> String {
    let mut s = t.to_string();
    for c in expr.chars().rev() {
        s = match c {
            'O' => format!("Option<{s}>"),
            'V' => format!("Vec<{s}>"),
            'P' => format!("({s}, u8)"),
            'R' => format!("std::rc::Rc<{s}>"),
            _ => machinery_error("type-expr: unknown constructor"),
        };
    }
    s
}

/// The reference rendering of the expression: derived from the expression alone.
pub fn rendered(expr: &str, t_name: &str) -> Value {
    let mut f = json!({ "TYPENAME": t_name });
    for c in expr.chars().rev() {
        f = match c {
            'O' => json!({ "OPTION": f }),
            'V' => json!({ "SEQ": f }),
            'P' => json!({ "TUPLE": [f, "U8"] }),
            _ => machinery_error("type-expr: unknown constructor"),
        };
    }
    f
}

pub fn extra_ids(te: &TypeExpr, krate: &str) -> u32 {
    if te.krate != krate {
        return 0;
    }
    let remote = te.remote.as_ref().map_or(0, |r| 1 + u32::from(r.also_plain));
    let probe = u32::from(matches!(te.probe.as_deref(), Some("box" | "hashmap" | "btreemap")));
    let rc = te.expr.chars().filter(|c| *c == 'R').count() as u32;
    remote + probe + rc + u32::from(te.fieldless.is_some())
}

fn std_path_id(c: &Crate, path: &[&str]) -> Option<Id> {
    c.paths.iter().find(|(_, s)| s.path == path).map(|(id, _)| *id)
}

pub fn has_std_containers(c: &Crate) -> bool {
    std_path_id(c, &["core", "option", "Option"]).is_some() && std_path_id(c, &["alloc", "vec", "Vec"]).is_some()
}

fn generic(path: &str, id: Id, args: Vec<Type>) -> Type {
    Type::ResolvedPath(Path {
        path: path.to_string(),
        id,
        args: Some(Box::new(GenericArgs::AngleBracketed {
            args: args.into_iter().map(GenericArg::Type).collect(),
            constraints: vec![],
        })),
    })
}

fn wrap(c: &Crate, expr: &str, inner: Type, next: &mut u32) -> Type {
    let option = std_path_id(c, &["core", "option", "Option"]).unwrap_or_else(|| machinery_error("type-expr: description does not know Option"));
    let vec = std_path_id(c, &["alloc", "vec", "Vec"]).unwrap_or_else(|| machinery_error("type-expr: description does not know Vec"));
    let mut t = inner;
    for ch in expr.chars().rev() {
        t = match ch {
            'O' => generic("Option", option, vec![t]),
            'V' => generic("Vec", vec, vec![t]),
            'P' => Type::Tuple(vec![t, Type::Primitive("u8".into())]),
            'R' => {
                // as in real rustdoc output for a type of a crate the description has no path
                // entry for: an id nothing else mentions, so no crate is requested on its behalf
                let id = Id(*next);
                *next += 1;
                generic("std::rc::Rc", id, vec![t])
            }
            _ => machinery_error("type-expr: unknown constructor"),
        };
    }
    t
}

fn remote_type(c: &mut Crate, target: &str, id: Id) -> Type {
    let ex = depgraph::export(target).unwrap_or_else(|| machinery_error("type-expr: no export type"));
    let crate_id = match c.external_crates.iter().find(|(_, e)| e.name == ex.path[0]) {
        Some((id, _)) => *id,
        None => {
            let id = c.external_crates.keys().max().map_or(1, |m| m + 1);
            c.external_crates.insert(id, ExternalCrate { name: ex.path[0].to_string(), html_root_url: None });
            id
        }
    };
    c.paths.insert(id, ItemSummary { crate_id, path: ex.path.iter().map(|s| s.to_string()).collect(), kind: ex.kind });
    generic(&ex.path.join("::"), id, vec![])
}

fn external_crate_id(c: &Crate, name: &str) -> u32 {
    c.external_crates.iter().find(|(_, e)| e.name == name).map(|(id, _)| *id).unwrap_or(0)
}

/// The field of the app that names the remote type directly when `also_plain` is set.
fn plain_slot() -> &'static depgraph::Slot {
    &depgraph::slots(depgraph::ROOT)[1]
}

pub fn apply(c: &mut Crate, te: &TypeExpr, base_max: u32) {
    let current = match c.index.get(&Id(te.field)).map(|i| &i.inner) {
        Some(ItemEnum::StructField(t)) => t.clone(),
        _ => machinery_error("type-expr: field not in the description"),
    };
    let mut next = base_max + 1;
    let inner = match &te.remote {
        None if te.fieldless.is_some() => {
            // a new local struct without fields, as rustdoc describes one
            let id = Id(next);
            next += 1;
            let kind = match te.fieldless.as_deref() {
                Some("unit") => StructKind::Unit,
                Some("tuple-0") => StructKind::Tuple(vec![]),
                _ => StructKind::Plain { fields: vec![], has_stripped_fields: false },
            };
            c.index.insert(
                id,
                Item {
                    id,
                    crate_id: 0,
                    name: Some(MARKER.to_string()),
                    span: None,
                    visibility: rustdoc_types::Visibility::Public,
                    docs: None,
                    links: Default::default(),
                    attrs: vec![],
                    deprecation: None,
                    inner: ItemEnum::Struct(rustdoc_types::Struct {
                        kind,
                        generics: rustdoc_types::Generics { params: vec![], where_predicates: vec![] },
                        impls: vec![],
                    }),
                },
            );
            let root_path = c.paths.get(&c.root).map(|s| s.path.clone()).unwrap_or_default();
            c.paths.insert(
                id,
                ItemSummary { crate_id: 0, path: root_path.into_iter().chain(std::iter::once(MARKER.to_string())).collect(), kind: rustdoc_types::ItemKind::Struct },
            );
            generic(MARKER, id, vec![])
        }
        None => current,
        Some(r) => {
            let t = remote_type(c, &r.krate, Id(next));
            next += 1;
            if r.also_plain {
                let loc = depgraph::locate(c, &te.krate, plain_slot());
                let plain = remote_type(c, &r.krate, Id(next));
                next += 1;
                c.index.get_mut(&loc.field).expect("plain slot").inner = ItemEnum::StructField(plain);
            }
            t
        }
    };
    let mut t = wrap(c, &te.expr, inner, &mut next);
    if te.skipped && te.all_fields {
        let holder = c.index.get(&Id(te.variant.unwrap_or(te.container))).expect("holder").clone();
        for f in field_ids_of(&holder) {
            if let Some(i) = c.index.get_mut(&f) {
                i.attrs.push("#[serde(skip)]".to_string());
            }
        }
        return; // types unchanged
    }
    if te.skipped {
        c.index.get_mut(&Id(te.field)).expect("field").attrs.push("#[serde(skip)]".to_string());
    }
    if let Some(p) = &te.probe {
        let string = c.index.values().find_map(|i| match &i.inner {
            ItemEnum::StructField(t @ Type::ResolvedPath(p)) if p.path == "String" => Some(t.clone()),
            _ => None,
        });
        let std_generic = |c: &mut Crate, name: &str, krate: &str, path: &[&str], args: Vec<Type>| {
            let id = Id(next);
            let crate_id = external_crate_id(c, krate);
            c.paths.insert(id, ItemSummary { crate_id, path: path.iter().map(|s| s.to_string()).collect(), kind: rustdoc_types::ItemKind::Struct });
            generic(name, id, args)
        };
        t = match (p.as_str(), string) {
            ("array", _) => Type::Array { type_: Box::new(t), len: "2".into() },
            ("box", _) => std_generic(c, "Box", "alloc", &["alloc", "boxed", "Box"], vec![t]),
            ("hashmap", Some(s)) => std_generic(c, "HashMap", "std", &["std", "collections", "hash", "map", "HashMap"], vec![s, t]),
            ("btreemap", Some(s)) => std_generic(c, "BTreeMap", "alloc", &["alloc", "collections", "btree", "map", "BTreeMap"], vec![s, t]),
            _ => machinery_error("type-expr: probe not constructible in this description"),
        };
    }
    c.index.get_mut(&Id(te.field)).expect("field").inner = ItemEnum::StructField(t);
}

// -------------------------------------------------------------------------------------------
// positions

struct Position {
    krate: String,
    container: u32,
    variant: Option<u32>,
    field: u32,
    t_name: String,
    only_route: bool,
}

fn field_ids_of(item: &Item) -> Vec<Id> {
    match &item.inner {
        ItemEnum::Struct(s) => match &s.kind {
            StructKind::Plain { fields, .. } => fields.clone(),
            StructKind::Tuple(fs) => fs.iter().flatten().copied().collect(),
            StructKind::Unit => vec![],
        },
        ItemEnum::Variant(v) => match &v.kind {
            VariantKind::Struct { fields, .. } => fields.clone(),
            VariantKind::Tuple(fs) => fs.iter().flatten().copied().collect(),
            VariantKind::Plain => vec![],
        },
        _ => vec![],
    }
}

/// Types the filter takes as roots whatever refers to them (operations, their outputs, the root
/// app's event / view model / effect): a field is never the only route to one of these.
fn root_types(c: &Crate) -> BTreeSet<u32> {
    let mut out = BTreeSet::new();
    for item in c.index.values() {
        let ItemEnum::Impl(imp) = &item.inner else { continue };
        let Some(tr) = &imp.trait_ else { continue };
        if !["App", "Effect", "Operation"].contains(&tr.path.as_str()) {
            continue;
        }
        if tr.path == "Operation" {
            if let Type::ResolvedPath(p) = &imp.for_ {
                out.insert(p.id.0);
            }
        }
        for it in &imp.items {
            if let Some(Item { inner: ItemEnum::AssocType { type_: Some(Type::ResolvedPath(p)), .. }, .. }) = c.index.get(it) {
                out.insert(p.id.0);
            }
        }
    }
    out
}

/// Fields of the app crate's reachable containers whose type is, plainly, a local struct or enum.
fn positions(fx: &Fixtures, d: &str, b: &RunOut) -> Vec<Position> {
    let c = &fx.crates[d];
    let roots = root_types(c);
    let mut refs = vec![];
    reference::referenced_type_names(&b.registry, &mut refs);
    let sources: BTreeSet<u32> = b.edges.iter().filter(|(s, _)| s.0 == d).map(|(s, _)| s.1).collect();
    let mut out = vec![];
    for id in sources {
        let Some(container) = c.index.get(&Id(id)) else { continue };
        let holders: Vec<(Option<u32>, &Item)> = match &container.inner {
            ItemEnum::Struct(_) => vec![(None, container)],
            ItemEnum::Enum(e) => e
                .variants
                .iter()
                .filter_map(|v| c.index.get(v).map(|i| (Some(v.0), i)))
                .filter(|(_, i)| !reference::serde_attrs(i).skip)
                .collect(),
            _ => vec![],
        };
        for (variant, holder) in holders {
            for f in field_ids_of(holder) {
                let Some(field) = c.index.get(&f) else { continue };
                let a = reference::serde_attrs(field);
                if a.skip || a.with.is_some() || !a.unmodelled.is_empty() {
                    continue;
                }
                let ItemEnum::StructField(Type::ResolvedPath(p)) = &field.inner else { continue };
                let no_args = match p.args.as_deref() {
                    None => true,
                    Some(GenericArgs::AngleBracketed { args, constraints }) => args.is_empty() && constraints.is_empty(),
                    _ => false,
                };
                let Some(t) = c.index.get(&p.id) else { continue };
                if !no_args || t.crate_id != 0 || !matches!(t.inner, ItemEnum::Struct(_) | ItemEnum::Enum(_)) {
                    continue;
                }
                let Some(t_name) = reference::container_name(t) else { continue };
                if b.registry.get(&t_name).is_none() {
                    continue;
                }
                let only_route = refs.iter().filter(|r| **r == t_name).count() == 1 && !roots.contains(&p.id.0);
                out.push(Position { krate: d.to_string(), container: id, variant, field: f.0, t_name, only_route });
            }
        }
    }
    out
}

// -------------------------------------------------------------------------------------------
// expectation and verdict

pub struct Expected {
    pub registry: Value,
    /// further acceptable registries (a struct without fields in its other wire-equivalent style)
    pub alternatives: Vec<Value>,
    pub container_name: String,
    pub t_name: String,
    /// T and everything below it in the unperturbed registry
    pub subtree: BTreeSet<String>,
    pub must_load: Option<String>,
    pub flavour: &'static str,
}

fn subtree_of(reg: &Value, name: &str) -> BTreeSet<String> {
    let mut out = BTreeSet::new();
    let mut todo = vec![name.to_string()];
    while let Some(n) = todo.pop() {
        if out.insert(n.clone()) {
            if let Some(e) = reg.get(&n) {
                reference::referenced_type_names(e, &mut todo);
            }
        }
    }
    out
}

pub fn expected(fx: &Fixtures, base: &BTreeMap<String, RunOut>, te: &TypeExpr) -> Option<Expected> {
    let b = base.get(&te.krate)?;
    let c = fx.crates.get(&te.krate)?;
    let loc = depgraph::Located { container: Id(te.container), variant: te.variant.map(Id), field: Id(te.field) };
    let container_name = reference::container_name(c.index.get(&loc.container)?)?;
    let mut registry = b.registry.clone();
    let (t_name, must_load, flavour) = match &te.remote {
        None if te.fieldless.is_some() => (MARKER.to_string(), None, "fieldless-struct-as-field-type"),
        None => {
            let ItemEnum::StructField(Type::ResolvedPath(p)) = &c.index.get(&loc.field)?.inner else { return None };
            (reference::container_name(c.index.get(&p.id)?)?, None, "local")
        }
        Some(r) => {
            let lib = base.values().find(|x| x.loaded.contains(&r.krate))?;
            let m = registry.as_object_mut()?;
            for n in depgraph::entries_of(fx, lib, &r.krate) {
                m.insert(n.clone(), lib.registry.get(&n)?.clone());
            }
            let name = depgraph::export_name(&r.krate);
            if r.also_plain {
                let plain = depgraph::locate(c, &te.krate, plain_slot());
                depgraph::patch(&mut registry, c, &plain, json!({ "TYPENAME": name }))?;
            }
            (name, Some(r.krate.clone()), if r.also_plain { "remote-also-named-directly" } else { "remote-only-reference" })
        }
    };
    depgraph::patch(&mut registry, c, &loc, rendered(&te.expr, &t_name))?;
    let mut alternatives = vec![];
    if let Some(kind) = &te.fieldless {
        // serde's own style first (measured), then the wire-equivalent one
        let serde_style = serde_fieldless(kind);
        for style in [serde_style, json!("UNITSTRUCT")] {
            let mut r = registry.clone();
            r[MARKER] = style;
            if !alternatives.contains(&r) {
                alternatives.push(r);
            }
        }
        registry = alternatives.remove(0);
    }
    let subtree = subtree_of(&registry, &t_name);
    Some(Expected { registry, alternatives, container_name, t_name, subtree, must_load, flavour })
}

pub fn judge(x: &Expected, observed: &Value, loaded: &[String]) -> Vec<(String, String)> {
    if x.alternatives.iter().any(|r| r == observed) {
        return vec![];
    }
    let minus_t = |r: &Value| {
        let mut r = r.clone();
        if let Some(m) = r.as_object_mut() {
            m.remove(&x.t_name);
        }
        r
    };
    // exactly: the fieldless struct's own entry is the one and only thing missing
    if x.flavour == "fieldless-struct-as-field-type" && std::iter::once(&x.registry).chain(x.alternatives.iter()).any(|r| minus_t(r) == *observed) {
        // the K10 defect class seen from another input: reported once, with its consequence
        let open = closedness(observed);
        return vec![(
            "container-missing".into(),
            format!(
                "the struct {} has no fields but is a type serde knows ({}): it must have an entry, yet it has none{}",
                x.t_name,
                x.registry[&x.t_name],
                if open.is_empty() { String::new() } else { format!("; consequently the registry is not closed: {}", open.iter().map(|(c, m)| format!("{c} references {m}, which has no entry")).collect::<Vec<_>>().join("; ")) }
            ),
        )];
    }
    let mut out = vec![];
    let open = closedness(observed);
    if let Some(k) = &x.must_load {
        if !loaded.contains(k) {
            // the dangling references and the missing entries are consequences: one finding
            return vec![(
                "crate-not-loaded".into(),
                format!(
                    "crate {k}, which defines {}, is referenced by the field but was never loaded (loaded: {loaded:?}); consequently the registry is not closed: {}",
                    x.t_name,
                    open.iter().map(|(c, m)| format!("{c} references {m}, which has no entry")).collect::<Vec<_>>().join("; ")
                ),
            )];
        }
    }
    if !open.is_empty() {
        out.push((
            "not-closed".into(),
            format!("registry is not closed: {}", open.iter().map(|(c, m)| format!("{c} references {m}, which has no entry")).collect::<Vec<_>>().join("; ")),
        ));
    }
    let (eo, oo) = (x.registry.as_object().unwrap(), observed.as_object().unwrap());
    let gone: Vec<&String> = x.subtree.iter().filter(|n| eo.contains_key(*n) && !oo.contains_key(*n)).collect();
    if !gone.is_empty() {
        out.push(("subtree-missing".into(), format!("{} and what lies below it must stay defined, but {gone:?} have no entry any more", x.t_name)));
    }
    for (n, e) in eo {
        match oo.get(n) {
            Some(o) if o == e => {}
            Some(o) if *n == x.container_name => out.push(("field-format".into(), format!("entry {n}: expected {e}, observed {o}"))),
            Some(o) if x.subtree.contains(n) => out.push(("subtree-changed".into(), format!("entry {n} below {} changed from {e} to {o}", x.t_name))),
            Some(o) => out.push(("other-entry-changed".into(), format!("entry {n} changed from {e} to {o}"))),
            None if x.subtree.contains(n) => {}
            None => out.push(("entry-missing".into(), format!("entry {n} disappeared"))),
        }
    }
    for n in oo.keys() {
        if !eo.contains_key(n) {
            out.push(("entry-extra".into(), format!("new entry {n}")));
        }
    }
    out
}

// -------------------------------------------------------------------------------------------
// skipped fields

pub struct ExpectedSkipped {
    /// acceptable registries: they differ only in the style of a container / variant that is
    /// left without serialised fields (UNITSTRUCT vs STRUCT [] ...: identical bytes; the first
    /// is what serde-reflection traces)
    pub registries: Vec<Value>,
    pub container_name: String,
    pub field_name: String,
    pub t_name: String,
    /// entries that must not be in the registry any more
    pub gone: BTreeSet<String>,
    pub must_not_load: Option<String>,
    pub flavour: &'static str,
    /// the altered container is a struct and the alteration leaves it without any serialised field
    pub every_field_skipped: bool,
}

/// Key (below `type-expr/`) of known finding K10. Assigned ONLY when the altered struct has every
/// field `#[serde(skip)]` AND the observation is exactly the expected registry without that
/// struct's own entry (the dangling references follow from it). Anything else - a struct with a
/// live field whose entry is missing, an all-skipped struct with a wrong entry, extra or changed
/// entries, a crate loaded for a skipped field - gets the ordinary `<flavour>/<class>` keys.
pub const K10_TAIL: &str = "struct-without-serialised-fields/container-missing";

/// The entry of the container without the field, in every wire-equivalent style.
fn without_field(entry: &Value, c: &Crate, loc: &depgraph::Located) -> Option<Vec<Value>> {
    let container = c.index.get(&loc.container)?;
    let live_pos = |holder: &Item| {
        field_ids_of(holder)
            .iter()
            .filter(|id| c.index.get(id).is_some_and(|i| !reference::serde_attrs(i).skip))
            .position(|id| *id == loc.field)
    };
    let drop_at = |list: &Value, pos: usize| -> Option<Vec<Value>> {
        let mut v = list.as_array()?.clone();
        (pos < v.len()).then(|| v.remove(pos))?;
        Some(v)
    };
    match loc.variant {
        None => {
            let pos = live_pos(container)?;
            if let Some(fs) = entry.get("STRUCT") {
                let rest = drop_at(fs, pos)?;
                Some(if rest.is_empty() { vec![json!({"STRUCT": []}), json!("UNITSTRUCT")] } else { vec![json!({ "STRUCT": rest })] })
            } else if entry.get("NEWTYPESTRUCT").is_some() {
                Some(vec![json!({"TUPLESTRUCT": []}), json!("UNITSTRUCT")])
            } else {
                let rest = drop_at(entry.get("TUPLESTRUCT")?, pos)?;
                Some(match rest.len() {
                    0 => vec![json!({"TUPLESTRUCT": []}), json!("UNITSTRUCT")],
                    1 => vec![json!({ "TUPLESTRUCT": rest }), json!({"NEWTYPESTRUCT": rest[0]})],
                    _ => vec![json!({ "TUPLESTRUCT": rest })],
                })
            }
        }
        Some(vid) => {
            let ItemEnum::Enum(e) = &container.inner else { return None };
            let vpos = e
                .variants
                .iter()
                .filter(|id| c.index.get(id).is_some_and(|i| !reference::serde_attrs(i).skip))
                .position(|id| *id == vid)?;
            let pos = live_pos(c.index.get(&vid)?)?;
            let named = entry.get("ENUM")?.get(vpos.to_string())?.as_object()?;
            let (vname, f) = named.iter().next()?;
            let styles: Vec<Value> = if let Some(fs) = f.get("STRUCT") {
                vec![json!({ "STRUCT": drop_at(fs, pos)? })]
            } else if f.get("NEWTYPE").is_some() {
                vec![json!("UNIT")] // measured: serde reads and writes such a variant as a unit variant
            } else {
                let rest = drop_at(f.get("TUPLE")?, pos)?;
                match rest.len() {
                    0 => vec![json!({"TUPLE": []}), json!("UNIT")],
                    1 => vec![json!({ "TUPLE": rest }), json!({"NEWTYPE": rest[0]})],
                    _ => vec![json!({ "TUPLE": rest })],
                }
            };
            Some(
                styles
                    .into_iter()
                    .map(|st| {
                        let mut e2 = entry.clone();
                        let mut n = serde_json::Map::new();
                        n.insert(vname.clone(), st);
                        e2["ENUM"][vpos.to_string()] = Value::Object(n);
                        e2
                    })
                    .collect(),
            )
        }
    }
}

pub fn expected_skipped(fx: &Fixtures, base: &BTreeMap<String, RunOut>, te: &TypeExpr) -> Option<ExpectedSkipped> {
    let b = base.get(&te.krate)?;
    let c = fx.crates.get(&te.krate)?;
    let loc = depgraph::Located { container: Id(te.container), variant: te.variant.map(Id), field: Id(te.field) };
    let container_name = reference::container_name(c.index.get(&loc.container)?)?;
    let field_name = c.index.get(&loc.field)?.name.clone()?;
    let styles = if te.all_fields {
        let e = b.registry.get(&container_name)?;
        if e.get("STRUCT").is_some() {
            vec![json!({"STRUCT": []}), json!("UNITSTRUCT")]
        } else {
            vec![json!({"TUPLESTRUCT": []}), json!("UNITSTRUCT")]
        }
    } else {
        without_field(b.registry.get(&container_name)?, c, &loc)?
    };
    let (t_name, must_not_load, flavour, below) = match &te.remote {
        None if te.all_fields => {
            let mut refs = vec![];
            reference::referenced_type_names(b.registry.get(&container_name)?, &mut refs);
            let below = refs.iter().flat_map(|r| subtree_of(&b.registry, r)).collect();
            (container_name.clone(), None, "skipped-all-fields", below)
        }
        None => {
            let ItemEnum::StructField(Type::ResolvedPath(p)) = &c.index.get(&loc.field)?.inner else { return None };
            let t = reference::container_name(c.index.get(&p.id)?)?;
            let below = subtree_of(&b.registry, &t);
            (t, None, "skipped-local", below)
        }
        Some(r) => (depgraph::export_name(&r.krate), Some(r.krate.clone()), "skipped-remote", BTreeSet::new()),
    };
    // what stays: everything that is not below T, the filter's own roots, and whatever those
    // still refer to once the field is gone
    let root_names: BTreeSet<String> =
        root_types(c).iter().filter_map(|id| c.index.get(&Id(*id))).filter_map(reference::container_name).collect();
    let mut registries = vec![];
    let mut gone = BTreeSet::new();
    for st in styles {
        let mut reg = b.registry.clone();
        reg[&container_name] = st;
        let all = reg.as_object()?.clone();
        let mut keep: BTreeSet<String> = all.keys().filter(|n| !below.contains(*n) || root_names.contains(*n)).cloned().collect();
        let mut todo: Vec<String> = keep.iter().cloned().collect();
        while let Some(n) = todo.pop() {
            let mut refs = vec![];
            if let Some(e) = all.get(&n) {
                reference::referenced_type_names(e, &mut refs);
            }
            for r in refs {
                if all.contains_key(&r) && keep.insert(r.clone()) {
                    todo.push(r);
                }
            }
        }
        gone = all.keys().filter(|n| !keep.contains(*n)).cloned().collect();
        registries.push(Value::Object(all.into_iter().filter(|(n, _)| keep.contains(n)).collect()));
    }
    let container = c.index.get(&loc.container)?;
    let every_field_skipped = matches!(container.inner, ItemEnum::Struct(_))
        && te.variant.is_none()
        && (te.all_fields || {
            let live: Vec<Id> =
                field_ids_of(container).into_iter().filter(|id| c.index.get(id).is_some_and(|i| !reference::serde_attrs(i).skip)).collect();
            live == vec![loc.field]
        });
    Some(ExpectedSkipped { registries, container_name, field_name, t_name, gone, must_not_load, flavour, every_field_skipped })
}

/// `(key below type-expr/, explanation)`.
pub fn judge_skipped(x: &ExpectedSkipped, observed: &Value, loaded: &[String]) -> Vec<(String, String)> {
    let crate_ok = x.must_not_load.as_ref().is_none_or(|k| !loaded.contains(k));
    if x.registries.iter().any(|r| r == observed) && crate_ok {
        return vec![];
    }
    let without_container = |r: &Value| {
        let mut r = r.clone();
        if let Some(m) = r.as_object_mut() {
            m.remove(&x.container_name);
        }
        r
    };
    if x.every_field_skipped && crate_ok && x.registries.iter().any(|r| without_container(r) == *observed) {
        // K10, exactly: the struct's own entry is the one and only thing missing
        let open = closedness(observed);
        return vec![(
            K10_TAIL.into(),
            format!(
                "{} is left without serialised fields but is still a type serde knows (serde-reflection traces a struct with no fields): its entry must stay, as STRUCT [] / UNITSTRUCT, yet it is gone (nothing else differs){}",
                x.container_name,
                if open.is_empty() { String::new() } else { format!("; consequently the registry is not closed: {}", open.iter().map(|(c, m)| format!("{c} references {m}, which has no entry")).collect::<Vec<_>>().join("; ")) }
            ),
        )];
    }
    let mut out: Vec<(String, String)> = vec![];
    if let Some(k) = x.must_not_load.as_ref().filter(|k| loaded.contains(*k)) {
        out.push(("crate-loaded-for-skipped-field".into(), format!("crate {k} was loaded although its only mention is the type of a field serde never writes (loaded: {loaded:?})")));
    }
    let exp = &x.registries[0];
    let (eo, oo) = (exp.as_object().unwrap(), observed.as_object().unwrap());
    let present: Vec<&String> = x.gone.iter().filter(|n| oo.contains_key(*n)).collect();
    if !present.is_empty() {
        out.push((
            "skipped-subtree-present".into(),
            format!("{} is reachable only through the skipped field, yet {present:?} are in the registry", x.t_name),
        ));
    }
    match oo.get(&x.container_name) {
        Some(o) if x.registries.iter().any(|r| r.get(&x.container_name) == Some(o)) => {}
        Some(o) => out.push(("container-entry".into(), format!("entry {} must simply lack the field {}: expected {}, observed {o}", x.container_name, x.field_name, exp[&x.container_name]))),
        None => out.push(("container-missing".into(), format!("entry {} is gone (and that is not the only difference, or the struct still has serialised fields)", x.container_name))),
    }
    let open = closedness(observed);
    if !open.is_empty() {
        out.push(("not-closed".into(), format!("registry is not closed: {}", open.iter().map(|(c, m)| format!("{c} references {m}, which has no entry")).collect::<Vec<_>>().join("; "))));
    }
    for (n, e) in eo {
        if *n == x.container_name {
            continue;
        }
        match oo.get(n) {
            Some(o) if o == e => {}
            Some(o) => out.push(("other-entry-changed".into(), format!("entry {n} changed from {e} to {o}"))),
            None => out.push(("entry-missing".into(), format!("entry {n} disappeared although it does not depend on the skipped field"))),
        }
    }
    for n in oo.keys() {
        if !eo.contains_key(n) && !x.gone.contains(n) {
            out.push(("entry-extra".into(), format!("new entry {n}")));
        }
    }
    out.into_iter().map(|(class, what)| (format!("{}/{class}", x.flavour), what)).collect()
}

pub fn describe(fx: &Fixtures, te: &TypeExpr) -> String {
    let c = fx.crates.get(&te.krate);
    let name = |id: u32| c.and_then(|c| c.index.get(&Id(id))).and_then(|i| i.name.clone()).unwrap_or_default();
    let t = match &te.remote {
        None if te.fieldless.is_some() => MARKER.to_string(),
        Some(r) => depgraph::export(&r.krate).map(|e| e.path.join("::")).unwrap_or_default(),
        None => c
            .and_then(|c| c.index.get(&Id(te.field)))
            .and_then(|i| match &i.inner {
                ItemEnum::StructField(Type::ResolvedPath(p)) => Some(p.path.clone()),
                _ => None,
            })
            .unwrap_or_default(),
    };
    let mut ty = written(&te.expr, &t);
    if let Some(p) = &te.probe {
        ty = match p.as_str() {
            "array" => format!("[{ty}; 2]"),
            "box" => format!("Box<{ty}>"),
            "hashmap" => format!("HashMap<String, {ty}>"),
            _ => format!("BTreeMap<String, {ty}>"),
        };
    }
    if te.skipped && te.all_fields {
        return format!("every field of struct {}::{} marked `#[serde(skip)]`", te.krate, name(te.container));
    }
    if te.skipped {
        ty = format!("{ty}` and marked `#[serde(skip)]");
    }
    if let Some(k) = &te.fieldless {
        let decl = match k.as_str() {
            "unit" => "struct Marker;",
            "tuple-0" => "struct Marker();",
            _ => "struct Marker {}",
        };
        ty = format!("{ty}` with the new `{decl}");
    }
    format!(
        "field {}::{}{}.{} given the type `{ty}`{}",
        te.krate,
        name(te.container),
        te.variant.map(|v| format!("::{}", name(v))).unwrap_or_default(),
        name(te.field),
        match &te.remote {
            Some(r) if r.also_plain => " (another field of the app names that type directly)",
            Some(_) => " (nothing else in the app refers to that crate)",
            None => "",
        }
    )
}

pub fn case(d: &str, deps: &[String], te: &TypeExpr, renumber: Renumber) -> Case {
    let mut prio: Vec<String> = deps.to_vec();
    if let Some(r) = &te.remote {
        if !prio.contains(&r.krate) {
            prio.push(r.krate.clone());
            prio.sort();
        }
    }
    Case { family: "type-expr".into(), renumber, type_expr: Some(te.clone()), ..baseline_case(d, &prio) }
}

fn expressions(tier: Tier) -> Vec<String> {
    let mut all = vec![String::new()];
    let mut layer = vec![String::new()];
    for _ in 0..3 {
        layer = layer.iter().flat_map(|w| ['O', 'V', 'P'].iter().map(move |c| format!("{w}{c}"))).collect();
        all.extend(layer.iter().cloned());
    }
    match tier {
        Tier::Thorough => all,
        Tier::Quick => {
            let deep = ["OVO", "VOV", "VVV", "OOO", "OPV", "VPO", "PVO"];
            all.into_iter().filter(|w| w.len() <= 2 || deep.contains(&w.as_str())).collect()
        }
    }
}

#[allow(dead_code)]
#[derive(Serialize, Deserialize)]
struct AllSkippedProbe {
    #[serde(skip)]
    a: u32,
}

/// What serde-reflection traces for a struct all of whose fields are skipped (measured).
fn serde_all_skipped() -> Value {
    use serde_reflection::{Tracer, TracerConfig};
    let mut t = Tracer::new(TracerConfig::default());
    if let Err(e) = t.trace_simple_type::<AllSkippedProbe>() {
        return json!(format!("does not trace: {e}"));
    }
    t.registry().ok().and_then(|r| serde_json::to_value(r).ok()).map_or(Value::Null, |r| r["AllSkippedProbe"].clone())
}

#[derive(Serialize, Deserialize)]
struct UnitProbe;
#[derive(Serialize, Deserialize)]
struct Tuple0Probe();
#[derive(Serialize, Deserialize)]
struct Braced0Probe {}

/// What serde-reflection traces for a struct without fields of the given kind (measured).
pub fn serde_fieldless(kind: &str) -> Value {
    use serde_reflection::{Tracer, TracerConfig};
    let mut t = Tracer::new(TracerConfig::default());
    let (r, name) = match kind {
        "unit" => (t.trace_simple_type::<UnitProbe>().map(|_| ()), "UnitProbe"),
        "tuple-0" => (t.trace_simple_type::<Tuple0Probe>().map(|_| ()), "Tuple0Probe"),
        _ => (t.trace_simple_type::<Braced0Probe>().map(|_| ()), "Braced0Probe"),
    };
    if let Err(e) = r {
        machinery_error(&format!("type-expr: fieldless probe {kind} does not trace: {e}"));
    }
    t.registry().ok().and_then(|r| serde_json::to_value(r).ok()).map_or(Value::Null, |r| r[name].clone())
}

/// The key of known finding K10 must be as narrow as the finding: synthetic observations one step
/// away from it must come out under other (unlisted) keys.
pub fn canary(fx: &Fixtures, base: &BTreeMap<String, RunOut>) {
    let root = depgraph::ROOT;
    let (Some(c), Some(b)) = (fx.crates.get(root), base.get(root)) else { return };
    let receipt = depgraph::locate(c, root, &depgraph::slots(root)[2]); // Receipt.email
    let mk = |all_fields: bool, expr: &str, remote: Option<Remote>| TypeExpr {
        krate: root.to_string(),
        container: receipt.container.0,
        variant: None,
        field: receipt.field.0,
        expr: expr.to_string(),
        remote,
        probe: None,
        skipped: true,
        all_fields,
        fieldless: None,
    };
    let fail = |what: &str| -> ! { machinery_error(&format!("canary (K10 key narrowness): {what}")) };
    let name = "Receipt".to_string();
    let keys = |x: &ExpectedSkipped, obs: &Value, loaded: &[String]| -> Vec<String> { judge_skipped(x, obs, loaded).into_iter().map(|(k, _)| k).collect() };
    let Some(all) = expected_skipped(fx, base, &mk(true, "", None)) else { fail("expectation for the all-skipped struct not derivable") };
    let mut k10 = all.registries[0].clone();
    k10.as_object_mut().unwrap().remove(&name);
    // 0. the finding itself
    if keys(&all, &k10, &b.loaded) != vec![K10_TAIL.to_string()] {
        fail("the exact K10 observation is not keyed as K10");
    }
    let must_be_unlisted = |what: &str, ks: Vec<String>| {
        if ks.is_empty() || ks.iter().any(|k| k == K10_TAIL) {
            fail(&format!("{what}: keys {ks:?}"));
        }
    };
    // 1. K10 plus an extra entry
    let mut o = k10.clone();
    o["Bogus"] = json!("UNITSTRUCT");
    must_be_unlisted("K10 observation plus an extra entry must not be K10", keys(&all, &o, &b.loaded));
    // 2. K10 plus another entry changed
    let mut o = k10.clone();
    o["Payment"] = json!("UNITSTRUCT");
    must_be_unlisted("K10 observation plus a changed entry must not be K10", keys(&all, &o, &b.loaded));
    // 3. K10 plus another entry missing
    let mut o = k10.clone();
    o.as_object_mut().unwrap().remove("Payment");
    must_be_unlisted("K10 observation plus another missing entry must not be K10", keys(&all, &o, &b.loaded));
    // 4. the all-skipped struct is present but with a wrong entry (its unperturbed one)
    let mut o = all.registries[0].clone();
    o[&name] = b.registry[&name].clone();
    must_be_unlisted("an all-skipped struct with a wrong entry must not be K10", keys(&all, &o, &b.loaded));
    // 5. a struct that still has a serialised field, whose entry is missing
    let status = depgraph::locate(c, root, &depgraph::Slot { container: "Receipt", variant: None, field: "status" });
    let Some(one) = expected_skipped(fx, base, &TypeExpr { field: status.field.0, ..mk(false, "", None) }) else {
        fail("expectation for one skipped field not derivable")
    };
    if one.every_field_skipped {
        fail("Receipt with only `status` skipped still has a serialised field");
    }
    let mut o = one.registries[0].clone();
    o.as_object_mut().unwrap().remove(&name);
    must_be_unlisted("a struct with a live field whose entry is missing must not be K10", keys(&one, &o, &b.loaded));
    // 5b. the sibling key for a fieldless struct used as a field type is equally narrow
    let fl = TypeExpr { skipped: false, fieldless: Some("unit".into()), ..mk(false, "", None) };
    let Some(x) = expected(fx, base, &fl) else { fail("expectation for the fieldless struct not derivable") };
    let mut o = x.registry.clone();
    o.as_object_mut().unwrap().remove(MARKER);
    let ks: Vec<String> = judge(&x, &o, &b.loaded).into_iter().map(|(k, _)| k).collect();
    if ks != vec!["container-missing".to_string()] {
        fail(&format!("the exact fieldless-struct observation is not keyed container-missing: {ks:?}"));
    }
    o["Bogus"] = json!("UNITSTRUCT");
    let ks: Vec<String> = judge(&x, &o, &b.loaded).into_iter().map(|(k, _)| k).collect();
    if ks.is_empty() || ks.iter().any(|k| k == "container-missing") {
        fail(&format!("fieldless-struct observation plus an extra entry must not be keyed container-missing: {ks:?}"));
    }
    // 6. a crate loaded for a skipped field
    let Some(rem) = expected_skipped(fx, base, &mk(false, "", Some(Remote { krate: "crux_time".into(), also_plain: false }))) else {
        fail("expectation for the skipped remote field not derivable")
    };
    let mut loaded = b.loaded.clone();
    loaded.push("crux_time".into());
    must_be_unlisted("a crate loaded for a skipped field must not be K10", keys(&rem, &rem.registries[0], &loaded));
}

pub struct Stats {
    pub runs: u64,
    pub compared: u64,
    pub evaluations: u64,
    pub states: BTreeSet<(String, u64)>,
    pub skipped: u64,
    pub coverage: Value,
}

pub fn run_dimension(
    fx: &Fixtures,
    base: &BTreeMap<String, RunOut>,
    tier: Tier,
    reporter: &Reporter,
    deadline: &Deadline,
    samples: &mut Samples,
) -> Option<Stats> {
    if EXAMPLES.iter().any(|d| !base.contains_key(*d)) {
        return None; // development filter
    }
    canary(fx, base);
    let exprs = expressions(tier);
    // local positions
    let mut per_description: BTreeMap<String, Vec<Position>> = BTreeMap::new();
    for d in EXAMPLES {
        if has_std_containers(&fx.crates[d]) {
            let mut p = positions(fx, d, &base[d]);
            // positions that are the only route to their type first
            p.sort_by_key(|p| (!p.only_route, p.container, p.field));
            if !p.is_empty() {
                per_description.insert(d.to_string(), p);
            }
        }
    }
    let chosen: Vec<&str> = match tier {
        Tier::Thorough => per_description.keys().map(|s| s.as_str()).collect(),
        Tier::Quick => {
            // tap_to_pay and the cheapest other description that has a position
            let mut others: Vec<&str> = per_description.keys().map(|s| s.as_str()).filter(|d| *d != depgraph::ROOT).collect();
            others.sort_by_key(|d| (base[*d].loaded.len(), *d));
            std::iter::once(depgraph::ROOT).filter(|d| per_description.contains_key(*d)).chain(others.into_iter().take(1)).collect()
        }
    };
    let mut cases: Vec<Case> = vec![];
    let mut local_positions = vec![];
    for d in &chosen {
        let mut deps = base[*d].loaded[1..].to_vec();
        deps.sort();
        for p in &per_description[*d] {
            local_positions.push(json!({"field": format!("{}#{}", p.krate, p.field), "type": p.t_name, "field_is_the_only_route_to_it": p.only_route}));
            for e in &exprs {
                let te = TypeExpr { krate: p.krate.clone(), container: p.container, variant: p.variant, field: p.field, expr: e.clone(), remote: None, probe: None, skipped: false, all_fields: false, fieldless: None };
                cases.push(case(d, &deps, &te, Renumber::Identity));
                cases.push(case(d, &deps, &te, Renumber::Reverse { crates: vec![d.to_string()] }));
            }
        }
    }
    // remote T: the app's `Receipt.email` is given a type from a crate the app does not mention
    let root = depgraph::ROOT;
    let rc = &fx.crates[root];
    let slot = depgraph::locate(rc, root, &depgraph::slots(root)[2]);
    let remotes: Vec<&str> = tier.pick(vec!["crux_time"], vec!["crux_time", "crux_kv", "crux_platform"]);
    let mut rdeps = base[root].loaded[1..].to_vec();
    rdeps.sort();
    if has_std_containers(rc) {
        for k in &remotes {
            for also_plain in [false, true] {
                for e in &exprs {
                    let te = TypeExpr {
                        krate: root.to_string(),
                        container: slot.container.0,
                        variant: slot.variant.map(|v| v.0),
                        field: slot.field.0,
                        expr: e.clone(),
                        remote: Some(Remote { krate: k.to_string(), also_plain }),
                        probe: None,
                        skipped: false,
                        all_fields: false,
                        fieldless: None,
                    };
                    cases.push(case(root, &rdeps, &te, Renumber::Identity));
                    if tier == Tier::Thorough || e.len() <= 1 {
                        cases.push(case(root, &rdeps, &te, Renumber::Reverse { crates: vec![root.to_string()] }));
                    }
                }
            }
        }
    }
    // skipped fields: every position that is the only route to its T, and the remote T as the
    // app's only reference to its crate
    let skip_forms = ["", "O", "V", "R"];
    let mut skipped_positions = 0u64;
    for d in &chosen {
        let mut deps = base[*d].loaded[1..].to_vec();
        deps.sort();
        for p in per_description[*d].iter().filter(|p| p.only_route) {
            skipped_positions += 1;
            for e in skip_forms {
                let te = TypeExpr { krate: p.krate.clone(), container: p.container, variant: p.variant, field: p.field, expr: e.to_string(), remote: None, probe: None, skipped: true, all_fields: false, fieldless: None };
                cases.push(case(d, &deps, &te, Renumber::Identity));
                cases.push(case(d, &deps, &te, Renumber::Reverse { crates: vec![d.to_string()] }));
            }
        }
    }
    // a struct all of whose fields are skipped
    let mut all_skipped_structs = 0u64;
    for d in &chosen {
        let c = &fx.crates[*d];
        let mut deps = base[*d].loaded[1..].to_vec();
        deps.sort();
        let sources: BTreeSet<u32> = base[*d].edges.iter().filter(|(s, _)| s.0 == *d).map(|(s, _)| s.1).collect();
        for id in sources {
            let Some(item) = c.index.get(&Id(id)) else { continue };
            if !matches!(item.inner, ItemEnum::Struct(_)) || !reference::serde_attrs(item).unmodelled.is_empty() {
                continue;
            }
            let Some(first) = field_ids_of(item).first().copied() else { continue };
            all_skipped_structs += 1;
            let te = TypeExpr { krate: d.to_string(), container: id, variant: None, field: first.0, expr: String::new(), remote: None, probe: None, skipped: true, all_fields: true, fieldless: None };
            cases.push(case(d, &deps, &te, Renumber::Identity));
            cases.push(case(d, &deps, &te, Renumber::Reverse { crates: vec![d.to_string()] }));
        }
    }
    // T = a new struct without fields (not a root), as a struct field and as a variant payload
    let payload = depgraph::locate(rc, root, &depgraph::Slot { container: "PaymentStatus", variant: Some("Failed"), field: "0" });
    if has_std_containers(rc) {
        for kind in FIELDLESS {
            for pos in [&slot, &payload] {
                for e in ["", "O", "V"] {
                    let te = TypeExpr {
                        krate: root.to_string(),
                        container: pos.container.0,
                        variant: pos.variant.map(|v| v.0),
                        field: pos.field.0,
                        expr: e.to_string(),
                        remote: None,
                        probe: None,
                        skipped: false,
                        all_fields: false,
                        fieldless: Some(kind.to_string()),
                    };
                    cases.push(case(root, &rdeps, &te, Renumber::Identity));
                    cases.push(case(root, &rdeps, &te, Renumber::Reverse { crates: vec![root.to_string()] }));
                }
            }
        }
    }
    if has_std_containers(rc) {
        for k in &remotes {
            for e in skip_forms {
                let te = TypeExpr {
                    krate: root.to_string(),
                    container: slot.container.0,
                    variant: slot.variant.map(|v| v.0),
                    field: slot.field.0,
                    expr: e.to_string(),
                    remote: Some(Remote { krate: k.to_string(), also_plain: false }),
                    probe: None,
                    skipped: true,
                    all_fields: false,
                    fieldless: None,
                };
                cases.push(case(root, &rdeps, &te, Renumber::Identity));
                cases.push(case(root, &rdeps, &te, Renumber::Reverse { crates: vec![root.to_string()] }));
            }
        }
    }
    // probes of unsupported constructors, on the first local position of the root
    let mut probe_cases: Vec<Case> = vec![];
    if let Some(p) = per_description.get(root).and_then(|v| v.first()) {
        for probe in PROBES {
            let te = TypeExpr { krate: p.krate.clone(), container: p.container, variant: p.variant, field: p.field, expr: String::new(), remote: None, probe: Some(probe.to_string()), skipped: false, all_fields: false, fieldless: None };
            probe_cases.push(case(root, &rdeps, &te, Renumber::Identity));
        }
    }
    let n_checked = cases.len();
    cases.extend(probe_cases);
    cases.sort_by_key(|c| (c.type_expr.as_ref().is_some_and(|t| t.probe.is_some()), std::cmp::Reverse(base[&c.description].ms as u64)));
    let results: Vec<Option<RunResult>> = par_map(&cases, |_, c| {
        if deadline.expired() {
            return None;
        }
        Some(execute(fx, c))
    });

    let mut st = Stats { runs: 0, compared: 0, evaluations: 0, states: BTreeSet::new(), skipped: 0, coverage: Value::Null };
    let mut by_flavour: BTreeMap<&str, (u64, u64)> = BTreeMap::new(); // runs, as expected
    let mut by_depth: BTreeMap<usize, u64> = BTreeMap::new();
    let mut probe_notes = serde_json::Map::new();
    let mut times = vec![];
    for (c, r) in cases.iter().zip(&results) {
        let te = c.type_expr.as_ref().unwrap();
        let Some(r) = r else {
            st.skipped += 1;
            continue;
        };
        st.runs += 1;
        if let Some(p) = &te.probe {
            let outcome = match r {
                RunResult::Panic(p) => format!("explicit refusal: panics at {}:{} ({})", p.file.rsplit('/').next().unwrap_or_default(), p.line, p.message),
                RunResult::Err(e) => format!("the run stops with an error: {e} (alloc/std have no bundled description; the real CLI would read the toolchain's rustdoc JSON for them)"),
                RunResult::Ok(o) => format!(
                    "a registry is produced: field rendered as {}; closed: {}",
                    o.registry.get(&reference::container_name(&fx.crates[&te.krate].index[&Id(te.container)]).unwrap_or_default()).map_or("<absent>".into(), |v| v.to_string()),
                    closedness(&o.registry).is_empty()
                ),
            };
            probe_notes.insert(p.clone(), json!({"altered": describe(fx, te), "observed": outcome}));
            continue;
        }
        if te.skipped {
            let Some(x) = expected_skipped(fx, base, te) else {
                machinery_error(&format!("type-expr: expectation not derivable for {}", describe(fx, te)));
            };
            let fl = by_flavour.entry(x.flavour).or_insert((0, 0));
            fl.0 += 1;
            let size = te.expr.len() * 4 + usize::from(c.renumber != Renumber::Identity) + base[&c.description].loaded.len();
            let report = |class: &str, what: String, extra: Value| {
                reporter.violation(Violation {
                    key: format!("type-expr/{class}"),
                    what: format!("{}: {what}; run: {}", describe(fx, te), describe_case(fx, c)),
                    replay: json!({"case": c, "details": extra}),
                    size,
                });
            };
            match r {
                RunResult::Ok(o) => {
                    times.push(o.ms);
                    st.compared += 1;
                    st.evaluations += 1;
                    let mark = fnv64(serde_json::to_string(te).unwrap().as_bytes());
                    st.states.insert((c.description.clone(), o.fingerprint ^ mark));
                    samples.offer(|| json!({"case": c, "altered": describe(fx, te), "registry_hash": format!("{:016x}", o.registry_hash)}));
                    let findings = judge_skipped(&x, &o.registry, &o.loaded);
                    if findings.is_empty() {
                        fl.1 += 1;
                    }
                    for (class, what) in findings {
                        report(&class, what, json!({"expected_entry": x.registries[0].get(&x.container_name), "observed_entry": o.registry.get(&x.container_name), "must_be_absent": x.gone, "loaded": o.loaded}));
                    }
                }
                RunResult::Err(e) => {
                    st.evaluations += 1;
                    let key: String = e.chars().take(40).map(|c| if c.is_ascii_alphanumeric() { c.to_ascii_lowercase() } else { '-' }).collect();
                    report(&format!("run-error/{}", key.trim_matches('-')), format!("codegen fails although the only unusual member is one serde never writes: {e}"), json!({"error": e}));
                }
                RunResult::Panic(p) => {
                    st.evaluations += 1;
                    report(&p.key(), format!("codegen panics at {}:{} ({}) although the only unusual member is one serde never writes", p.file, p.line, p.message), json!({"panic": p.message}));
                }
            }
            continue;
        }
        *by_depth.entry(te.expr.len()).or_insert(0) += 1;
        let Some(x) = expected(fx, base, te) else {
            machinery_error(&format!("type-expr: expectation not derivable for {}", describe(fx, te)));
        };
        let fl = by_flavour.entry(x.flavour).or_insert((0, 0));
        fl.0 += 1;
        let size = te.expr.len() * 4
            + usize::from(c.renumber != Renumber::Identity)
            + base[&c.description].loaded.len()
            + te.fieldless.as_deref().map_or(0, |k| FIELDLESS.iter().position(|x| *x == k).unwrap_or(0))
            + usize::from(te.variant.is_some());
        let report = |class: &str, what: String, extra: Value| {
            reporter.violation(Violation {
                key: format!("type-expr/{}/{class}", x.flavour),
                what: format!("{}: {what}; run: {}", describe(fx, te), describe_case(fx, c)),
                replay: json!({"case": c, "details": extra}),
                size,
            });
        };
        match r {
            RunResult::Ok(o) => {
                times.push(o.ms);
                st.compared += 1;
                st.evaluations += 1;
                let mark = fnv64(serde_json::to_string(te).unwrap().as_bytes());
                st.states.insert((c.description.clone(), o.fingerprint ^ mark));
                samples.offer(|| json!({"case": c, "altered": describe(fx, te), "registry_hash": format!("{:016x}", o.registry_hash)}));
                let findings = judge(&x, &o.registry, &o.loaded);
                if findings.is_empty() {
                    fl.1 += 1;
                }
                for (class, what) in findings {
                    report(&class, what, json!({"expected_entry": x.registry.get(&x.container_name), "observed_entry": o.registry.get(&x.container_name), "loaded": o.loaded}));
                }
            }
            RunResult::Err(e) => {
                st.evaluations += 1;
                let key: String = e.chars().take(40).map(|c| if c.is_ascii_alphanumeric() { c.to_ascii_lowercase() } else { '-' }).collect();
                report(&format!("run-error/{}", key.trim_matches('-')), format!("codegen fails: {e}"), json!({"error": e}));
            }
            RunResult::Panic(p) => {
                st.evaluations += 1;
                report(&p.key(), format!("codegen panics at {}:{}: {}", p.file, p.line, p.message), json!({"panic": p.message}));
            }
        }
    }
    times.sort_by(|a: &f64, b| a.partial_cmp(b).unwrap());
    st.coverage = json!({
        "bound": format!("type expressions: every word of length <= {} over {{Option<_>, Vec<_>, (_, u8)}} around T ({} expressions{}); local T: every field of a reachable app-crate container of {:?} whose type is plainly a local struct/enum; remote T: tap_to_pay's Receipt.email given the export type of {:?}, once as the app's only reference to that crate and once with DelayOperation::Start.millis naming the type directly; every altered description run with identity numbering{}", 3, exprs.len(), tier.pick(": all of length <= 2 and 7 of length 3", ""), chosen, remotes, tier.pick(" and (local T: always; remote T: expressions of length <= 1) with reversed numbering of the app crate", " and with reversed numbering of the app crate")),
        "expressions": exprs.iter().map(|e| written(e, "T")).collect::<Vec<_>>(),
        "constructors_supported_by_the_parser_today": "Option<_> -> OPTION, Vec<_> -> SEQ, tuples -> TUPLE; leaves: named types, String, primitives",
        "constructors_left_out": "arrays, slices, Box<_>, HashMap<_, _>, BTreeMap<_, _> and every other generic path: not supported by the formatter today; probed once per run, behaviour recorded below as a note (an explicit refusal is not a finding)",
        "unsupported_constructor_probes": probe_notes,
        "skipped_fields": {
            "bound": format!("every position that is the only route to its T ({skipped_positions} positions: struct fields and tuple-variant payloads of {:?}) and tap_to_pay's Receipt.email typed with the export type of {:?} as the app's only reference to that crate; the field marked #[serde(skip)] with the type T, Option<T>, Vec<T> and std::rc::Rc<T> (not serialisable, no definition anywhere: a generator that walks it has nothing to render); plus every reachable struct of the app crate with ALL its fields skipped ({all_skipped_structs} structs); identity and reversed numbering", chosen, remotes),
            "oracle": "the container's entry is the unperturbed one without the field (a container or variant left without serialised fields may have either wire-equivalent style); T and everything reachable only through the field are absent; the dependent crate is not loaded; registry closed; every other entry unchanged",
            "serde_traces_a_struct_whose_fields_are_all_skipped_as": serde_all_skipped(),
            "serde_rule": "a field with #[serde(skip)] is neither written nor read and is not part of the traced schema (measured for variants in variant_shapes.what_serde_does: a newtype variant whose field is skipped is a unit variant)",
        },
        "fieldless_struct_as_field_type": {
            "bound": "a new struct Marker without fields (struct Marker; / struct Marker(); / struct Marker {}), not a root, reachable only through tap_to_pay's Receipt.email (struct field) or PaymentStatus::Failed.0 (variant payload) typed Marker, Option<Marker>, Vec<Marker>; identity and reversed numbering",
            "serde_traces": {"struct Marker;": serde_fieldless("unit"), "struct Marker();": serde_fieldless("tuple-0"), "struct Marker {}": serde_fieldless("braced-0")},
            "oracle": "Marker has an entry (serde's style or UNITSTRUCT, identical bytes), the field renders the expression around TYPENAME Marker, registry closed, nothing else moved",
            "result": by_flavour.get("fieldless-struct-as-field-type").map(|(r, ok)| json!({"runs": r, "registry_as_expected": ok})),
        },
        "local_positions": local_positions,
        "descriptions_with_positions": per_description.iter().map(|(d, p)| (d.clone(), json!(p.len()))).collect::<serde_json::Map<_, _>>(),
        "altered_descriptions_checked": n_checked,
        "runs_executed": st.runs,
        "runs_cut_by_deadline": st.skipped,
        "runs_by_expression_depth": by_depth,
        "by_flavour": by_flavour.iter().map(|(k, (r, ok))| (k.to_string(), json!({"runs": r, "registry_as_expected": ok}))).collect::<serde_json::Map<_, _>>(),
        "oracle": "registry closed; T and everything below it still defined, identically; the field's format is the rendering of the expression derived from the expression alone (OPTION / SEQ / TUPLE [_, U8] around TYPENAME T); every other entry as in the unperturbed run (remote T: plus exactly the entries the dependent crate contributes in a bundled run, and the crate must be loaded); same under reversed numbering",
        "run_ms_median": times.get(times.len() / 2),
    });
    Some(st)
}

pub fn replay(fx: &Fixtures, case: &Case) -> i32 {
    let te = case.type_expr.as_ref().expect("type-expr case");
    println!("step 1: unperturbed runs the expectation is composed from");
    let mut base: BTreeMap<String, RunOut> = BTreeMap::new();
    let mut wanted = vec![case.description.as_str()];
    if te.remote.is_some() {
        wanted.push("cat_facts");
    }
    for d in wanted {
        match execute(fx, &baseline_case(d, &[])) {
            RunResult::Ok(o) => {
                println!("  {d}: loaded {:?}, {} containers", o.loaded, o.registry.as_object().map_or(0, |m| m.len()));
                base.insert(d.to_string(), *o);
            }
            other => {
                println!("  {d}: unperturbed run failed: {other:?}");
                return 1;
            }
        }
    }
    println!("step 2: altered description: {}", describe(fx, te));
    println!("  run: {}", describe_case(fx, case));
    let mut bad = false;
    match execute(fx, case) {
        RunResult::Ok(o) => {
            println!("  loaded {:?}, {} containers", o.loaded, o.registry.as_object().map_or(0, |m| m.len()));
            if te.probe.is_some() {
                println!("  probe of an unsupported constructor: recorded as a note only");
            } else if te.skipped {
                match expected_skipped(fx, &base, te) {
                    Some(x) => {
                        println!("  expected entry {}: {}", x.container_name, x.registries[0][&x.container_name]);
                        println!("  observed entry {}: {}", x.container_name, o.registry.get(&x.container_name).map_or("<absent>".into(), |v| v.to_string()));
                        println!("  entries that must be absent: {:?}", x.gone);
                        println!("step 3: oracles");
                        for (class, what) in judge_skipped(&x, &o.registry, &o.loaded) {
                            bad = true;
                            println!("  [type-expr/{class}] {what}");
                        }
                    }
                    None => println!("  expectation not derivable"),
                }
            } else if let Some(x) = expected(fx, &base, te) {
                println!("  expected entry {}: {}", x.container_name, x.registry[&x.container_name]);
                println!("  observed entry {}: {}", x.container_name, o.registry.get(&x.container_name).map_or("<absent>".into(), |v| v.to_string()));
                println!("step 3: oracles");
                for (class, what) in judge(&x, &o.registry, &o.loaded) {
                    bad = true;
                    println!("  [type-expr/{}/{class}] {what}", x.flavour);
                }
            } else {
                println!("  expectation not derivable");
            }
        }
        RunResult::Err(e) => {
            bad = te.probe.is_none();
            println!("  pipeline returned an error: {e}");
        }
        RunResult::Panic(p) => {
            bad = te.probe.is_none();
            println!("  pipeline panicked at {}:{}: {}", p.file, p.line, p.message);
        }
    }
    println!("verdict: {}", if bad { "violation reproduced" } else { "no violation on this tree" });
    i32::from(bad)
}
