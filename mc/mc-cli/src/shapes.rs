//! Variant-shape dimension of C20.
//!
//! The bundled descriptions contain only three kinds of variants: unit, newtype and braced /
//! tuple variants with at least one serialised field. This module alters bundled descriptions in
//! memory so that one variant of one enum takes each of the shapes Rust/serde allow, runs the real
//! pipeline and checks the registry against what serde does with that shape.
//!
//! What serde does is not written down here from memory: it is *measured* on every run by tracing
//! the probe enum below with serde-reflection (the `Deserialize` side, which is what the
//! tracing-based type generation sees) and by serialising with bincode (the `Serialize` side):
//!
//! * field-level `#[serde(skip)]`: the field is neither written nor read; the variant stays in the
//!   enum and keeps its index. A newtype variant whose only field is skipped is (de)serialised as a
//!   unit variant; a tuple variant keeps tuple style with the remaining fields (also when one or
//!   none remains); a braced variant keeps struct style with the remaining fields.
//! * variant-level `#[serde(skip)]`: `Deserialize` does not know the variant and numbers the
//!   remaining ones contiguously from zero in declaration order (this is the numbering of the
//!   traced schema and of property C20); `Serialize` keeps the *declared* position as index, so the
//!   two disagree after a skipped variant (finding D6 of the design, decided under C10, not here).

use super::*;
use rustdoc_types::{Variant, VariantKind, Visibility};

#[allow(dead_code)]
#[derive(Serialize, Deserialize)]
#[repr(u32)]
pub enum Probe {
    Unit,
    /// an explicit discriminant: serde numbers variants by position, whatever the discriminant is
    UnitD = 7,
    Tuple0(),
    TupleOnlySkipped(#[serde(skip)] u32),
    Tuple1(u32),
    Tuple2(u32, u64),
    TupleSkippedKept(#[serde(skip)] u32, u64),
    Braced0 {},
    BracedOnlySkipped {
        #[serde(skip)]
        a: u32,
    },
    Braced1 {
        a: u32,
    },
    Braced2 {
        a: u32,
        b: u64,
    },
    #[serde(skip)]
    Skipped(u32),
    After,
}

/// shape name, probe variant, new fields `(name, primitive, skipped)`, tuple style?
struct ShapeSpec {
    name: &'static str,
    probe: &'static str,
    style: Style,
    fields: &'static [(&'static str, &'static str, bool)],
}

#[derive(Clone, Copy, PartialEq, Eq)]
enum Style {
    Unit,
    UnitDiscriminant,
    Tuple,
    Braced,
    SkipVariant,
}

const SHAPES: [ShapeSpec; 12] = [
    ShapeSpec { name: "unit", probe: "Unit", style: Style::Unit, fields: &[] },
    ShapeSpec { name: "unit-with-explicit-discriminant", probe: "UnitD", style: Style::UnitDiscriminant, fields: &[] },
    ShapeSpec { name: "tuple-0", probe: "Tuple0", style: Style::Tuple, fields: &[] },
    ShapeSpec { name: "tuple-only-field-skipped", probe: "TupleOnlySkipped", style: Style::Tuple, fields: &[("0", "u32", true)] },
    ShapeSpec { name: "tuple-1", probe: "Tuple1", style: Style::Tuple, fields: &[("0", "u32", false)] },
    ShapeSpec { name: "tuple-2", probe: "Tuple2", style: Style::Tuple, fields: &[("0", "u32", false), ("1", "u64", false)] },
    ShapeSpec { name: "tuple-skipped-and-kept", probe: "TupleSkippedKept", style: Style::Tuple, fields: &[("0", "u32", true), ("1", "u64", false)] },
    ShapeSpec { name: "braced-0", probe: "Braced0", style: Style::Braced, fields: &[] },
    ShapeSpec { name: "braced-only-field-skipped", probe: "BracedOnlySkipped", style: Style::Braced, fields: &[("a", "u32", true)] },
    ShapeSpec { name: "braced-1", probe: "Braced1", style: Style::Braced, fields: &[("a", "u32", false)] },
    ShapeSpec { name: "braced-2", probe: "Braced2", style: Style::Braced, fields: &[("a", "u32", false), ("b", "u64", false)] },
    ShapeSpec { name: "variant-skipped", probe: "Skipped", style: Style::SkipVariant, fields: &[] },
];

fn spec(shape: &str) -> &'static ShapeSpec {
    SHAPES
        .iter()
        .find(|s| s.name == shape)
        .unwrap_or_else(|| machinery_error(&format!("variant-shape: unknown shape {shape}")))
}

/// What serde does with each shape, measured now.
pub struct SerdeFacts {
    /// shape -> variant format in the traced registry (absent for the skipped variant)
    formats: BTreeMap<&'static str, Value>,
    pub as_json: Value,
}

pub fn serde_facts() -> SerdeFacts {
    use serde_reflection::{Tracer, TracerConfig};
    let mut t = Tracer::new(TracerConfig::default());
    if let Err(e) = t.trace_simple_type::<Probe>() {
        machinery_error(&format!("variant-shape: the probe enum does not trace: {e}"));
    }
    let reg = t.registry().unwrap_or_else(|e| machinery_error(&format!("variant-shape: probe registry: {e}")));
    let reg = serde_json::to_value(reg).expect("registry serialises");
    let variants = reference::registry_variants(&reg["Probe"])
        .unwrap_or_else(|| machinery_error("variant-shape: probe is not an enum in the traced registry"));
    let raw = |name: &str| -> Option<(u64, Value)> {
        let (idx, _, _) = variants.iter().find(|v| v.1 == name)?;
        Some((*idx, reg["Probe"]["ENUM"][idx.to_string()][name].clone()))
    };
    let mut formats = BTreeMap::new();
    let mut table = serde_json::Map::new();
    for s in &SHAPES {
        match raw(s.probe) {
            Some((idx, f)) => {
                table.insert(s.name.into(), json!({"deserialize_index": idx, "traced_format": f}));
                formats.insert(s.name, f);
            }
            None => {
                table.insert(s.name.into(), json!("not a variant for Deserialize / the traced schema"));
            }
        }
    }
    // the variant-level skip: numbering of the variant declared after it
    let declared_after = SHAPES.len() as u64; // `After` is declared at this position
    let de_after = raw("After").map(|x| x.0);
    let ser_after = bincode::serialize(&Probe::After).ok().map(|b| u64::from(u32::from_le_bytes([b[0], b[1], b[2], b[3]])));
    if de_after != Some(declared_after - 1) {
        machinery_error(&format!("variant-shape: expected Deserialize to number the variant after a skipped one {} (contiguous), traced {de_after:?}", declared_after - 1));
    }
    if formats.contains_key("variant-skipped") || formats.len() != SHAPES.len() - 1 {
        machinery_error("variant-shape: probe enum and shape table disagree");
    }
    let hex = |v: Option<Vec<u8>>| v.map(|b| b.iter().map(|x| format!("{x:02x}")).collect::<Vec<_>>().join(" "));
    let bincode_bytes = json!({
        "Unit": hex(bincode::serialize(&Probe::Unit).ok()),
        "Tuple0()": hex(bincode::serialize(&Probe::Tuple0()).ok()),
        "Braced0 {}": hex(bincode::serialize(&Probe::Braced0 {}).ok()),
        "TupleOnlySkipped(#[skip] 7)": hex(bincode::serialize(&Probe::TupleOnlySkipped(7)).ok()),
        "Tuple1(9u32)": hex(bincode::serialize(&Probe::Tuple1(9)).ok()),
        "TupleSkippedKept(#[skip] 7, 9u64)": hex(bincode::serialize(&Probe::TupleSkippedKept(7, 9)).ok()),
        "note": "u32 little-endian variant index, then the non-skipped fields; no names, no lengths",
    });
    // the wire-equivalence the style notes rely on, checked on the probe
    let idx_only = |b: Option<Vec<u8>>| b.is_some_and(|b| b.len() == 4);
    if !idx_only(bincode::serialize(&Probe::Tuple0()).ok())
        || !idx_only(bincode::serialize(&Probe::Braced0 {}).ok())
        || bincode::serialize(&Probe::TupleSkippedKept(7, 9)).ok().map(|b| b[4..].to_vec()) != bincode::serialize(&9u64).ok()
    {
        machinery_error("variant-shape: bincode does not encode empty tuple/braced variants as bare indices or a one-field tuple variant as index + field");
    }
    let as_json = json!({
        "measured_with": "serde-reflection trace_simple_type (Deserialize side) and bincode::serialize (Serialize side) on the probe enum in mc-cli/src/shapes.rs",
        "shapes": table,
        "bincode_bytes": bincode_bytes,
        "variant_after_a_skipped_variant": {
            "declared_position": declared_after,
            "deserialize_index_traced": de_after,
            "serialize_index_bincode": ser_after,
            "note": "Deserialize (and the traced schema, and property C20) number non-skipped variants contiguously; Serialize writes the declared position - serde's own asymmetry, decided under C10 (D6)",
        },
    });
    SerdeFacts { formats, as_json }
}

#[derive(Serialize, Deserialize, Clone, Debug, PartialEq, Eq, PartialOrd, Ord)]
pub struct VariantShape {
    pub krate: String,
    pub enum_id: u32,
    /// position in the declared `variants` list
    pub position: usize,
    pub shape: String,
}

pub fn extra_ids(vs: &VariantShape, krate: &str) -> u32 {
    if vs.krate == krate {
        spec(&vs.shape).fields.len() as u32
    } else {
        0
    }
}

/// Gives the variant the shape. New field items get the ids `base_max + 1 ..`.
pub fn apply(c: &mut Crate, vs: &VariantShape, base_max: u32) {
    let s = spec(&vs.shape);
    let Some(Item { inner: ItemEnum::Enum(e), .. }) = c.index.get(&Id(vs.enum_id)) else {
        machinery_error("variant-shape: enum not in the description");
    };
    let Some(vid) = e.variants.get(vs.position).copied() else {
        machinery_error("variant-shape: variant position out of range");
    };
    if s.style == Style::SkipVariant {
        c.index.get_mut(&vid).expect("variant").attrs.push("#[serde(skip)]".to_string());
        return;
    }
    let mut ids = vec![];
    for (k, (name, prim, skipped)) in s.fields.iter().enumerate() {
        let id = Id(base_max + 1 + k as u32);
        ids.push(id);
        c.index.insert(
            id,
            Item {
                id,
                crate_id: 0,
                name: Some(name.to_string()),
                span: None,
                visibility: Visibility::Default,
                docs: None,
                links: Default::default(),
                attrs: if *skipped { vec!["#[serde(skip)]".to_string()] } else { vec![] },
                deprecation: None,
                inner: ItemEnum::StructField(Type::Primitive(prim.to_string())),
            },
        );
    }
    let kind = match s.style {
        Style::Unit | Style::UnitDiscriminant => VariantKind::Plain,
        Style::Tuple => VariantKind::Tuple(ids.into_iter().map(Some).collect()),
        Style::Braced => VariantKind::Struct { fields: ids, has_stripped_fields: false },
        Style::SkipVariant => unreachable!(),
    };
    match &mut c.index.get_mut(&vid).expect("variant").inner {
        ItemEnum::Variant(Variant { kind: k, discriminant }) => {
            *k = kind;
            if s.style == Style::UnitDiscriminant {
                *discriminant = Some(rustdoc_types::Discriminant { expr: "7".into(), value: "7".into() });
            }
        }
        _ => machinery_error("variant-shape: target is not a variant"),
    }
}

fn live_positions(c: &Crate, e: &rustdoc_types::Enum) -> Vec<usize> {
    e.variants
        .iter()
        .enumerate()
        .filter(|(_, v)| c.index.get(v).is_some_and(|i| !reference::serde_attrs(i).skip))
        .map(|(p, _)| p)
        .collect()
}

pub struct Expected {
    pub enum_name: String,
    pub variant_name: String,
    /// the unperturbed registry with exactly this variant changed
    pub registry: Value,
    /// entries reachable, in the unperturbed registry, from the variant's original payload
    pub payload_closure: BTreeSet<String>,
    /// registry entry -> crate whose items define it (unperturbed run)
    pub owner: BTreeMap<String, String>,
    pub root: String,
    /// serde's format of the altered variant (None: the variant is gone)
    pub serde_format: Option<Value>,
}

pub fn expected(fx: &Fixtures, facts: &SerdeFacts, vs: &VariantShape, b: &RunOut) -> Option<Expected> {
    let c = fx.crates.get(&vs.krate)?;
    let item = c.index.get(&Id(vs.enum_id))?;
    let ItemEnum::Enum(e) = &item.inner else { return None };
    if !reference::serde_attrs(item).unmodelled.is_empty() {
        return None;
    }
    let enum_name = reference::container_name(item)?;
    let live = live_positions(c, e);
    let live_index = live.iter().position(|p| *p == vs.position)?;
    let variant = c.index.get(&e.variants[vs.position])?;
    let va = reference::serde_attrs(variant);
    if !va.unmodelled.is_empty() {
        return None;
    }
    let s = spec(&vs.shape);
    let mut registry = b.registry.clone();
    let m = registry.get_mut(&enum_name)?.get_mut("ENUM")?.as_object_mut()?;
    if m.len() != live.len() {
        return None; // the unperturbed entry is already wrong; reported by the variant-index oracle
    }
    let old = m.get(&live_index.to_string())?.clone();
    let (variant_name, old_format) = old.as_object()?.iter().next().map(|(k, v)| (k.clone(), v.clone()))?;
    let mut refs = vec![];
    reference::referenced_type_names(&old_format, &mut refs);
    let serde_format = if s.style == Style::SkipVariant {
        if live.len() < 2 {
            return None;
        }
        // remove, and close the gap
        for i in live_index..live.len() - 1 {
            let next = m.get(&(i + 1).to_string())?.clone();
            m.insert(i.to_string(), next);
        }
        m.remove(&(live.len() - 1).to_string());
        None
    } else {
        let mut f = facts.formats.get(s.name)?.clone();
        // field names of a braced variant follow the variant's own rename_all, if any
        if let (Some(rule), Some(fields)) = (&va.rename_all, f.get_mut("STRUCT").and_then(Value::as_array_mut)) {
            for named in fields.iter_mut() {
                let o = named.as_object_mut()?;
                let (k, v) = o.iter().next().map(|(k, v)| (k.clone(), v.clone()))?;
                o.remove(&k);
                o.insert(reference::rename_field(rule, &k)?, v);
            }
        }
        let mut named = serde_json::Map::new();
        named.insert(variant_name.clone(), f.clone());
        m.insert(live_index.to_string(), Value::Object(named));
        Some(f)
    };
    // closure of the old payload's references
    let all = b.registry.as_object()?;
    let mut payload_closure: BTreeSet<String> = BTreeSet::new();
    while let Some(r) = refs.pop() {
        if payload_closure.insert(r.clone()) {
            if let Some(entry) = all.get(&r) {
                reference::referenced_type_names(entry, &mut refs);
            }
        }
    }
    let mut owner = BTreeMap::new();
    for k in &b.loaded {
        for n in depgraph::entries_of(fx, b, k) {
            owner.insert(n, k.clone());
        }
    }
    let _ = live_index;
    Some(Expected { enum_name, variant_name, registry, payload_closure, owner, root: b.loaded[0].clone(), serde_format })
}

/// What a variant format looks like on a wire that writes neither names nor lengths (bincode).
fn wire(f: &Value) -> Vec<Value> {
    if f == "UNIT" {
        vec![]
    } else if let Some(x) = f.get("NEWTYPE") {
        vec![x.clone()]
    } else if let Some(xs) = f.get("TUPLE").and_then(Value::as_array) {
        xs.clone()
    } else if let Some(xs) = f.get("STRUCT").and_then(Value::as_array) {
        xs.iter().filter_map(|n| n.as_object().and_then(|o| o.values().next().cloned())).collect()
    } else {
        vec![f.clone()]
    }
}

/// `(class, explanation)` of everything wrong with the registry of an altered description.
/// Class of a variant style that is not serde's but puts the same bytes on a bincode / bcs wire.
/// C20 demands agreement with serde's traced schema only for the shipped capability protocol
/// types; for other enums the property fixes presence, indices, order and closedness, not the
/// variant style. Such a deviation is therefore an evidence note, not a violation - unless the
/// enum is one of the shipped protocol types.
pub const WIRE_EQUIVALENT: &str = "shape-not-serdes-but-wire-equivalent";

pub fn is_note(x: &Expected, class: &str) -> bool {
    class == WIRE_EQUIVALENT && !PROTOCOL_TYPES.contains(&x.enum_name.as_str())
}

pub fn judge(x: &Expected, observed: &Value, loaded: &[String]) -> Vec<(String, String)> {
    let mut out = vec![];
    // Which entries may be gone: types of the app crate that were reachable through the variant's
    // original payload (they stay only if something else still leads to them), and everything a
    // dependent crate contributes if the payload was what referred to that crate and the crate is
    // no longer loaded. A dependent crate that is still loaded contributes all it did before.
    let pointed: BTreeSet<&String> =
        x.payload_closure.iter().filter_map(|n| x.owner.get(n)).filter(|k| **k != x.root).collect();
    let may_disappear: BTreeSet<&String> = x
        .owner
        .iter()
        .filter(|(n, k)| {
            if **k == x.root {
                x.payload_closure.contains(*n)
            } else {
                pointed.contains(k) && !loaded.contains(k)
            }
        })
        .map(|(n, _)| n)
        // synthetic containers (Range) exist only while a field of that type is reachable
        .chain(x.payload_closure.iter().filter(|n| !x.owner.contains_key(*n) && *n != "Request"))
        .collect();
    let exp_entry = &x.registry[&x.enum_name];
    let Some(obs_entry) = observed.get(&x.enum_name) else {
        return vec![("enum-missing".into(), format!("enum {} has no registry entry any more", x.enum_name))];
    };
    let (Some(ev), Some(ov)) = (reference::registry_variants(exp_entry), reference::registry_variants(obs_entry)) else {
        return vec![("enum-not-an-enum".into(), format!("entry {} is not an enum: {obs_entry}", x.enum_name))];
    };
    let en: Vec<&String> = ev.iter().map(|v| &v.1).collect();
    let on: Vec<&String> = ov.iter().map(|v| &v.1).collect();
    let keys: Vec<u64> = ov.iter().map(|v| v.0).collect();
    let missing: Vec<&&String> = en.iter().filter(|n| !on.contains(n)).collect();
    let extra: Vec<&&String> = on.iter().filter(|n| !en.contains(n)).collect();
    if !missing.is_empty() {
        out.push((
            "variant-missing".into(),
            format!(
                "declared, non-skipped variant(s) {missing:?} of {} are not in the registry; variant keys are {keys:?} (must be 0..{}); entry: {obs_entry}",
                x.enum_name,
                en.len()
            ),
        ));
    } else if !extra.is_empty() {
        out.push(("variant-extra".into(), format!("{} lists variant(s) {extra:?} that serde does not know (skipped); entry: {obs_entry}", x.enum_name)));
    } else if keys != (0..ov.len() as u64).collect::<Vec<_>>() {
        out.push(("indices-not-contiguous".into(), format!("variant keys of {} are {keys:?}", x.enum_name)));
    } else if en != on {
        out.push(("declaration-order".into(), format!("variants of {} are {on:?}, declared {en:?}", x.enum_name)));
    }
    // formats, variant by variant (by name, so that a numbering problem is not reported twice)
    let raw = |entry: &Value, idx: u64, name: &str| entry["ENUM"][idx.to_string()][name].clone();
    for (ei, name, _) in &ev {
        let Some((oi, _, _)) = ov.iter().find(|v| &v.1 == name) else { continue };
        let (e, o) = (raw(exp_entry, *ei, name), raw(obs_entry, *oi, name));
        if e == o {
            continue;
        }
        if *name == x.variant_name {
            if wire(&e) == wire(&o) {
                out.push((
                    WIRE_EQUIVALENT.into(),
                    format!("{}::{name}: crux_cli derives {o}, serde (traced) has {e}; both put the same bytes on a bincode wire, the generated types differ", x.enum_name),
                ));
            } else {
                out.push(("shape-not-serdes".into(), format!("{}::{name}: crux_cli derives {o}, serde (traced) has {e}; the two put different bytes on a bincode wire", x.enum_name)));
            }
        } else {
            out.push(("other-variant-changed".into(), format!("{}::{name} changed from {e} to {o} although only {} was altered", x.enum_name, x.variant_name)));
        }
    }
    // the rest of the registry
    let (eo, oo) = (x.registry.as_object().unwrap(), observed.as_object().unwrap());
    for (n, e) in eo {
        if *n == x.enum_name {
            continue;
        }
        match oo.get(n) {
            Some(o) if o == e => {}
            Some(o) => out.push(("other-entry-changed".into(), format!("entry {n} changed from {e} to {o}"))),
            None if may_disappear.contains(n) => {}
            None => out.push(("entry-missing".into(), format!("entry {n} disappeared although the altered variant's original payload did not lead to it"))),
        }
    }
    for n in oo.keys() {
        if !eo.contains_key(n) {
            out.push(("entry-extra".into(), format!("new entry {n}")));
        }
    }
    for (c, m) in closedness(observed) {
        out.push(("not-closed".into(), format!("{c} references {m}, which has no entry")));
    }
    out
}

pub fn case(description: &str, deps: &[String], vs: &VariantShape, renumber: Renumber) -> Case {
    Case {
        family: "variant-shape".into(),
        renumber,
        variant_shape: Some(vs.clone()),
        ..baseline_case(description, deps)
    }
}

pub fn describe(fx: &Fixtures, vs: &VariantShape) -> String {
    let c = fx.crates.get(&vs.krate);
    let e = c.and_then(|c| c.index.get(&Id(vs.enum_id)));
    let v = e.and_then(|e| match &e.inner {
        ItemEnum::Enum(en) => en.variants.get(vs.position).and_then(|v| c.and_then(|c| c.index.get(v))),
        _ => None,
    });
    let vname = v.and_then(|v| v.name.clone()).unwrap_or_default();
    let written = match vs.shape.as_str() {
        "unit" => vname.to_string(),
        "unit-with-explicit-discriminant" => format!("{vname} = 7"),
        "tuple-0" => format!("{vname}()"),
        "tuple-only-field-skipped" => format!("{vname}(#[serde(skip)] u32)"),
        "tuple-1" => format!("{vname}(u32)"),
        "tuple-2" => format!("{vname}(u32, u64)"),
        "tuple-skipped-and-kept" => format!("{vname}(#[serde(skip)] u32, u64)"),
        "braced-0" => format!("{vname} {{}}"),
        "braced-only-field-skipped" => format!("{vname} {{ #[serde(skip)] a: u32 }}"),
        "braced-1" => format!("{vname} {{ a: u32 }}"),
        "braced-2" => format!("{vname} {{ a: u32, b: u64 }}"),
        _ => format!("#[serde(skip)] {vname}(..)"),
    };
    format!(
        "variant {} (declared position {}) of enum {}::{} rewritten as `{written}`",
        vname,
        vs.position,
        vs.krate,
        e.and_then(|e| e.name.clone()).unwrap_or_default()
    )
}

pub struct Stats {
    pub runs: u64,
    pub compared: u64,
    pub evaluations: u64,
    pub states: BTreeSet<(String, u64)>,
    pub skipped: u64,
    pub coverage: Value,
}

pub fn run_dimension(
    fx: &Fixtures,
    base: &BTreeMap<String, RunOut>,
    tier: Tier,
    reporter: &Reporter,
    deadline: &Deadline,
    samples: &mut Samples,
) -> Option<Stats> {
    let facts = serde_facts();
    let wanted: Vec<&str> = match tier {
        Tier::Quick => vec!["tap_to_pay", "bridge_echo"],
        Tier::Thorough => EXAMPLES.to_vec(),
    };
    if wanted.iter().any(|d| !base.contains_key(*d)) {
        return None; // development filter
    }
    // targets: enums of the app crate that reach the formatter x variant positions
    let mut targets: Vec<(String, Vec<String>, VariantShape)> = vec![];
    let mut enums = 0u64;
    let mut positions = 0u64;
    for d in &wanted {
        let b = &base[*d];
        let c = &fx.crates[*d];
        let mut deps = b.loaded[1..].to_vec();
        deps.sort();
        let sources: BTreeSet<u32> = b.edges.iter().filter(|(s, _)| s.0 == *d).map(|(s, _)| s.1).collect();
        for id in sources {
            let Some(Item { inner: ItemEnum::Enum(e), .. }) = c.index.get(&Id(id)) else { continue };
            let live = live_positions(c, e);
            if live.is_empty() {
                continue;
            }
            enums += 1;
            let chosen: BTreeSet<usize> = match tier {
                Tier::Quick => [live[0], live[live.len() / 2], live[live.len() - 1]].into_iter().collect(),
                Tier::Thorough => live.iter().copied().collect(),
            };
            for p in chosen {
                positions += 1;
                for s in &SHAPES {
                    if s.style == Style::SkipVariant && live.len() < 2 {
                        continue; // an enum without any variant serde knows is outside the space
                    }
                    targets.push((
                        d.to_string(),
                        deps.clone(),
                        VariantShape { krate: d.to_string(), enum_id: id, position: p, shape: s.name.to_string() },
                    ));
                }
            }
        }
    }
    let mut cases: Vec<Case> = vec![];
    for (d, deps, vs) in &targets {
        cases.push(case(d, deps, vs, Renumber::Identity));
        cases.push(case(d, deps, vs, Renumber::Reverse { crates: vec![d.clone()] }));
    }
    // expensive descriptions first
    cases.sort_by_key(|c| std::cmp::Reverse(base[&c.description].ms as u64));
    let results: Vec<Option<RunResult>> = par_map(&cases, |_, c| {
        if deadline.expired() {
            return None;
        }
        Some(execute(fx, c))
    });
    let mut st = Stats { runs: 0, compared: 0, evaluations: 0, states: BTreeSet::new(), skipped: 0, coverage: Value::Null };
    let mut per_shape: BTreeMap<&str, (u64, u64, u64)> = BTreeMap::new(); // runs, exactly serde's, not derivable
    // shape -> (count, (loaded crates, description, what)) of wire-equivalent style deviations
    let mut style_notes: BTreeMap<&str, (u64, Option<(usize, String, Value)>)> = BTreeMap::new();
    let mut distinct_registries: BTreeSet<u64> = BTreeSet::new();
    let mut times = vec![];
    for (c, r) in cases.iter().zip(&results) {
        let vs = c.variant_shape.as_ref().unwrap();
        let Some(r) = r else {
            st.skipped += 1;
            continue;
        };
        st.runs += 1;
        let shape = spec(&vs.shape).name;
        let slot = per_shape.entry(shape).or_insert((0, 0, 0));
        slot.0 += 1;
        let size = 2 + usize::from(c.renumber != Renumber::Identity) + base[&c.description].loaded.len();
        let report = |class: &str, what: String, extra: Value| {
            reporter.violation(Violation {
                key: format!("variant-shape/{shape}/{class}"),
                what: format!("{}: {what}; run: {}", describe(fx, vs), describe_case(fx, c)),
                replay: json!({"case": c, "details": extra}),
                size,
            });
        };
        match r {
            RunResult::Ok(o) => {
                times.push(o.ms);
                st.compared += 1;
                st.evaluations += 1;
                let mark = fnv64(serde_json::to_string(vs).unwrap().as_bytes());
                st.states.insert((c.description.clone(), o.fingerprint ^ mark));
                distinct_registries.insert(o.registry_hash);
                samples.offer(|| json!({"case": c, "altered": describe(fx, vs), "registry_hash": format!("{:016x}", o.registry_hash)}));
                match expected(fx, &facts, vs, &base[&c.description]) {
                    None => slot.2 += 1,
                    Some(x) => {
                        let (notes, findings): (Vec<_>, Vec<_>) =
                            judge(&x, &o.registry, &o.loaded).into_iter().partition(|(class, _)| is_note(&x, class));
                        if findings.is_empty() && notes.is_empty() {
                            slot.1 += 1;
                        }
                        for (_, what) in notes {
                            let n = style_notes.entry(shape).or_insert((0, None));
                            n.0 += 1;
                            let rank = (base[&c.description].loaded.len(), c.description.clone());
                            if n.1.as_ref().is_none_or(|(l, d, _)| rank < (*l, d.clone())) && c.renumber == Renumber::Identity {
                                n.1 = Some((rank.0, rank.1, json!({"altered": describe(fx, vs), "what": what, "crux_cli": o.registry[&x.enum_name]["ENUM"], "serde": x.registry[&x.enum_name]["ENUM"], "case": c})));
                            }
                        }
                        for (class, what) in findings {
                            report(&class, what, json!({"enum": x.enum_name, "variant": x.variant_name, "expected_entry": x.registry.get(&x.enum_name), "observed_entry": o.registry.get(&x.enum_name), "serde_format": x.serde_format}));
                        }
                    }
                }
            }
            RunResult::Err(e) => {
                st.evaluations += 1;
                let key: String = e.chars().take(40).map(|c| if c.is_ascii_alphanumeric() { c.to_ascii_lowercase() } else { '-' }).collect();
                report(&format!("run-error/{}", key.trim_matches('-')), format!("codegen fails: {e}"), json!({"error": e}));
            }
            RunResult::Panic(p) => {
                st.evaluations += 1;
                report(&p.key(), format!("codegen panics at {}:{}: {}", p.file, p.line, p.message), json!({"panic": p.message}));
            }
        }
    }
    for (shape, (n, ex)) in &style_notes {
        if let Some((_, d, e)) = ex {
            println!("note: variant-shape/{shape}: crux_cli's variant style is not serde's but the bincode/bcs bytes are identical ({n} runs; smallest description {d}: {}); outside what C20 states for non-protocol enums, recorded in the evidence", e["what"].as_str().unwrap_or_default());
        }
    }
    times.sort_by(|a: &f64, b| a.partial_cmp(b).unwrap());
    st.coverage = json!({
        "bound": format!("descriptions {wanted:?}; every enum of the app crate that reaches the formatter; variant positions: {}; each position rewritten to each of the {} shapes below (the whole-variant skip only where another variant remains); each altered description run with identity numbering and with reversed numbering of the app crate, ascending facts, name-order load priority", tier.pick("first, middle and last non-skipped variant", "every non-skipped variant"), SHAPES.len()),
        "shapes": SHAPES.iter().map(|s| s.name).collect::<Vec<_>>(),
        "what_serde_does": facts.as_json,
        "enums": enums,
        "variant_positions": positions,
        "altered_descriptions": targets.len(),
        "runs_executed": st.runs,
        "runs_cut_by_deadline": st.skipped,
        "per_shape": per_shape.iter().map(|(k, (r, ok, nd))| (k.to_string(), json!({"runs": r, "registry_exactly_as_serde": ok, "variant_style_not_serdes_but_wire_equivalent": style_notes.get(k).map_or(0, |n| n.0), "expectation_not_derivable": nd}))).collect::<serde_json::Map<_, _>>(),
        "variant_style_notes": {
            "status": "not violations: C20 demands agreement with serde's traced schema only for the shipped capability protocol types; for other enums it fixes presence, contiguous indices from zero in declaration order, closedness and order/numbering independence, not the variant style. The same deviation on a shipped protocol type, or any deviation whose bincode bytes differ, is a violation (classes shape-not-serdes-but-wire-equivalent on a protocol type, shape-not-serdes)",
            "wire_equivalence": "bincode and bcs (the encodings of the generated runtimes) write a variant as its index followed by its fields, without names or lengths, so UNIT = TUPLE [] = STRUCT [] and NEWTYPE x = TUPLE [x] byte for byte; measured on the probe enum under what_serde_does.bincode_bytes",
            "shapes": style_notes.iter().map(|(k, (n, ex))| (k.to_string(), json!({"runs_with_this_deviation": n, "smallest_description": ex.as_ref().map(|e| e.1.clone()), "example": ex.as_ref().map(|e| e.2.clone())}))).collect::<serde_json::Map<_, _>>(),
        },
        "distinct_registries_observed": distinct_registries.len(),
        "oracle": "the enum lists exactly the declared non-skipped variants under keys 0..n-1 in declaration order; the altered variant has the format serde-reflection traces for that shape (a different style with the same bincode bytes is an evidence note under variant_style_notes unless the enum is a shipped protocol type; a style with different bytes is a violation); every other variant and every other entry is as in the unperturbed run, except that app-crate entries reachable through the variant's original payload may disappear, and the entries of a dependent crate may disappear only when the payload was what referred to that crate and the crate is no longer loaded (a crate that is still referenced but not loaded shows up as a dangling reference); the registry is closed",
        "run_ms_median": times.get(times.len() / 2),
    });
    Some(st)
}

pub fn replay(fx: &Fixtures, case: &Case) -> i32 {
    let vs = case.variant_shape.as_ref().expect("variant-shape case");
    let facts = serde_facts();
    println!("step 1: what serde does with the shapes (measured now): {}", facts.as_json["shapes"][&vs.shape]);
    println!("step 2: unperturbed run of {}", case.description);
    let base = match execute(fx, &baseline_case(&case.description, &case.load_priority)) {
        RunResult::Ok(o) => o,
        other => {
            println!("  failed: {other:?}");
            return 1;
        }
    };
    println!("  loaded {:?}, {} containers", base.loaded, base.registry.as_object().map_or(0, |m| m.len()));
    println!("step 3: altered description: {}", describe(fx, vs));
    println!("  run: {}", describe_case(fx, case));
    let mut bad = false;
    match execute(fx, case) {
        RunResult::Ok(o) => match expected(fx, &facts, vs, &base) {
            None => println!("  expectation not derivable for this enum"),
            Some(x) => {
                println!("  expected entry {}: {}", x.enum_name, x.registry[&x.enum_name]);
                println!("  observed entry {}: {}", x.enum_name, o.registry.get(&x.enum_name).map_or("<absent>".into(), |v| v.to_string()));
                println!("step 4: oracles");
                for (class, what) in judge(&x, &o.registry, &o.loaded) {
                    if is_note(&x, &class) {
                        println!("  (note, not a violation) [variant-shape/{}/{class}] {what}", vs.shape);
                    } else {
                        bad = true;
                        println!("  [variant-shape/{}/{class}] {what}", vs.shape);
                    }
                }
            }
        },
        RunResult::Err(e) => {
            bad = true;
            println!("  pipeline returned an error: {e}");
        }
        RunResult::Panic(p) => {
            bad = true;
            println!("  pipeline panicked at {}:{}: {}", p.file, p.line, p.message);
        }
    }
    println!("verdict: {}", if bad { "violation reproduced" } else { "no violation on this tree" });
    i32::from(bad)
}
