//! Field-attribute dimension of C20: one of the fields a dependent crate marks
//! `#[serde(with = "serde_bytes")]` loses that attribute, in memory. The same type (`Vec<u8>`) then
//! occurs in one crate both with and without the override - which no bundled description does - and
//! the registry must say BYTES for the one and SEQ U8 for the other, whatever the order in which
//! facts and edges reach the formatter, with nothing else moved.

use super::*;

#[derive(Serialize, Deserialize, Clone, Debug, PartialEq, Eq, PartialOrd, Ord)]
pub struct StripBytes {
    pub krate: String,
    /// the struct field (or variant payload field) item whose `serde_bytes` attribute is removed
    pub field_id: u32,
    /// container and field name in the registry (for the expectation and the description)
    pub container: String,
    pub field: String,
}

fn is_bytes_attr(a: &str) -> bool {
    a.contains("serde_bytes")
}

pub fn apply(c: &mut Crate, sb: &StripBytes) {
    let Some(item) = c.index.get_mut(&Id(sb.field_id)) else {
        machinery_error("bytes-attribute: field not in the description");
    };
    let before = item.attrs.len();
    item.attrs.retain(|a| !is_bytes_attr(a));
    if item.attrs.len() == before {
        machinery_error("bytes-attribute: the field carries no serde_bytes attribute");
    }
}

/// (container name, field name, field id) of every named struct field with the attribute
fn candidates(c: &Crate) -> Vec<(String, String, u32)> {
    let mut out = vec![];
    for item in c.index.values() {
        let ItemEnum::Struct(s) = &item.inner else { continue };
        let rustdoc_types::StructKind::Plain { fields, .. } = &s.kind else { continue };
        for f in fields {
            if let Some(fi) = c.index.get(f) {
                if fi.attrs.iter().any(|a| is_bytes_attr(a)) {
                    if let (Some(cn), Some(fname)) = (&item.name, &fi.name) {
                        out.push((cn.clone(), fname.clone(), f.0));
                    }
                }
            }
        }
    }
    out.sort();
    out
}

/// The baseline registry with exactly `container.field` turned from BYTES into SEQ U8.
fn expected(base: &Value, sb: &StripBytes) -> Option<Value> {
    let mut reg = base.clone();
    let fields = reg.get_mut(&sb.container)?.get_mut("STRUCT")?.as_array_mut()?;
    let mut hit = false;
    for f in fields.iter_mut() {
        if let Some(v) = f.get_mut(&sb.field) {
            if *v != json!("BYTES") {
                return None;
            }
            *v = json!({"SEQ": "U8"});
            hit = true;
        }
    }
    hit.then_some(reg)
}

pub struct Stats {
    pub runs: u64,
    pub fields: usize,
    pub coverage: Value,
}

pub fn case(description: &str, deps: &[String], sb: &StripBytes, facts: Order, edges: Order) -> Case {
    let mut c = baseline_case(description, deps);
    c.family = "bytes-attribute".into();
    c.facts = facts;
    c.edges = edges;
    c.strip_bytes = Some(sb.clone());
    c
}

pub fn run_dimension(fx: &Fixtures, base: &BTreeMap<String, RunOut>, tier: Tier, reporter: &Reporter) -> Stats {
    let mut cases: Vec<(Case, StripBytes, String)> = vec![];
    let mut fields = BTreeSet::new();
    for (d, b) in base {
        // quick: one description per dependent crate (the one with the fewest loaded crates)
        for krate in &b.loaded[1..] {
            if tier == Tier::Quick && base.iter().any(|(d2, b2)| b2.loaded[1..].contains(krate) && (b2.loaded.len(), d2) < (b.loaded.len(), d)) {
                continue;
            }
            let Some(c) = fx.crates.get(krate) else { continue };
            for (container, field, id) in candidates(c) {
                let sb = StripBytes { krate: krate.clone(), field_id: id, container: container.clone(), field: field.clone() };
                if expected(&b.registry, &sb).is_none() {
                    continue; // the field is not reachable from this description
                }
                fields.insert((krate.clone(), container.clone(), field.clone()));
                for facts in [Order::Asc, Order::Desc] {
                    for edges in [Order::Natural, Order::Asc, Order::Desc] {
                        cases.push((case(d, &b.loaded[1..].to_vec(), &sb, facts.clone(), edges), sb.clone(), d.clone()));
                    }
                }
            }
        }
    }
    let results = par_map(&cases, |_, (c, _, _)| execute(fx, c));
    let mut runs = 0u64;
    for ((c, sb, d), r) in cases.iter().zip(results) {
        runs += 1;
        let what_case = format!(
            "description {d}: {}::{}.{} without its serde_bytes attribute (the crate's other Vec<u8> fields keep theirs), facts {:?}, edges {:?}",
            sb.krate, sb.container, sb.field, c.facts, c.edges
        );
        let (key, what) = match r {
            RunResult::Ok(o) => {
                let want = expected(&base[d].registry, sb).expect("checked above");
                if o.registry == want {
                    continue;
                }
                let here = o.registry.get(&sb.container).cloned().unwrap_or(Value::Null);
                let same_elsewhere = {
                    let mut a = o.registry.clone();
                    let mut b = want.clone();
                    if let (Some(x), Some(y)) = (a.as_object_mut(), b.as_object_mut()) {
                        x.remove(&sb.container);
                        y.remove(&sb.container);
                    }
                    a == b
                };
                if same_elsewhere {
                    ("bytes-attribute/field-format-not-its-own".to_string(), format!("{what_case}: {} is {here}, expected {}", sb.container, want[&sb.container]))
                } else {
                    ("bytes-attribute/another-field-changed".to_string(), format!("{what_case}: entries other than {} differ from the unperturbed registry ({})", sb.container, diff_class(&want, &o.registry).1))
                }
            }
            RunResult::Err(e) => ("bytes-attribute/run-failed".to_string(), format!("{what_case}: {e}")),
            RunResult::Panic(p) => ("bytes-attribute/panic".to_string(), format!("{what_case}: panic: {}", p.message)),
        };
        reporter.violation(Violation { key, what, replay: serde_json::to_value(c).unwrap(), size: 1 });
    }
    if fields.is_empty() {
        machinery_error("bytes-attribute: no reachable field carries a serde_bytes attribute (vacuous)");
    }
    Stats {
        runs,
        fields: fields.len(),
        coverage: json!({
            "what": "one serde_bytes field of a dependent crate loses its attribute in memory, so that Vec<u8> occurs in one crate with and without the override; facts ascending / descending x edges natural / ascending / descending",
            "oracle": "the registry equals the unperturbed one with exactly that field turned from BYTES into SEQ U8, in every order",
            "fields": fields.iter().map(|(k, c, f)| format!("{k}::{c}.{f}")).collect::<Vec<_>>(),
            "runs": runs,
        }),
    }
}
