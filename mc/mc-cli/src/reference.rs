//! Independent re-derivation, from a rustdoc description, of what serde's derive does with a
//! type definition: variant order/indices/names for every enum, and complete container formats
//! for the small type vocabulary used by the capability protocol types. Written against serde's
//! documented rules, not against crux_cli's formatter, and it does not share code with it.
//! Everything returns `None` ("not derivable") rather than guessing when a definition uses a
//! serde feature or a type shape that is not modelled here.

use rustdoc_types::{
    Crate, GenericArg, GenericArgs, Id, Item, ItemEnum, StructKind, Type, VariantKind,
};
use serde_json::{json, Map, Value};

#[derive(Debug, Default, Clone)]
pub struct SerdeAttrs {
    pub skip: bool,
    pub rename: Option<String>,
    pub rename_all: Option<String>,
    pub with: Option<String>,
    /// serde attributes that change the representation in ways not modelled here
    pub unmodelled: Vec<String>,
}

/// Parses the `#[serde(...)]` attributes of an item (rustdoc prints attributes as source text).
pub fn serde_attrs(item: &Item) -> SerdeAttrs {
    let mut out = SerdeAttrs::default();
    for attr in &item.attrs {
        let compact: String = {
            // remove whitespace outside string literals
            let mut s = String::new();
            let mut in_str = false;
            for c in attr.chars() {
                if c == '"' {
                    in_str = !in_str;
                }
                if in_str || !c.is_whitespace() {
                    s.push(c);
                }
            }
            s
        };
        let Some(inner) = compact
            .strip_prefix("#[serde(")
            .and_then(|r| r.strip_suffix(")]"))
        else {
            continue;
        };
        // split at top-level commas
        let mut parts = vec![];
        let (mut depth, mut in_str, mut cur) = (0i32, false, String::new());
        for c in inner.chars() {
            match c {
                '"' => {
                    in_str = !in_str;
                    cur.push(c);
                }
                '(' if !in_str => {
                    depth += 1;
                    cur.push(c);
                }
                ')' if !in_str => {
                    depth -= 1;
                    cur.push(c);
                }
                ',' if !in_str && depth == 0 => parts.push(std::mem::take(&mut cur)),
                _ => cur.push(c),
            }
        }
        if !cur.is_empty() {
            parts.push(cur);
        }
        for p in parts {
            let (k, v) = match p.split_once('=') {
                Some((k, v)) => (k.to_string(), Some(v.trim_matches('"').to_string())),
                None => (p.clone(), None),
            };
            match (k.as_str(), v) {
                ("skip", None) => out.skip = true,
                ("rename", Some(v)) => out.rename = Some(v),
                ("rename_all", Some(v)) => out.rename_all = Some(v),
                ("with", Some(v)) => out.with = Some(v),
                // no influence on the traced schema
                ("default", _) | ("deny_unknown_fields", None) | ("bound", _) => {}
                _ => out.unmodelled.push(p),
            }
        }
    }
    out
}

fn words_of_variant(name: &str) -> Vec<String> {
    // serde splits a PascalCase variant name before every uppercase letter
    let mut words: Vec<String> = vec![];
    for c in name.chars() {
        if c.is_uppercase() || words.is_empty() {
            words.push(String::new());
        }
        words.last_mut().unwrap().push(c);
    }
    words
}

/// serde's `rename_all` applied to a variant name (declared in PascalCase).
pub fn rename_variant(rule: &str, name: &str) -> Option<String> {
    let snake = || {
        words_of_variant(name)
            .iter()
            .map(|w| w.to_lowercase())
            .collect::<Vec<_>>()
            .join("_")
    };
    Some(match rule {
        "PascalCase" => name.to_string(),
        "lowercase" => name.to_lowercase(),
        "UPPERCASE" => name.to_uppercase(),
        "camelCase" => {
            let mut cs = name.chars();
            match cs.next() {
                Some(f) => f.to_lowercase().collect::<String>() + cs.as_str(),
                None => String::new(),
            }
        }
        "snake_case" => snake(),
        "SCREAMING_SNAKE_CASE" => snake().to_uppercase(),
        "kebab-case" => snake().replace('_', "-"),
        "SCREAMING-KEBAB-CASE" => snake().to_uppercase().replace('_', "-"),
        _ => return None,
    })
}

/// serde's `rename_all` applied to a field name (declared in snake_case).
pub fn rename_field(rule: &str, name: &str) -> Option<String> {
    let pascal = || {
        name.split('_')
            .map(|w| {
                let mut cs = w.chars();
                match cs.next() {
                    Some(f) => f.to_uppercase().collect::<String>() + cs.as_str(),
                    None => String::new(),
                }
            })
            .collect::<String>()
    };
    Some(match rule {
        "snake_case" | "lowercase" => name.to_string(),
        "UPPERCASE" | "SCREAMING_SNAKE_CASE" => name.to_uppercase(),
        "PascalCase" => pascal(),
        "camelCase" => {
            let p = pascal();
            let mut cs = p.chars();
            match cs.next() {
                Some(f) => f.to_lowercase().collect::<String>() + cs.as_str(),
                None => String::new(),
            }
        }
        "kebab-case" => name.replace('_', "-"),
        "SCREAMING-KEBAB-CASE" => name.to_uppercase().replace('_', "-"),
        _ => return None,
    })
}

/// Name under which serde (and therefore the registry) knows a struct or enum.
pub fn container_name(item: &Item) -> Option<String> {
    let a = serde_attrs(item);
    a.rename.or_else(|| item.name.clone())
}

#[derive(Debug, Clone, PartialEq, Eq)]
pub enum Shape {
    Unit,
    NewType,
    Tuple(usize),
    /// serialized field names in declaration order
    Struct(Vec<String>),
}

#[derive(Debug, Clone, PartialEq, Eq)]
pub struct ExpectedVariant {
    pub name: String,
    pub shape: Shape,
    pub declared_position: usize,
}

fn live_fields<'a>(c: &'a Crate, ids: impl Iterator<Item = &'a Id>) -> Option<Vec<&'a Item>> {
    let mut out = vec![];
    for id in ids {
        let item = c.index.get(id)?;
        if !serde_attrs(item).skip {
            out.push(item);
        }
    }
    Some(out)
}

fn named_fields(c: &Crate, ids: &[Id], parent: &SerdeAttrs) -> Option<Vec<(String, Item)>> {
    let mut out = vec![];
    for f in live_fields(c, ids.iter())? {
        let a = serde_attrs(f);
        if !a.unmodelled.is_empty() {
            return None;
        }
        let declared = f.name.clone()?;
        let name = match (&a.rename, &parent.rename_all) {
            (Some(r), _) => r.clone(),
            (None, Some(rule)) => rename_field(rule, &declared)?,
            (None, None) => declared,
        };
        out.push((name, f.clone()));
    }
    Some(out)
}

/// The variants serde's `Deserialize` numbers 0..n-1: the declared ones, in declaration order,
/// without those marked `#[serde(skip)]`. `None` if the enum uses an unmodelled representation.
pub fn expected_variants(c: &Crate, enum_item: &Item) -> Option<Vec<ExpectedVariant>> {
    let ItemEnum::Enum(e) = &enum_item.inner else {
        return None;
    };
    let ea = serde_attrs(enum_item);
    if !ea.unmodelled.is_empty() {
        return None;
    }
    let mut out = vec![];
    for (pos, vid) in e.variants.iter().enumerate() {
        let v = c.index.get(vid)?;
        let va = serde_attrs(v);
        if va.skip {
            continue;
        }
        if !va.unmodelled.is_empty() {
            return None;
        }
        let ItemEnum::Variant(var) = &v.inner else {
            return None;
        };
        let declared = v.name.clone()?;
        let name = match (&va.rename, &ea.rename_all) {
            (Some(r), _) => r.clone(),
            (None, Some(rule)) => rename_variant(rule, &declared)?,
            (None, None) => declared,
        };
        let shape = match &var.kind {
            VariantKind::Plain => Shape::Unit,
            VariantKind::Tuple(fields) => {
                // `None` entries are fields rustdoc stripped (private/hidden): not derivable
                if fields.iter().any(|f| f.is_none()) {
                    return None;
                }
                let live = live_fields(c, fields.iter().flatten())?;
                match live.len() {
                    0 => Shape::Unit,
                    1 => Shape::NewType,
                    n => Shape::Tuple(n),
                }
            }
            VariantKind::Struct { fields, has_stripped_fields } => {
                if *has_stripped_fields {
                    return None;
                }
                Shape::Struct(
                    named_fields(c, fields, &va)?
                        .into_iter()
                        .map(|(n, _)| n)
                        .collect(),
                )
            }
        };
        out.push(ExpectedVariant { name, shape, declared_position: pos });
    }
    Some(out)
}

// -------------------------------------------------------------------------------------------
// complete formats (protocol-type vocabulary only)

fn last_segment(path: &str) -> &str {
    path.rsplit("::").next().unwrap_or(path)
}

fn single_type_arg(args: &Option<Box<GenericArgs>>) -> Option<&Type> {
    match args.as_deref()? {
        GenericArgs::AngleBracketed { args, .. } if args.len() == 1 => match &args[0] {
            GenericArg::Type(t) => Some(t),
            _ => None,
        },
        _ => None,
    }
}

fn has_no_args(args: &Option<Box<GenericArgs>>) -> bool {
    match args.as_deref() {
        None => true,
        Some(GenericArgs::AngleBracketed { args, constraints }) => {
            args.is_empty() && constraints.is_empty()
        }
        _ => false,
    }
}

pub fn format_of_type(t: &Type) -> Option<Value> {
    Some(match t {
        Type::Primitive(p) => json!(match p.as_str() {
            "bool" => "BOOL",
            "char" => "CHAR",
            "i8" => "I8",
            "i16" => "I16",
            "i32" => "I32",
            "i64" | "isize" => "I64",
            "i128" => "I128",
            "u8" => "U8",
            "u16" => "U16",
            "u32" => "U32",
            "u64" | "usize" => "U64",
            "u128" => "U128",
            "f32" => "F32",
            "f64" => "F64",
            "str" => "STR",
            _ => return None,
        }),
        Type::Tuple(ts) if ts.is_empty() => json!("UNIT"),
        Type::Tuple(ts) => {
            let fs: Option<Vec<Value>> = ts.iter().map(format_of_type).collect();
            json!({ "TUPLE": fs? })
        }
        Type::ResolvedPath(p) => match last_segment(&p.path) {
            "String" if has_no_args(&p.args) => json!("STR"),
            "Vec" => json!({ "SEQ": format_of_type(single_type_arg(&p.args)?)? }),
            "Option" => json!({ "OPTION": format_of_type(single_type_arg(&p.args)?)? }),
            "Box" => format_of_type(single_type_arg(&p.args)?)?,
            name if has_no_args(&p.args) => json!({ "TYPENAME": name }),
            _ => return None,
        },
        _ => return None,
    })
}

fn format_of_field(f: &Item) -> Option<Value> {
    let ItemEnum::StructField(t) = &f.inner else {
        return None;
    };
    let a = serde_attrs(f);
    if !a.unmodelled.is_empty() {
        return None;
    }
    match a.with.as_deref() {
        None => format_of_type(t),
        Some("serde_bytes") => {
            // serde_bytes on Vec<u8> (the only use in the protocol types)
            let is_vec_u8 = matches!(t, Type::ResolvedPath(p)
                if last_segment(&p.path) == "Vec"
                    && matches!(single_type_arg(&p.args), Some(Type::Primitive(x)) if x == "u8"));
            is_vec_u8.then(|| json!("BYTES"))
        }
        Some(_) => None,
    }
}

fn named_formats(c: &Crate, ids: &[Id], parent: &SerdeAttrs) -> Option<Value> {
    let mut out = vec![];
    for (name, f) in named_fields(c, ids, parent)? {
        let mut m = Map::new();
        m.insert(name, format_of_field(&f)?);
        out.push(Value::Object(m));
    }
    Some(Value::Array(out))
}

fn tuple_formats(c: &Crate, ids: &[Option<Id>]) -> Option<Vec<Value>> {
    if ids.iter().any(|f| f.is_none()) {
        return None;
    }
    live_fields(c, ids.iter().flatten())?
        .into_iter()
        .map(format_of_field)
        .collect()
}

/// The container format serde-reflection would report for this struct or enum definition,
/// in the JSON form both registries serialize to. `None` = not derivable with this model.
pub fn container_format(c: &Crate, item: &Item) -> Option<Value> {
    let a = serde_attrs(item);
    if !a.unmodelled.is_empty() {
        return None;
    }
    match &item.inner {
        ItemEnum::Struct(s) => {
            if !s.generics.params.is_empty() {
                return None;
            }
            Some(match &s.kind {
                StructKind::Unit => json!("UNITSTRUCT"),
                StructKind::Tuple(fields) => {
                    let mut fs = tuple_formats(c, fields)?;
                    match fs.len() {
                        0 => json!("UNITSTRUCT"),
                        1 => json!({ "NEWTYPESTRUCT": fs.remove(0) }),
                        _ => json!({ "TUPLESTRUCT": fs }),
                    }
                }
                StructKind::Plain { fields, has_stripped_fields } => {
                    if *has_stripped_fields {
                        return None;
                    }
                    let fs = named_formats(c, fields, &a)?;
                    if fs.as_array().is_some_and(|v| v.is_empty()) {
                        // serde derives a struct with zero fields; tracing reports it as a
                        // struct without fields. Not used by the protocol types.
                        return None;
                    }
                    json!({ "STRUCT": fs })
                }
            })
        }
        ItemEnum::Enum(e) => {
            if !e.generics.params.is_empty() {
                return None;
            }
            let variants = expected_variants(c, item)?;
            let mut m = Map::new();
            for (i, ev) in variants.iter().enumerate() {
                let v = c.index.get(&e.variants[ev.declared_position])?;
                let va = serde_attrs(v);
                let ItemEnum::Variant(var) = &v.inner else {
                    return None;
                };
                let f = match &var.kind {
                    VariantKind::Plain => json!("UNIT"),
                    VariantKind::Tuple(fields) => {
                        let mut fs = tuple_formats(c, fields)?;
                        match fs.len() {
                            0 => json!("UNIT"),
                            1 => json!({ "NEWTYPE": fs.remove(0) }),
                            _ => json!({ "TUPLE": fs }),
                        }
                    }
                    VariantKind::Struct { fields, .. } => {
                        json!({ "STRUCT": named_formats(c, fields, &va)? })
                    }
                };
                let mut named = Map::new();
                named.insert(ev.name.clone(), f);
                m.insert(i.to_string(), Value::Object(named));
            }
            Some(json!({ "ENUM": m }))
        }
        _ => None,
    }
}

// -------------------------------------------------------------------------------------------
// reading a registry entry (JSON form)

/// `(index, name, shape)` of every variant of an `ENUM` registry entry, in key order.
pub fn registry_variants(entry: &Value) -> Option<Vec<(u64, String, Shape)>> {
    let m = entry.get("ENUM")?.as_object()?;
    let mut out = vec![];
    for (k, v) in m {
        let idx: u64 = k.parse().ok()?;
        let named = v.as_object()?;
        let (name, f) = named.iter().next()?;
        let shape = if f == "UNIT" {
            Shape::Unit
        } else if f.get("NEWTYPE").is_some() {
            Shape::NewType
        } else if let Some(t) = f.get("TUPLE").and_then(Value::as_array) {
            Shape::Tuple(t.len())
        } else if let Some(s) = f.get("STRUCT").and_then(Value::as_array) {
            Shape::Struct(
                s.iter()
                    .filter_map(|n| n.as_object().and_then(|o| o.keys().next().cloned()))
                    .collect(),
            )
        } else {
            return None;
        };
        out.push((idx, name.clone(), shape));
    }
    out.sort_by_key(|(i, _, _)| *i);
    Some(out)
}

/// Every `TYPENAME` referenced anywhere inside a registry entry.
pub fn referenced_type_names(v: &Value, out: &mut Vec<String>) {
    match v {
        Value::Object(m) => {
            for (k, x) in m {
                if k == "TYPENAME" {
                    if let Some(s) = x.as_str() {
                        out.push(s.to_string());
                    }
                } else {
                    referenced_type_names(x, out);
                }
            }
        }
        Value::Array(a) => a.iter().for_each(|x| referenced_type_names(x, out)),
        _ => {}
    }
}
