//! Engine `cliperm` (property C20): the type registry crux_cli derives from a rustdoc
//! description must not depend on fact order, item numbering or crate load order; it must be
//! closed, number enum variants 0..n-1 in declaration order, and agree with serde-reflection
//! for the capability protocol types.
//!
//! Technique: complete enumeration of finite, explicitly listed perturbation families over
//! every bundled rustdoc description, each one executed through the real `codegen::run`
//! pipeline (cfg-gated entry point `crux_cli::codegen::verif::run`), with the oracle evaluated on
//! every run. The families are NOT "all orders"; see `assumptions` in the evidence.

mod depgraph;
mod shapes;
mod typeexpr;
mod bytesattr;
mod reference;
mod remap;

use std::cell::RefCell;
use std::collections::{BTreeMap, BTreeSet};
use std::sync::atomic::{AtomicU64, Ordering};
use std::sync::Arc;
use std::time::Instant;

use crux_cli::codegen::verif::{self, Fact, Perturbation};
use mc_kit::{catch, fnv64, machinery_error, par_map, Deadline, PanicInfo, Reporter, Samples, Tier, Violation};
use rustdoc_types::{Crate, Id, Item, ItemEnum, StructKind, Type};
use serde::{Deserialize, Serialize};
use serde_json::{json, Value};

const EXAMPLES: [&str; 7] = [
    "bridge_echo",
    "cat_facts",
    "counter",
    "hello_world",
    "simple_counter",
    "notes",
    "tap_to_pay",
];
const LIBS: [&str; 5] = ["crux_core", "crux_http", "crux_kv", "crux_platform", "crux_time"];

/// Capability protocol types shipped in this repository (property text: "the capability
/// protocol types shipped in this repository").
const PROTOCOL_TYPES: [&str; 19] = [
    "HttpRequest",
    "HttpResponse",
    "HttpResult",
    "HttpError",
    "HttpHeader",
    "KeyValueOperation",
    "KeyValueResponse",
    "KeyValueResult",
    "Value",
    "KeyValueError",
    "TimeRequest",
    "TimeResponse",
    "Instant",
    "Duration",
    "TimerId",
    "RenderOperation",
    "PlatformRequest",
    "PlatformResponse",
    "Request",
];

type Node = (String, u32);

// -------------------------------------------------------------------------------------------
// fixtures

struct Fixtures {
    crates: BTreeMap<String, Arc<Crate>>,
    /// largest id occurring anywhere in the description (measured with the id visitor)
    max_id: BTreeMap<String, u32>,
    /// number of `Id` occurrences the typed rewrite touches per description
    id_occurrences: BTreeMap<String, u64>,
    all_names: Vec<String>,
}

fn fixture_dir() -> String {
    format!("{}/crux_cli/src/codegen/fixtures", mc_kit::repo_root())
}

fn load_fixtures() -> Fixtures {
    let dir = fixture_dir();
    let mut paths = vec![];
    for ex in EXAMPLES {
        paths.push((ex.to_string(), format!("{dir}/{ex}/rustdoc.json")));
    }
    for l in LIBS {
        paths.push((l.to_string(), format!("{dir}/{l}.json")));
    }
    let loaded = par_map(&paths, |_, (name, path)| {
        let bytes = std::fs::read(path)
            .unwrap_or_else(|e| machinery_error(&format!("cannot read fixture {path}: {e}")));
        let c: Crate = serde_json::from_slice(&bytes)
            .unwrap_or_else(|e| machinery_error(&format!("cannot parse fixture {path}: {e}")));
        // measure ids with the same typed visitor that performs the rewrites, and check that
        // the identity rewrite reproduces the description exactly
        let max = std::cell::Cell::new(0u32);
        let n = std::cell::Cell::new(0u64);
        let same: Crate = remap::remap_ids(&c, &|id| {
            max.set(max.get().max(id));
            n.set(n.get() + 1);
            id
        });
        if same != c {
            machinery_error(&format!("identity id rewrite changed description {name}"));
        }
        // an involution applied twice must give the description back
        let m = max.get();
        let rev: Crate = remap::remap_ids(&c, &|id| m - id);
        if rev == c {
            machinery_error(&format!("reversal did not change description {name}"));
        }
        let back: Crate = remap::remap_ids(&rev, &|id| m - id);
        if back != c {
            machinery_error(&format!("double reversal does not restore description {name}"));
        }
        (name.clone(), Arc::new(c), max.get(), n.get())
    });
    let mut fx = Fixtures {
        crates: BTreeMap::new(),
        max_id: BTreeMap::new(),
        id_occurrences: BTreeMap::new(),
        all_names: vec![],
    };
    for (name, c, max, n) in loaded {
        fx.all_names.push(name.clone());
        fx.max_id.insert(name.clone(), max);
        fx.id_occurrences.insert(name.clone(), n);
        fx.crates.insert(name, c);
    }
    fx.all_names.sort();
    fx
}

// -------------------------------------------------------------------------------------------
// perturbations

#[derive(Serialize, Deserialize, Clone, Debug, PartialEq, Eq, PartialOrd, Ord)]
#[serde(rename_all = "snake_case")]
enum Order {
    /// not owned: whatever the hash maps / the datalog engine produce
    Natural,
    /// ascending by (original) id
    Asc,
    Desc,
    First { krate: String, id: u32 },
    Last { krate: String, id: u32 },
}

#[derive(Serialize, Deserialize, Clone, Debug, PartialEq, Eq, PartialOrd, Ord)]
#[serde(rename_all = "snake_case")]
enum Renumber {
    Identity,
    /// id -> max - id in the listed descriptions
    Reverse { crates: Vec<String> },
    /// id -> id + (u32::MAX - max) in the listed descriptions
    Offset { crates: Vec<String> },
    /// swap two ids of one description
    Transpose { krate: String, a: u32, b: u32 },
}

#[derive(Serialize, Deserialize, Clone, Debug, PartialEq, Eq, PartialOrd, Ord)]
struct Case {
    description: String,
    family: String,
    /// order of the item/summary/external-crate fact vectors of every processed crate
    facts: Order,
    /// order of the edge vector handed to the formatter
    edges: Order,
    renumber: Renumber,
    /// crates are loaded by this priority (first = loaded first once it is known); crates not
    /// listed come after, alphabetically. Ignored when `facts` is `Natural`.
    load_priority: Vec<String>,
    /// a change of the description's MEANING (not a renumbering): two variants of one enum
    /// trade places in the enum's declared `variants` list; the registry has to follow
    #[serde(default, skip_serializing_if = "Option::is_none")]
    declared_swap: Option<DeclaredSwap>,
    /// the description is not a bundled one but a crate-reference graph synthesized from bundled
    /// descriptions by re-typing fields (dependency-graph dimension, see depgraph.rs)
    #[serde(default, skip_serializing_if = "Option::is_none")]
    dep_graph: Option<depgraph::DepGraph>,
    /// one variant of one enum of the description is rewritten to another shape (variant-shape
    /// dimension, see shapes.rs)
    #[serde(default, skip_serializing_if = "Option::is_none")]
    variant_shape: Option<shapes::VariantShape>,
    /// one field of the description mentions its type through a type expression (field-type
    /// dimension, see typeexpr.rs)
    #[serde(default, skip_serializing_if = "Option::is_none")]
    type_expr: Option<typeexpr::TypeExpr>,
    /// one field of a dependent crate loses its serde_bytes attribute (see bytesattr.rs)
    #[serde(default, skip_serializing_if = "Option::is_none")]
    strip_bytes: Option<bytesattr::StripBytes>,
}

#[derive(Serialize, Deserialize, Clone, Debug, PartialEq, Eq, PartialOrd, Ord)]
struct DeclaredSwap {
    krate: String,
    enum_id: u32,
    /// positions in the declared `variants` list
    a: usize,
    b: usize,
}

fn swap_declared(c: &mut Crate, s: &DeclaredSwap) {
    if let Some(Item { inner: ItemEnum::Enum(e), .. }) = c.index.get_mut(&Id(s.enum_id)) {
        if s.a < e.variants.len() && s.b < e.variants.len() {
            e.variants.swap(s.a, s.b);
        }
    }
}

#[derive(Clone, Copy, Debug)]
enum Numbering {
    Identity,
    Reverse(u32),
    Offset(u32),
    Swap(u32, u32),
}

impl Numbering {
    fn fwd(self, id: u32) -> u32 {
        match self {
            Numbering::Identity => id,
            Numbering::Reverse(max) => max - id,
            Numbering::Offset(off) => id + off,
            Numbering::Swap(a, b) => {
                if id == a {
                    b
                } else if id == b {
                    a
                } else {
                    id
                }
            }
        }
    }
    fn inv(self, id: u32) -> u32 {
        match self {
            Numbering::Offset(off) => id - off,
            other => other.fwd(id), // identity, reversal and swap are involutions
        }
    }
}

fn numbering_of(fx: &Fixtures, case: &Case) -> BTreeMap<String, Numbering> {
    let r = &case.renumber;
    let mut m = BTreeMap::new();
    // a synthesized graph adds one path id per out-edge of a crate, a rewritten variant one id per
    // new field, right above the largest id of the bundled description
    let max_id = |c: &String| {
        fx.max_id[c]
            + case.dep_graph.as_ref().map_or(0, |g| depgraph::extra_ids(g, c))
            + case.variant_shape.as_ref().map_or(0, |v| shapes::extra_ids(v, c))
            + case.type_expr.as_ref().map_or(0, |t| typeexpr::extra_ids(t, c))
    };
    match r {
        Renumber::Identity => {}
        Renumber::Reverse { crates } => {
            for c in crates {
                m.insert(c.clone(), Numbering::Reverse(max_id(c)));
            }
        }
        Renumber::Offset { crates } => {
            for c in crates {
                m.insert(c.clone(), Numbering::Offset(u32::MAX - max_id(c)));
            }
        }
        Renumber::Transpose { krate, a, b } => {
            m.insert(krate.clone(), Numbering::Swap(*a, *b));
        }
    }
    m
}

// -------------------------------------------------------------------------------------------
// one execution of the real pipeline

#[derive(Clone, Debug)]
struct RunOut {
    registry: Value,
    registry_text: String,
    registry_hash: u64,
    loaded: Vec<String>,
    /// edges in ORIGINAL ids
    edges: Vec<(Node, Node)>,
    fingerprint: u64,
    ms: f64,
    /// part of `ms` spent cloning / renumbering descriptions in the loader
    load_ms: f64,
}

#[derive(Clone, Debug)]
enum RunResult {
    Ok(Box<RunOut>),
    Err(String),
    Panic(PanicInfo),
}

struct Defer<F: Fn()>(F);
impl<F: Fn()> Drop for Defer<F> {
    fn drop(&mut self) {
        (self.0)()
    }
}

fn execute(fx: &Fixtures, case: &Case) -> RunResult {
    let t0 = Instant::now();
    let numbering = Arc::new(numbering_of(fx, case));
    let names = Arc::new(fx.all_names.clone());
    let crate_index = {
        let names = names.clone();
        move |n: &str| -> u128 { names.iter().position(|x| x == n).unwrap_or(names.len()) as u128 }
    };

    let perturbation = if case.facts == Order::Natural {
        Perturbation::default()
    } else {
        let nb = numbering.clone();
        let facts = case.facts.clone();
        let fact_key = move |kind: Fact, krate: &str, id: u32| -> u128 {
            if kind == Fact::ExtCrate {
                // crate ids are not item ids: never renumbered, never the target of first/last
                return match facts {
                    Order::Desc => u128::from(u32::MAX - id),
                    _ => u128::from(id),
                };
            }
            let orig = nb.get(krate).copied().unwrap_or(Numbering::Identity).inv(id);
            match &facts {
                Order::Natural => unreachable!(),
                Order::Asc => 1 + u128::from(orig),
                Order::Desc => 1 + u128::from(u32::MAX - orig),
                Order::First { krate: k, id: i } => {
                    if k == krate && *i == orig {
                        0
                    } else {
                        1 + u128::from(orig)
                    }
                }
                Order::Last { krate: k, id: i } => {
                    if k == krate && *i == orig {
                        u128::MAX
                    } else {
                        1 + u128::from(orig)
                    }
                }
            }
        };
        let edge_key: Option<Box<dyn Fn((&str, u32), (&str, u32)) -> u128>> = match &case.edges {
            Order::Natural => None,
            order => {
                let nb = numbering.clone();
                let order = order.clone();
                let ci = crate_index.clone();
                Some(Box::new(move |(ac, aid): (&str, u32), (bc, bid): (&str, u32)| {
                    let a = nb.get(ac).copied().unwrap_or(Numbering::Identity).inv(aid);
                    let b = nb.get(bc).copied().unwrap_or(Numbering::Identity).inv(bid);
                    let packed: u128 = (ci(ac) << 72)
                        | (u128::from(a) << 40)
                        | (ci(bc) << 32)
                        | u128::from(b);
                    let touches = |k: &str, i: u32| (k == ac && i == a) || (k == bc && i == b);
                    let top: u128 = 1 << 100;
                    match &order {
                        Order::Natural => unreachable!(),
                        Order::Asc => packed,
                        Order::Desc => top - packed,
                        Order::First { krate, id } => {
                            if touches(krate, *id) {
                                packed
                            } else {
                                top + packed
                            }
                        }
                        Order::Last { krate, id } => {
                            if touches(krate, *id) {
                                top + packed
                            } else {
                                packed
                            }
                        }
                    }
                }))
            }
        };
        let prio = case.load_priority.clone();
        let ci = crate_index.clone();
        let crate_rank = move |name: &str| -> u128 {
            match prio.iter().position(|p| p == name) {
                Some(i) => i as u128,
                None => 1000 + ci(name),
            }
        };
        Perturbation {
            fact_key: Some(Box::new(fact_key)),
            edge_key,
            crate_rank: Some(Box::new(crate_rank)),
        }
    };

    let loaded: RefCell<Vec<String>> = RefCell::new(vec![]);
    let load_ms = std::cell::Cell::new(0f64);
    let load = |name: &str| -> anyhow::Result<Crate> {
        let t = Instant::now();
        let _g = Defer(|| load_ms.set(load_ms.get() + t.elapsed().as_secs_f64() * 1e3));
        loaded.borrow_mut().push(name.to_string());
        let c = fx
            .crates
            .get(name)
            .ok_or_else(|| anyhow::anyhow!("no bundled description for crate {name}"))?;
        let mut retyped: Option<Crate> = case.dep_graph.as_ref().filter(|g| depgraph::extra_ids(g, name) > 0).map(|g| {
            let mut k = (**c).clone();
            depgraph::retype(&mut k, name, g, fx.max_id[name]);
            k
        });
        if let Some(vs) = case.variant_shape.as_ref().filter(|v| v.krate == name) {
            // (never combined with a synthesized graph)
            let mut k = retyped.take().unwrap_or_else(|| (**c).clone());
            shapes::apply(&mut k, vs, fx.max_id[name]);
            retyped = Some(k);
        }
        if let Some(te) = case.type_expr.as_ref().filter(|t| t.krate == name) {
            let mut k = retyped.take().unwrap_or_else(|| (**c).clone());
            typeexpr::apply(&mut k, te, fx.max_id[name]);
            retyped = Some(k);
        }
        if let Some(sb) = case.strip_bytes.as_ref().filter(|t| t.krate == name) {
            let mut k = retyped.take().unwrap_or_else(|| (**c).clone());
            bytesattr::apply(&mut k, sb);
            retyped = Some(k);
        }
        let mut out = match (numbering.get(name).copied(), retyped) {
            (None | Some(Numbering::Identity), Some(k)) => k,
            (None | Some(Numbering::Identity), None) => (**c).clone(),
            (Some(n), k) => remap::remap_ids(k.as_ref().unwrap_or(&**c), &|id| n.fwd(id)),
        };
        if let Some(s) = case.declared_swap.as_ref().filter(|s| s.krate == name) {
            // (only combined with the identity numbering)
            swap_declared(&mut out, s);
        }
        Ok(out)
    };

    let result = catch(|| verif::run(&case.description, load, perturbation));
    let ms = t0.elapsed().as_secs_f64() * 1e3;
    match result {
        Err(p) => RunResult::Panic(p),
        Ok(Err(e)) => RunResult::Err(format!("{e:#}")),
        Ok(Ok(out)) => {
            let registry = serde_json::to_value(&out.registry).expect("registry serializes");
            let registry_text = serde_json::to_string(&out.registry).expect("registry serializes");
            let back = |(k, id): (String, u32)| -> Node {
                let orig = numbering.get(&k).copied().unwrap_or(Numbering::Identity).inv(id);
                (k, orig)
            };
            RunResult::Ok(Box::new(RunOut {
                registry_hash: fnv64(registry_text.as_bytes()),
                registry,
                registry_text,
                loaded: loaded.into_inner(),
                edges: out.edges.into_iter().map(|(a, b)| (back(a), back(b))).collect(),
                fingerprint: out.order_fingerprint,
                ms,
                load_ms: load_ms.get(),
            }))
        }
    }
}

// -------------------------------------------------------------------------------------------
// relevant items and case generation

#[derive(Clone, Copy, Debug, PartialEq, Eq, PartialOrd, Ord)]
enum Kind {
    Struct,
    Enum,
    Variant,
    Field,
    Impl,
    AssocType,
    Other,
}

fn kind_of(item: &Item) -> Kind {
    match &item.inner {
        ItemEnum::Struct(_) => Kind::Struct,
        ItemEnum::Enum(_) => Kind::Enum,
        ItemEnum::Variant(_) => Kind::Variant,
        ItemEnum::StructField(_) => Kind::Field,
        ItemEnum::Impl(_) => Kind::Impl,
        ItemEnum::AssocType { .. } => Kind::AssocType,
        _ => Kind::Other,
    }
}

/// Items that reach the output (nodes of the edge relation) plus the impls of the marker
/// traits the filter looks at, their associated types, their self types and (for `App`) the
/// fields of the self type.
fn relevant_items(fx: &Fixtures, base: &RunOut) -> BTreeSet<Node> {
    let mut out: BTreeSet<Node> = BTreeSet::new();
    for (a, b) in &base.edges {
        out.insert(a.clone());
        out.insert(b.clone());
    }
    for krate in &base.loaded {
        let c = &fx.crates[krate];
        for item in c.index.values() {
            let ItemEnum::Impl(imp) = &item.inner else { continue };
            let Some(tr) = &imp.trait_ else { continue };
            if !["App", "Effect", "Capability", "Operation"].contains(&tr.path.as_str()) {
                continue;
            }
            out.insert((krate.clone(), item.id.0));
            for it in &imp.items {
                if let Some(Item { inner: ItemEnum::AssocType { .. }, .. }) = c.index.get(it) {
                    out.insert((krate.clone(), it.0));
                }
            }
            if let Type::ResolvedPath(p) = &imp.for_ {
                if let Some(target) = c.index.get(&p.id) {
                    out.insert((krate.clone(), p.id.0));
                    if tr.path == "App" {
                        if let ItemEnum::Struct(s) = &target.inner {
                            let fields: Vec<Id> = match &s.kind {
                                StructKind::Plain { fields, .. } => fields.clone(),
                                StructKind::Tuple(fs) => fs.iter().flatten().cloned().collect(),
                                StructKind::Unit => vec![],
                            };
                            for f in fields {
                                if c.index.contains_key(&f) {
                                    out.insert((krate.clone(), f.0));
                                }
                            }
                        }
                    }
                }
            }
        }
    }
    out
}

fn permutations(items: &[String]) -> Vec<Vec<String>> {
    if items.len() <= 1 {
        return vec![items.to_vec()];
    }
    let mut out = vec![];
    for i in 0..items.len() {
        let mut rest = items.to_vec();
        let x = rest.remove(i);
        for mut p in permutations(&rest) {
            p.insert(0, x.clone());
            out.push(p);
        }
    }
    out
}

struct Plan {
    cases: Vec<Case>,
    /// family -> number of cases
    sizes: BTreeMap<String, usize>,
    k_per_crate: BTreeMap<String, usize>,
    edge_nodes: usize,
    deps: Vec<String>,
    scope: Vec<String>,
}

fn baseline_case(description: &str, deps: &[String]) -> Case {
    Case {
        description: description.to_string(),
        family: "baseline".into(),
        facts: Order::Asc,
        edges: Order::Natural,
        renumber: Renumber::Identity,
        load_priority: deps.to_vec(),
        declared_swap: None,
        dep_graph: None,
        variant_shape: None,
        type_expr: None,
        strip_bytes: None,
    }
}

/// `scope`: the crates whose items get per-item members (item first/last, edges of item
/// first/last, transpositions) under this description. Thorough: every loaded crate. Quick: the
/// root crate plus those dependent crates for which this description is the designated one (the
/// description with the fewest loaded crates that loads it), so that every relevant item of every
/// bundled description is moved at least under one description.
fn plan(fx: &Fixtures, description: &str, base: &RunOut, tier: Tier, scope: &BTreeSet<String>) -> Plan {
    let mut deps: Vec<String> = base.loaded[1..].to_vec();
    deps.sort();
    let relevant = relevant_items(fx, base);
    let mut edge_nodes: BTreeSet<Node> = BTreeSet::new();
    let mut edge_sources: BTreeSet<Node> = BTreeSet::new();
    for (a, b) in &base.edges {
        edge_nodes.insert(a.clone());
        edge_nodes.insert(b.clone());
        edge_sources.insert(a.clone());
    }
    let mk = |family: &str, facts: Order, edges: Order, renumber: Renumber, prio: &[String]| Case {
        description: description.to_string(),
        family: family.to_string(),
        facts,
        edges,
        renumber,
        load_priority: prio.to_vec(),
        declared_swap: None,
        dep_graph: None,
        variant_shape: None,
        type_expr: None,
        strip_bytes: None,
    };
    let mut cases = vec![];

    // family 1: fact order
    cases.push(mk("fact-order", Order::Desc, Order::Natural, Renumber::Identity, &deps));
    for (k, id) in relevant.iter().filter(|(k, _)| scope.contains(k)) {
        for first in [true, false] {
            let o = if first {
                Order::First { krate: k.clone(), id: *id }
            } else {
                Order::Last { krate: k.clone(), id: *id }
            };
            cases.push(mk("fact-order", o, Order::Natural, Renumber::Identity, &deps));
        }
    }
    // family 1b: order of the edges handed to the formatter. Quick: per-item members for the
    // containers (edge sources) only; thorough: for every item occurring in an edge.
    cases.push(mk("edge-order", Order::Asc, Order::Asc, Renumber::Identity, &deps));
    cases.push(mk("edge-order", Order::Asc, Order::Desc, Renumber::Identity, &deps));
    let per_item_edges = tier.pick(&edge_sources, &edge_nodes);
    for (k, id) in per_item_edges.iter().filter(|(k, _)| scope.contains(k)) {
        for first in [true, false] {
            let o = if first {
                Order::First { krate: k.clone(), id: *id }
            } else {
                Order::Last { krate: k.clone(), id: *id }
            };
            cases.push(mk("edge-order", Order::Asc, o, Renumber::Identity, &deps));
        }
    }
    // family 2: renumbering (fact order pinned to the original item order)
    let all: Vec<String> = base.loaded.clone();
    let mut renum = |r: Renumber| cases.push(mk("renumber", Order::Asc, Order::Natural, r, &deps));
    if all.len() > 1 {
        renum(Renumber::Reverse { crates: all.clone() });
        renum(Renumber::Offset { crates: all.clone() });
    }
    for c in &all {
        renum(Renumber::Reverse { crates: vec![c.clone()] });
        renum(Renumber::Offset { crates: vec![c.clone()] });
    }
    let mut k_per_crate = BTreeMap::new();
    for c in &all {
        let ids: Vec<u32> = relevant.iter().filter(|(k, _)| k == c).map(|(_, i)| *i).collect();
        k_per_crate.insert(c.clone(), ids.len());
        if !scope.contains(c) {
            continue;
        }
        let mut pairs: BTreeSet<(u32, u32)> = BTreeSet::new();
        match tier {
            Tier::Thorough => {
                for i in 0..ids.len() {
                    for j in i + 1..ids.len() {
                        pairs.insert((ids[i], ids[j]));
                    }
                }
            }
            Tier::Quick => {
                // neighbours in id order among the relevant items of one kind (variant with the
                // next variant, field with the next field, ...)
                let mut by_kind: BTreeMap<Kind, Vec<u32>> = BTreeMap::new();
                for id in &ids {
                    if let Some(item) = fx.crates[c].index.get(&Id(*id)) {
                        by_kind.entry(kind_of(item)).or_default().push(*id);
                    }
                }
                for v in by_kind.values() {
                    for w in v.windows(2) {
                        pairs.insert((w[0], w[1]));
                    }
                }
            }
        }
        for (a, b) in pairs {
            renum(Renumber::Transpose { krate: c.clone(), a, b });
        }
    }
    // family 3: load order. Thorough: every permutation. Quick: every permutation for up to three
    // dependent crates; beyond that each crate first, each crate last (the others in name order)
    // and the fully reversed priority - all load orders of up to three crates are also covered by
    // the dependency-graph dimension.
    let load_orders: Vec<Vec<String>> = if tier == Tier::Thorough || deps.len() <= 3 {
        permutations(&deps)
    } else {
        let mut v: BTreeSet<Vec<String>> = BTreeSet::new();
        for d in &deps {
            let rest: Vec<String> = deps.iter().filter(|x| *x != d).cloned().collect();
            v.insert(std::iter::once(d.clone()).chain(rest.iter().cloned()).collect());
            v.insert(rest.iter().cloned().chain(std::iter::once(d.clone())).collect());
        }
        v.insert(deps.iter().rev().cloned().collect());
        v.into_iter().collect()
    };
    for p in load_orders {
        if p != deps {
            cases.push(mk("load-order", Order::Asc, Order::Natural, Renumber::Identity, &p));
        }
        if tier == Tier::Thorough {
            cases.push(mk("load-order", Order::Desc, Order::Natural, Renumber::Identity, &p));
        }
    }
    // family 4: declaration order is what counts - swap two neighbouring live variants in the
    // declared list of every enum that reaches the formatter; the registry must follow
    for (k, id) in edge_sources.iter().filter(|(k, _)| scope.contains(k)) {
        let c = &fx.crates[k];
        let Some(Item { inner: ItemEnum::Enum(e), .. }) = c.index.get(&Id(*id)) else { continue };
        let live: Vec<usize> = e
            .variants
            .iter()
            .enumerate()
            .filter(|(_, v)| c.index.get(v).is_some_and(|i| !reference::serde_attrs(i).skip))
            .map(|(p, _)| p)
            .collect();
        for w in live.windows(2) {
            let mut case = mk("declared-swap", Order::Asc, Order::Natural, Renumber::Identity, &deps);
            case.declared_swap = Some(DeclaredSwap { krate: k.clone(), enum_id: *id, a: w[0], b: w[1] });
            cases.push(case);
        }
    }
    // unowned runs: real hash order, real work-list order (a sample, not an enumeration)
    for _ in 0..tier.pick(2, 10) {
        cases.push(mk("natural", Order::Natural, Order::Natural, Renumber::Identity, &[]));
    }

    let mut sizes = BTreeMap::new();
    for c in &cases {
        *sizes.entry(c.family.clone()).or_insert(0) += 1;
    }
    Plan {
        cases,
        sizes,
        k_per_crate,
        edge_nodes: edge_nodes.len(),
        deps,
        scope: scope.iter().cloned().collect(),
    }
}

// -------------------------------------------------------------------------------------------
// oracles

/// Classifies how two registries differ (the alphabetically first differing entry decides).
fn diff_class(base: &Value, other: &Value) -> (String, String) {
    let (b, o) = (base.as_object().unwrap(), other.as_object().unwrap());
    let names: BTreeSet<&String> = b.keys().chain(o.keys()).collect();
    for n in names {
        match (b.get(n), o.get(n)) {
            (Some(x), Some(y)) if x == y => continue,
            (Some(_), None) => return ("entry-missing".into(), n.clone()),
            (None, Some(_)) => return ("entry-extra".into(), n.clone()),
            (Some(x), Some(y)) => {
                let class = match (reference::registry_variants(x), reference::registry_variants(y)) {
                    (Some(vx), Some(vy)) => {
                        let nx: BTreeSet<&String> = vx.iter().map(|v| &v.1).collect();
                        let ny: BTreeSet<&String> = vy.iter().map(|v| &v.1).collect();
                        if nx != ny {
                            "enum-variant-set"
                        } else if vx.iter().map(|v| (v.0, &v.1)).ne(vy.iter().map(|v| (v.0, &v.1))) {
                            "enum-variant-index"
                        } else {
                            "enum-variant-format"
                        }
                    }
                    _ => {
                        let fields = |v: &Value| -> Option<Vec<String>> {
                            Some(
                                v.get("STRUCT")?
                                    .as_array()?
                                    .iter()
                                    .filter_map(|n| n.as_object().and_then(|o| o.keys().next().cloned()))
                                    .collect(),
                            )
                        };
                        match (fields(x), fields(y)) {
                            (Some(fx_), Some(fy)) => {
                                let sx: BTreeSet<&String> = fx_.iter().collect();
                                let sy: BTreeSet<&String> = fy.iter().collect();
                                if sx != sy {
                                    "struct-field-set"
                                } else if fx_ != fy {
                                    "struct-field-order"
                                } else {
                                    "struct-field-format"
                                }
                            }
                            _ => "container-format",
                        }
                    }
                };
                return (class.into(), n.clone());
            }
            (None, None) => unreachable!(),
        }
    }
    ("none".into(), String::new())
}

fn closedness(registry: &Value) -> Vec<(String, String)> {
    // (container, missing referenced type)
    let mut out = vec![];
    let Some(m) = registry.as_object() else { return out };
    for (name, entry) in m {
        let mut refs = vec![];
        reference::referenced_type_names(entry, &mut refs);
        for r in refs {
            if !m.contains_key(&r) {
                out.push((name.clone(), r));
            }
        }
    }
    out
}

struct VariantFinding {
    class: &'static str,
    enum_name: String,
    detail: String,
}

/// For every enum that reaches the formatter: the registry entry must list exactly the declared,
/// non-skipped variants under keys 0..n-1 in declaration order.
fn variant_indices(
    fx: &Fixtures,
    edges: &[(Node, Node)],
    registry: &Value,
) -> (Vec<VariantFinding>, u64, u64, u64) {
    let mut findings = vec![];
    let (mut enums, mut variants, mut not_derivable) = (0u64, 0u64, 0u64);
    // enum items among the edge sources, grouped by the name they are registered under
    let mut by_name: BTreeMap<String, BTreeSet<Node>> = BTreeMap::new();
    for (src, _) in edges {
        let Some(item) = fx.crates.get(&src.0).and_then(|c| c.index.get(&Id(src.1))) else {
            continue;
        };
        if matches!(item.inner, ItemEnum::Enum(_)) {
            if let Some(n) = reference::container_name(item) {
                by_name.entry(n).or_default().insert(src.clone());
            }
        }
    }
    for (name, nodes) in by_name {
        let Some(entry) = registry.get(&name) else {
            findings.push(VariantFinding {
                class: "enum-without-entry",
                enum_name: name.clone(),
                detail: format!("enum {name} reaches the formatter but has no registry entry"),
            });
            continue;
        };
        let Some(actual) = reference::registry_variants(entry) else {
            // a struct of the same name won the entry; reported by the invariance oracle if it
            // is order dependent, not a variant-index matter
            continue;
        };
        enums += 1;
        variants += actual.len() as u64;
        // contiguity does not need the declaration
        let keys: Vec<u64> = actual.iter().map(|v| v.0).collect();
        if keys != (0..actual.len() as u64).collect::<Vec<_>>() {
            findings.push(VariantFinding {
                class: "not-contiguous",
                enum_name: name.clone(),
                detail: format!("variant keys of {name} are {keys:?}"),
            });
            continue;
        }
        let mut expectations = vec![];
        for n in &nodes {
            let c = &fx.crates[&n.0];
            if let Some(e) = reference::expected_variants(c, &c.index[&Id(n.1)]) {
                expectations.push(e);
            }
        }
        if expectations.is_empty() {
            not_derivable += 1;
            continue;
        }
        let matches = |e: &Vec<reference::ExpectedVariant>| {
            e.len() == actual.len()
                && e.iter().zip(&actual).all(|(e, a)| e.name == a.1 && e.shape == a.2)
        };
        if !expectations.iter().any(matches) {
            let e = &expectations[0];
            let en: Vec<&String> = e.iter().map(|v| &v.name).collect();
            let an: Vec<&String> = actual.iter().map(|v| &v.1).collect();
            let class = if en.len() != an.len()
                || en.iter().collect::<BTreeSet<_>>() != an.iter().collect::<BTreeSet<_>>()
            {
                "variant-set"
            } else if en != an {
                "declaration-order"
            } else {
                "variant-shape"
            };
            findings.push(VariantFinding {
                class,
                enum_name: name.clone(),
                detail: format!(
                    "{name}: declared (without serde(skip)) {:?}, registry {:?}",
                    e.iter().map(|v| (&v.name, &v.shape)).collect::<Vec<_>>(),
                    actual.iter().map(|v| (v.0, &v.1, &v.2)).collect::<Vec<_>>()
                ),
            });
        }
    }
    (findings, enums, variants, not_derivable)
}

#[derive(Serialize, Deserialize)]
enum Effect {
    Render(crux_core::render::RenderOperation),
}

/// serde-reflection registry of the protocol types, traced from the sources compiled into this
/// binary (the current working tree of the repository).
fn traced_protocol_registry() -> Value {
    use crux_core::capability::Operation;
    use crux_core::typegen::{State, TypeGen};
    let mut g = TypeGen::new();
    let r = (|| -> crux_core::typegen::Result {
        crux_http::protocol::HttpRequest::register_types(&mut g)?;
        crux_kv::KeyValueOperation::register_types(&mut g)?;
        crux_time::TimeRequest::register_types(&mut g)?;
        crux_core::render::RenderOperation::register_types(&mut g)?;
        crux_platform::PlatformRequest::register_types(&mut g)?;
        g.register_type::<Effect>()?;
        g.register_type::<crux_core::bridge::Request<Effect>>()?;
        Ok(())
    })();
    if let Err(e) = r {
        machinery_error(&format!("tracing the protocol types failed: {e}"));
    }
    let State::Registering(tracer, _) = std::mem::replace(&mut g.state, TypeGen::new().state) else {
        machinery_error("TypeGen not in registering state");
    };
    let reg = tracer
        .registry()
        .unwrap_or_else(|e| machinery_error(&format!("serde-reflection registry: {e}")));
    serde_json::to_value(&reg).expect("serde-reflection registry serializes")
}

/// Struct/enum items among the edge sources registered under `name`.
fn definitions_of<'a>(fx: &'a Fixtures, edges: &[(Node, Node)], name: &str) -> Vec<(&'a Crate, &'a Item, Node)> {
    let mut seen = BTreeSet::new();
    let mut out = vec![];
    for (src, _) in edges {
        if !seen.insert(src.clone()) {
            continue;
        }
        let Some(c) = fx.crates.get(&src.0) else { continue };
        let Some(item) = c.index.get(&Id(src.1)) else { continue };
        if matches!(item.inner, ItemEnum::Struct(_) | ItemEnum::Enum(_))
            && reference::container_name(item).as_deref() == Some(name)
        {
            out.push((&**c, item, src.clone()));
        }
    }
    out
}

// -------------------------------------------------------------------------------------------
// driver

fn describe_order(o: &Order) -> String {
    match o {
        Order::Natural => "as produced".into(),
        Order::Asc => "ascending id".into(),
        Order::Desc => "descending id".into(),
        Order::First { krate, id } => format!("item {krate}#{id} first"),
        Order::Last { krate, id } => format!("item {krate}#{id} last"),
    }
}

fn describe_case(fx: &Fixtures, c: &Case) -> String {
    let item_name = |k: &str, id: u32| -> String {
        fx.crates
            .get(k)
            .and_then(|c| c.index.get(&Id(id)))
            .map(|i| format!("{:?} {}", kind_of(i), i.name.clone().unwrap_or_default()))
            .unwrap_or_default()
    };
    let mut s = format!(
        "{} / {}: facts {}, edges {}, load priority {:?}",
        c.description,
        c.family,
        describe_order(&c.facts),
        describe_order(&c.edges),
        c.load_priority
    );
    for o in [&c.facts, &c.edges] {
        if let Order::First { krate, id } | Order::Last { krate, id } = o {
            s += &format!(" [{krate}#{id} = {}]", item_name(krate, *id));
        }
    }
    if let Some(vs) = &c.variant_shape {
        s += &format!(", {}", shapes::describe(fx, vs));
    }
    if let Some(te) = &c.type_expr {
        s += &format!(", {}", typeexpr::describe(fx, te));
    }
    if let Some(g) = &c.dep_graph {
        s += &format!(", description synthesized with crate references [{}]", depgraph::shape_name(g));
    }
    if let Some(sw) = &c.declared_swap {
        s += &format!(
            ", declared variants at positions {} and {} of enum {}#{} ({}) swapped",
            sw.a,
            sw.b,
            sw.krate,
            sw.enum_id,
            item_name(&sw.krate, sw.enum_id)
        );
    }
    match &c.renumber {
        Renumber::Identity => {}
        Renumber::Reverse { crates } => s += &format!(", ids reversed (max-id) in {crates:?}"),
        Renumber::Offset { crates } => s += &format!(", ids shifted to the top of u32 in {crates:?}"),
        Renumber::Transpose { krate, a, b } => {
            s += &format!(
                ", ids {a} and {b} of {krate} swapped [{} <-> {}]",
                item_name(krate, *a),
                item_name(krate, *b)
            )
        }
    }
    s
}

fn replay(fx: &Fixtures, path: &str) -> i32 {
    let text = std::fs::read_to_string(path)
        .unwrap_or_else(|e| machinery_error(&format!("cannot read replay {path}: {e}")));
    let v: Value = serde_json::from_str(&text)
        .unwrap_or_else(|e| machinery_error(&format!("replay {path} is not JSON: {e}")));
    let case: Case = serde_json::from_value(v["case"]["case"].clone())
        .unwrap_or_else(|e| machinery_error(&format!("replay {path} has no case: {e}")));
    println!("replay of {}", v["key"]);
    if case.dep_graph.is_some() {
        return depgraph::replay(fx, &case);
    }
    if case.variant_shape.is_some() {
        return shapes::replay(fx, &case);
    }
    if case.type_expr.is_some() {
        return typeexpr::replay(fx, &case);
    }
    println!("step 1: unperturbed run of description {} (facts ascending id, default load priority)", case.description);
    let probe = match execute(fx, &baseline_case(&case.description, &[])) {
        RunResult::Ok(o) => o,
        other => {
            println!("  unperturbed run failed: {other:?}");
            return 1;
        }
    };
    let mut deps = probe.loaded[1..].to_vec();
    deps.sort();
    let base = match execute(fx, &baseline_case(&case.description, &deps)) {
        RunResult::Ok(o) => o,
        other => {
            println!("  unperturbed run failed: {other:?}");
            return 1;
        }
    };
    println!("  loaded {:?}, {} edges, {} containers, registry hash {:016x}", base.loaded, base.edges.len(), base.registry.as_object().map_or(0, |m| m.len()), base.registry_hash);
    println!("step 2: perturbed run: {}", describe_case(fx, &case));
    let mut bad = false;
    let out = execute(fx, &case);
    let reg = match &out {
        RunResult::Ok(o) => {
            println!("  loaded {:?}, {} edges, {} containers, registry hash {:016x}, order fingerprint {:016x}", o.loaded, o.edges.len(), o.registry.as_object().map_or(0, |m| m.len()), o.registry_hash, o.fingerprint);
            Some(o)
        }
        RunResult::Err(e) => {
            println!("  pipeline returned an error: {e}");
            bad = true;
            None
        }
        RunResult::Panic(p) => {
            println!("  pipeline panicked at {}:{}: {}", p.file, p.line, p.message);
            bad = true;
            None
        }
    };
    if let Some(o) = reg {
        let reference_registry = match &case.declared_swap {
            Some(sw) => {
                println!("step 3: compare with the unperturbed registry in which the two variants have traded indices");
                match expected_after_swap(fx, sw, &base) {
                    Some((_, e)) => e,
                    None => {
                        println!("  expectation not derivable for this enum");
                        base.registry.clone()
                    }
                }
            }
            None => {
                println!("step 3: compare registries entry by entry");
                base.registry.clone()
            }
        };
        let (b, p) = (reference_registry.as_object().unwrap(), o.registry.as_object().unwrap());
        let names: BTreeSet<&String> = b.keys().chain(p.keys()).collect();
        for n in names {
            if b.get(n) != p.get(n) {
                bad = true;
                println!("  {n}:\n    expected:  {}\n    observed:  {}", b.get(n).map_or("<absent>".into(), |v| v.to_string()), p.get(n).map_or("<absent>".into(), |v| v.to_string()));
            }
        }
        if !bad {
            println!("  registries are equal");
        }
        println!("step 4: closedness, variant indices, protocol types on the perturbed registry");
        for (c, m) in closedness(&o.registry) {
            bad = true;
            println!("  {c} references {m}, which has no entry");
        }
        let (vf, ..) = variant_indices(fx, &o.edges, &o.registry);
        for f in vf {
            bad = true;
            println!("  variant indices [{}]: {}", f.class, f.detail);
        }
        let traced = traced_protocol_registry();
        for t in PROTOCOL_TYPES {
            if let (Some(cli), Some(tr)) = (o.registry.get(t), traced.get(t)) {
                if cli != tr {
                    let defs = definitions_of(fx, &o.edges, t);
                    let refd: Vec<Option<Value>> = defs.iter().map(|(c, i, _)| reference::container_format(c, i)).collect();
                    println!("  protocol type {t}:\n    crux_cli:          {cli}\n    serde-reflection:  {tr}\n    serde rules on the bundled definition: {refd:?}");
                    if !refd.iter().any(|r| r.as_ref() == Some(cli)) {
                        bad = true;
                    }
                }
            }
        }
    }
    println!("verdict: {}", if bad { "violation reproduced" } else { "no violation on this tree" });
    i32::from(bad)
}

fn main() {
    let args: Vec<String> = std::env::args().collect();
    let id = args.get(1).cloned().unwrap_or_default();
    if id != "C20" {
        eprintln!("usage: mc-cli C20 --tier quick|thorough [--replay <path>]");
        std::process::exit(2);
    }
    let tier = Tier::from_args(&args);
    // wall cap for the whole run, measured from process start (fixture loading included)
    let deadline = Deadline::new(tier.pick(48.0, 780.0));
    let fx = load_fixtures();
    if let Some(path) = mc_kit::arg_value(&args, "--replay") {
        std::process::exit(replay(&fx, &path));
    }
    let reporter = Reporter::new("C20", tier);
    let traced = traced_protocol_registry();

    // ---- baselines (two passes: discover the dependent crates, then pin their priority) -----
    // development aid: restrict the run to some descriptions (the evidence then says
    // exhaustive:false because not all bundled descriptions were covered)
    let only = std::env::var("VERIF_C20_ONLY").ok();
    let descriptions: Vec<String> = EXAMPLES
        .iter()
        .map(|s| s.to_string())
        .filter(|d| only.as_ref().is_none_or(|o| o.split(',').any(|x| x == d)))
        .collect();
    let runs = AtomicU64::new(0);
    let probes = par_map(&descriptions, |_, d| {
        runs.fetch_add(1, Ordering::Relaxed);
        execute(&fx, &baseline_case(d, &[]))
    });
    // both unperturbed runs of every description at once (the second is the determinism check)
    let twice: Vec<(usize, bool)> = (0..descriptions.len()).flat_map(|i| [(i, false), (i, true)]).collect();
    let mut second = par_map(&twice, |_, (i, _)| match &probes[*i] {
        RunResult::Ok(probe) => {
            let mut deps = probe.loaded[1..].to_vec();
            deps.sort();
            runs.fetch_add(1, Ordering::Relaxed);
            Some(execute(&fx, &baseline_case(&descriptions[*i], &deps)))
        }
        _ => None,
    })
    .into_iter();
    let bases: Vec<(RunResult, Option<RunResult>)> = probes
        .iter()
        .map(|probe| match (second.next().flatten(), second.next().flatten()) {
            (Some(b1), b2) => (b1, b2),
            _ => (probe.clone(), None),
        })
        .collect();
    let mut base: BTreeMap<String, RunOut> = BTreeMap::new();
    for (d, (b1, b2)) in descriptions.iter().zip(bases) {
        match (b1, b2) {
            (RunResult::Ok(a), Some(RunResult::Ok(b))) => {
                if a.registry_text != b.registry_text || a.fingerprint != b.fingerprint || a.loaded != b.loaded {
                    machinery_error(&format!(
                        "harness not deterministic: two unperturbed runs of {d} with owned orders differ (fingerprints {:x}/{:x}, loaded {:?}/{:?}, registries equal: {})",
                        a.fingerprint, b.fingerprint, a.loaded, b.loaded, a.registry_text == b.registry_text
                    ));
                }
                base.insert(d.clone(), *a);
            }
            (RunResult::Err(e), _) | (_, Some(RunResult::Err(e))) => {
                let key: String = e.chars().take(40).map(|c| if c.is_ascii_alphanumeric() { c.to_ascii_lowercase() } else { '-' }).collect();
                reporter.violation(Violation {
                    key: format!("baseline/run-error/{}", key.trim_matches('-')),
                    what: format!("unperturbed codegen run of bundled description {d} fails: {e}"),
                    replay: json!({"case": baseline_case(d, &[]), "why": "unperturbed run fails"}),
                    size: 0,
                });
            }
            (RunResult::Panic(p), _) | (_, Some(RunResult::Panic(p))) => {
                reporter.violation(Violation {
                    key: format!("baseline/{}", p.key()),
                    what: format!("unperturbed codegen run of bundled description {d} panics at {}:{}: {}", p.file, p.line, p.message),
                    replay: json!({"case": baseline_case(d, &[]), "why": "unperturbed run panics"}),
                    size: 0,
                });
            }
            _ => machinery_error("baseline bookkeeping"),
        }
    }

    // ---- canaries: the oracles must be able to fail --------------------------------------------
    canaries(&fx, &base);

    // ---- dependency-graph dimension (cheap, runs before the large families so that a deadline
    //      never cuts it) --------------------------------------------------------------------------
    let mut samples = Samples::new(64);
    let dep_graphs = depgraph::run_dimension(&fx, &base, tier, &reporter, &deadline, &mut samples);
    let variant_shapes = shapes::run_dimension(&fx, &base, tier, &reporter, &deadline, &mut samples);
    let type_exprs = typeexpr::run_dimension(&fx, &base, tier, &reporter, &deadline, &mut samples);
    let bytes_attr = bytesattr::run_dimension(&fx, &base, tier, &reporter);

    // ---- plan -----------------------------------------------------------------------------------
    // designated description of a dependent crate: fewest loaded crates, then name
    let mut designated: BTreeMap<String, String> = BTreeMap::new();
    for (d, b) in &base {
        for c in &b.loaded[1..] {
            let better = match designated.get(c) {
                None => true,
                Some(cur) => (b.loaded.len(), d) < (base[cur].loaded.len(), cur),
            };
            if better {
                designated.insert(c.clone(), d.clone());
            }
        }
    }
    let mut plans: BTreeMap<String, Plan> = BTreeMap::new();
    for (d, b) in &base {
        let scope: BTreeSet<String> = b
            .loaded
            .iter()
            .filter(|c| tier == Tier::Thorough || (b.loaded.len() <= 2 && (*c == d || designated.get(*c) == Some(d))))
            .cloned()
            .collect();
        plans.insert(d.clone(), plan(&fx, d, b, tier, &scope));
    }
    // Order of execution: first the members that move everything at once (descending order,
    // reversal, offset, edge order ascending/descending, unowned runs), then the semantic swaps,
    // the load orders and the per-item members, transpositions last; within a class the expensive
    // descriptions first (better balance at the tail). A deadline therefore cuts the per-item
    // members, never the global ones.
    let class_rank = |c: &Case| -> u32 {
        let per_item = matches!(c.facts, Order::First { .. } | Order::Last { .. })
            || matches!(c.edges, Order::First { .. } | Order::Last { .. });
        match c.family.as_str() {
            "natural" => 0,
            "fact-order" | "edge-order" if !per_item => 0,
            "renumber" if !matches!(c.renumber, Renumber::Transpose { .. }) => 0,
            "declared-swap" => 1,
            "load-order" => 2,
            "fact-order" => 3,
            "edge-order" => 4,
            _ => 5,
        }
    };
    let mut all_cases: Vec<&Case> = plans.values().flat_map(|p| p.cases.iter()).collect();
    all_cases.sort_by_key(|c| (class_rank(c), std::cmp::Reverse(base[&c.description].ms as u64)));

    // development aid: only the synthesized dimensions (the evidence then says exhaustive:false)
    let dimensions_only = std::env::var("VERIF_C20_DIMENSIONS_ONLY").is_ok();
    if dimensions_only {
        all_cases.clear();
    }

    // ---- run ------------------------------------------------------------------------------------
    let results: Vec<Option<RunResult>> = par_map(&all_cases, |_, case| {
        if deadline.expired() {
            return None;
        }
        Some(execute(&fx, case))
    });

    // ---- evaluate -------------------------------------------------------------------------------
    let mut evaluations = 0u64;
    let mut compared = 0u64;
    let mut skipped: BTreeMap<(String, String), u64> = BTreeMap::new();
    let mut executed: BTreeMap<(String, String), u64> = BTreeMap::new();
    let mut states: BTreeSet<(String, u64)> = BTreeSet::new();
    let mut outcomes: BTreeMap<String, BTreeSet<u64>> = BTreeMap::new();
    let mut load_sequences: BTreeMap<String, BTreeSet<Vec<String>>> = BTreeMap::new();
    let mut times: Vec<f64> = vec![];
    let mut loader_times: Vec<f64> = vec![];
    let mut rechecks = 0u64;
    let mut swaps_not_checkable = 0u64;
    let mut swap_outcomes: BTreeSet<(String, u64)> = BTreeSet::new();
    for (d, b) in &base {
        states.insert((d.clone(), b.fingerprint));
        outcomes.entry(d.clone()).or_default().insert(b.registry_hash);
        load_sequences.entry(d.clone()).or_default().insert(b.loaded.clone());
    }
    for (case, result) in all_cases.iter().zip(&results) {
        let fam = (case.description.clone(), case.family.clone());
        let Some(result) = result else {
            *skipped.entry(fam).or_insert(0) += 1;
            continue;
        };
        runs.fetch_add(1, Ordering::Relaxed);
        *executed.entry(fam).or_insert(0) += 1;
        let b = &base[&case.description];
        let size = match &case.renumber {
            Renumber::Identity => 1,
            Renumber::Transpose { .. } => 2,
            Renumber::Reverse { crates } | Renumber::Offset { crates } => 2 + crates.len(),
        } + case.load_priority.len();
        // violating cases are executed a second time: the verdict must be reproducible
        let mut confirm = |what: &str| {
            rechecks += 1;
            runs.fetch_add(1, Ordering::Relaxed);
            let again = execute(&fx, case);
            let same = match (&again, result) {
                (RunResult::Ok(a), RunResult::Ok(b)) => a.registry_text == b.registry_text,
                (RunResult::Err(a), RunResult::Err(b)) => a == b,
                (RunResult::Panic(a), RunResult::Panic(b)) => a.key() == b.key(),
                _ => false,
            };
            if !same && case.facts != Order::Natural {
                machinery_error(&format!(
                    "harness not deterministic: re-execution of a violating case ({what}) gave a different observation: {}",
                    describe_case(&fx, case)
                ));
            }
        };
        match result {
            RunResult::Ok(o) => {
                times.push(o.ms);
                loader_times.push(o.load_ms);
                compared += 1;
                evaluations += 1;
                let input_mark = case
                    .declared_swap
                    .as_ref()
                    .map_or(0, |s| fnv64(serde_json::to_string(s).unwrap().as_bytes()));
                states.insert((case.description.clone(), o.fingerprint ^ input_mark));
                if case.declared_swap.is_none() {
                    outcomes.entry(case.description.clone()).or_default().insert(o.registry_hash);
                } else {
                    swap_outcomes.insert((case.description.clone(), o.registry_hash));
                }
                load_sequences.entry(case.description.clone()).or_default().insert(o.loaded.clone());
                samples.offer(|| json!({"case": case, "loaded": o.loaded, "order_fingerprint": format!("{:016x}", o.fingerprint), "registry_hash": format!("{:016x}", o.registry_hash), "equals_unperturbed": o.registry_text == b.registry_text}));
                if let Some(sw) = &case.declared_swap {
                    match expected_after_swap(&fx, sw, b) {
                        None => swaps_not_checkable += 1,
                        Some((name, expected)) => {
                            if expected == b.registry {
                                // both variants have the same name and format: nothing to see
                                swaps_not_checkable += 1;
                            } else if o.registry != expected {
                                confirm("registry does not follow the declaration");
                                let class = if o.registry == b.registry {
                                    "ignored".to_string()
                                } else {
                                    diff_class(&expected, &o.registry).0
                                };
                                reporter.violation(Violation {
                                    key: format!("declared-swap/{class}"),
                                    what: format!(
                                        "variant indices do not follow declaration order: after two declared variants of {name} trade places the registry {}: {}",
                                        if class == "ignored" { "is unchanged".to_string() } else { format!("is neither the old nor the expected one ({class})") },
                                        describe_case(&fx, case)
                                    ),
                                    replay: json!({"case": case, "enum": name, "expected_entry": expected.get(&name), "observed_entry": o.registry.get(&name), "unperturbed_entry": b.registry.get(&name)}),
                                    size,
                                });
                            }
                        }
                    }
                } else if o.registry_text != b.registry_text {
                    confirm("registry differs");
                    let (class, entry) = diff_class(&b.registry, &o.registry);
                    reporter.violation(Violation {
                        key: format!("{}/{}", case.family, class),
                        what: format!(
                            "registry depends on the perturbation: entry {entry} differs ({class}) from the unperturbed run under: {}",
                            describe_case(&fx, case)
                        ),
                        replay: json!({"case": case, "first_differing_entry": entry, "unperturbed": b.registry.get(&entry), "perturbed": o.registry.get(&entry)}),
                        size,
                    });
                }
            }
            RunResult::Err(e) => {
                evaluations += 1;
                confirm("pipeline error");
                let key: String = e.chars().take(40).map(|c| if c.is_ascii_alphanumeric() { c.to_ascii_lowercase() } else { '-' }).collect();
                reporter.violation(Violation {
                    key: format!("{}/run-error/{}", case.family, key.trim_matches('-')),
                    what: format!("codegen fails under a perturbation although the unperturbed run succeeds: {e}; {}", describe_case(&fx, case)),
                    replay: json!({"case": case, "error": e}),
                    size,
                });
            }
            RunResult::Panic(p) => {
                evaluations += 1;
                confirm("panic");
                reporter.violation(Violation {
                    key: format!("{}/{}", case.family, p.key()),
                    what: format!("codegen panics at {}:{} ({}) under: {}", p.file, p.line, p.message, describe_case(&fx, case)),
                    replay: json!({"case": case, "panic": {"message": p.message, "file": p.file, "line": p.line}}),
                    size,
                });
            }
        }
    }

    // ---- closedness, variant indices, protocol types (on every distinct registry of every
    //      description; if invariance holds that is the unperturbed one) --------------------------
    let mut closed_checks = 0u64;
    let (mut enums_checked, mut variants_checked, mut enums_not_derivable) = (0u64, 0u64, 0u64);
    let mut protocol_compared = 0u64;
    let mut protocol_agree = 0u64;
    let mut protocol_types_seen: BTreeSet<String> = BTreeSet::new();
    let mut stale: Vec<Value> = vec![];
    let mut reference_checked = 0u64;
    let mut reference_not_derivable: BTreeSet<String> = BTreeSet::new();
    for (d, b) in &base {
        let bc = baseline_case(d, &plans[d].deps);
        closed_checks += 1;
        evaluations += 1;
        for (container, missing) in closedness(&b.registry) {
            reporter.violation(Violation {
                key: format!("not-closed/{missing}"),
                what: format!("registry of {d} is not closed: {container} references {missing}, which has no entry"),
                replay: json!({"case": bc, "container": container, "missing": missing}),
                size: 0,
            });
        }
        let (vf, e, v, nd) = variant_indices(&fx, &b.edges, &b.registry);
        enums_checked += e;
        variants_checked += v;
        enums_not_derivable += nd;
        evaluations += e;
        for f in vf {
            reporter.violation(Violation {
                key: format!("variant-index/{}/{}", f.class, f.enum_name),
                what: format!("{d}: {}", f.detail),
                replay: json!({"case": bc, "enum": f.enum_name, "class": f.class, "detail": f.detail}),
                size: 0,
            });
        }
        for t in PROTOCOL_TYPES {
            let Some(cli) = b.registry.get(t) else { continue };
            let Some(tr) = traced.get(t) else {
                machinery_error(&format!("protocol type {t} missing from the traced registry"));
            };
            protocol_compared += 1;
            evaluations += 1;
            protocol_types_seen.insert(t.to_string());
            // what serde's rules give for the bundled definition (None: synthetic entry such as
            // Request, or outside the modelled vocabulary)
            let defs = definitions_of(&fx, &b.edges, t);
            let derived: Vec<Value> = defs.iter().filter_map(|(c, i, _)| reference::container_format(c, i)).collect();
            if cli == tr {
                protocol_agree += 1;
                if !defs.is_empty() {
                    if derived.is_empty() {
                        reference_not_derivable.insert(t.to_string());
                    } else {
                        reference_checked += 1;
                        if !derived.iter().any(|r| r == tr) {
                            machinery_error(&format!(
                                "reference derivation is wrong for {t} in {d}: crux_cli and serde-reflection agree on {tr} but the harness derives {derived:?} from the bundled definition"
                            ));
                        }
                    }
                }
                continue;
            }
            let sides = json!({"description": d, "type": t, "crux_cli": cli, "serde_reflection_current_sources": tr, "serde_rules_on_bundled_definition": derived, "defined_in": defs.iter().map(|(_, _, n)| format!("{}#{}", n.0, n.1)).collect::<Vec<_>>()});
            if derived.iter().any(|r| r == cli) {
                // the CLI derives from the snapshot what serde's rules give for the snapshot:
                // the snapshot is older than the sources, not a CLI defect
                println!(
                    "note: {d}: bundled snapshot of protocol type {t} is older than the current sources (crux_cli derives what serde's rules give for the snapshot; not a finding, both sides are in the evidence)"
                );
                stale.push(sides);
            } else if derived.iter().any(|r| r == tr) {
                reporter.violation(Violation {
                    key: format!("protocol/{t}/cli-differs-from-serde"),
                    what: format!("{d}: for the same definition of {t} crux_cli derives {cli} but serde (traced, and by serde's rules on the bundled definition) gives {tr}"),
                    replay: json!({"case": bc, "sides": sides}),
                    size: 0,
                });
            } else {
                reporter.violation(Violation {
                    key: format!("protocol/{t}/unattributed-divergence"),
                    what: format!("{d}: crux_cli derives {cli} for {t}, serde-reflection on the current sources gives {tr}, serde's rules on the bundled definition give {derived:?}: cannot be attributed to a stale snapshot"),
                    replay: json!({"case": bc, "sides": sides}),
                    size: 0,
                });
            }
        }
    }

    // ---- evidence -------------------------------------------------------------------------------
    if let Some(dg) = &dep_graphs {
        runs.fetch_add(dg.runs, Ordering::Relaxed);
        compared += dg.compared;
        evaluations += dg.evaluations;
        states.extend(dg.states.iter().cloned());
    }
    if let Some(v) = &variant_shapes {
        runs.fetch_add(v.runs, Ordering::Relaxed);
        compared += v.compared;
        evaluations += v.evaluations;
        states.extend(v.states.iter().cloned());
        if v.skipped > 0 {
            skipped.insert(("altered descriptions".into(), "variant-shape".into()), v.skipped);
        }
    }
    if let Some(v) = &type_exprs {
        runs.fetch_add(v.runs, Ordering::Relaxed);
        compared += v.compared;
        evaluations += v.evaluations;
        states.extend(v.states.iter().cloned());
        if v.skipped > 0 {
            skipped.insert(("altered descriptions".into(), "type-expr".into()), v.skipped);
        }
    }
    let total_runs = runs.load(Ordering::Relaxed);
    let baseline_fps: BTreeSet<(String, u64)> = base.iter().map(|(d, b)| (d.clone(), b.fingerprint)).collect();
    let distinct_nontrivial = states.difference(&baseline_fps).count()
        - dep_graphs.as_ref().map_or(0, |dg| dg.states.len() - dg.nontrivial);
    if let Some(dg) = dep_graphs.as_ref().filter(|dg| dg.skipped > 0) {
        skipped.insert(("synthesized crate graphs".into(), "dep-graph".into()), dg.skipped);
    }
    let total_skipped: u64 = skipped.values().sum();
    let exhaustive = total_skipped == 0 && base.len() == EXAMPLES.len() && dep_graphs.is_some() && variant_shapes.is_some() && type_exprs.is_some() && !dimensions_only;
    times.sort_by(|a, b| a.partial_cmp(b).unwrap());
    loader_times.sort_by(|a, b| a.partial_cmp(b).unwrap());
    let mut per_description = serde_json::Map::new();
    for (d, p) in &plans {
        let fam = |f: &str| json!({
            "planned": p.sizes.get(f).copied().unwrap_or(0),
            "executed": executed.get(&(d.clone(), f.to_string())).copied().unwrap_or(0),
        });
        let mut t: Vec<f64> = all_cases
            .iter()
            .zip(&results)
            .filter_map(|(c, r)| match r {
                Some(RunResult::Ok(o)) if c.description == *d => Some(o.ms),
                _ => None,
            })
            .collect();
        t.sort_by(|a, b| a.partial_cmp(b).unwrap());
        let median_ms = t.get(t.len() / 2).copied();
        per_description.insert(d.clone(), json!({
            "dependent_crates": p.deps,
            "per_item_members_for_items_of": p.scope,
            "k_relevant_items_per_crate": p.k_per_crate,
            "k_relevant_items": p.k_per_crate.values().sum::<usize>(),
            "items_in_edge_relation": p.edge_nodes,
            "edges": base[d].edges.len(),
            "containers": base[d].registry.as_object().map_or(0, |m| m.len()),
            "fact_order": fam("fact-order"),
            "edge_order": fam("edge-order"),
            "renumber": fam("renumber"),
            "load_order": fam("load-order"),
            "declared_swap": fam("declared-swap"),
            "natural_unowned_runs": fam("natural"),
            "distinct_load_sequences_observed": load_sequences.get(d).map_or(0, |s| s.len()),
            "distinct_registries_observed": outcomes.get(d).map_or(0, |s| s.len()),
            "run_ms_median": median_ms,
        }));
    }
    if distinct_nontrivial < 2 || base.is_empty() {
        eprintln!("MACHINERY-ERROR: vacuous run: {distinct_nontrivial} distinct non-trivial perturbed executions");
        std::process::exit(2);
    }
    let renumber_bound = tier.pick(
        "reversal and offset (all loaded crates at once and each crate alone) + transpositions of relevant ids that are neighbours in id order among the relevant items of one kind (variant/field/struct/enum/impl/associated type), for the crates in the description's per-item scope",
        "reversal and offset (all loaded crates at once and each crate alone) + every transposition of two relevant ids of the same crate, for every loaded crate",
    );
    let coverage = json!({
        "states": states.len(),
        "transitions": total_runs,
        "traces_validated_against_impl": compared,
        "evaluations": evaluations,
        "distinct_nontrivial": distinct_nontrivial,
        "rule": "a state is a distinct (description, order fingerprint) pair, the fingerprint being an FNV hash computed inside crux_cli over the exact sequence of (relation, crate, id) facts and edges presented to the two datalog programs in crate processing order; members of the declared-swap family additionally carry a hash of the swap, since they change the description and not the order; a state is non-trivial if it differs from that of the unperturbed run of that description",
        "exhaustive": exhaustive,
        "exhaustive_detail": if exhaustive {
            format!("all families below were enumerated completely for all {} bundled descriptions at tier {}, and the dependency-graph dimension completely for its stated bound ({} synthesized graphs x all load orders); renumbering family at this tier = {}", base.len(), tier.name(), dep_graphs.as_ref().map_or(0, |dg| dg.coverage["graphs"].as_u64().unwrap_or(0)), renumber_bound)
        } else {
            format!("deadline cut the enumeration: {total_skipped} planned cases not executed: {:?}", skipped.iter().map(|((d, f), n)| format!("{d}/{f}: {n}")).collect::<Vec<_>>())
        },
        "families": {
            "fact-order": format!("item, summary and external-crate fact vectors of every processed crate sorted by the harness: descending id; for each relevant item {}: that item first / that item last (others ascending); the unperturbed run is ascending id", tier.pick("of the crates in the description's per-item scope", "of every loaded crate")),
            "edge-order": format!("edge vector handed to the formatter sorted by the harness: ascending, descending, and for each {}: its edges first / last", tier.pick("container (edge source) of the crates in the description's per-item scope", "item occurring in an edge")),
            "per_item_scope": tier.pick("quick: per-item members (item first/last, a container's edges first/last, transpositions, declared swaps) only under the descriptions that load at most one dependent crate (bridge_echo, hello_world, simple_counter, tap_to_pay): their own items, and crux_core's under bridge_echo. The items of cat_facts, counter, notes, crux_http, crux_kv, crux_time and crux_platform get per-item members in the thorough tier only; in quick those descriptions run the global members (descending order, edge order ascending/descending, reversal, offset), the load orders and the unowned runs", "thorough: every loaded crate under every description"),
            "renumber": renumber_bound,
            "load-order": tier.pick("every permutation of the dependent crates as load priority for descriptions with up to 3 dependent crates; for cat_facts (5): each crate first, each crate last (others in name order) and the reversed priority (the distinct ones of these 11, executed count under per_description); all 120 are thorough-only", "every permutation of the dependent crates as load priority, each with ascending and descending fact order"),
            "declared-swap": "semantic counterpart of the order families: for every enum that reaches the formatter (per-item scope as above) and every pair of neighbouring non-skipped variants, the two trade places in the declared variants list; the registry must be the unperturbed one with exactly those two indices exchanged",
            "dep-graph": "crate-reference graphs with transitive discovery, synthesized from the bundled descriptions by re-typing fields: every DAG on the root and up to 3 further crates x every load order (bound and counts under dependency_graphs)",
            "variant-shape": "one variant of an app enum rewritten in memory to each shape serde allows (unit, tuple/braced with 0, 1, 2 fields, with skipped fields, whole variant skipped), judged against what serde-reflection traces for that shape (bound, serde facts and counts under variant_shapes)",
            "type-expr": "one field of an app container mentions its type T (local, or from a dependent crate) through every type expression of length <= 3 over Option<_>, Vec<_>, (_, u8); registry closed, T's subtree intact, field format = rendering of the expression, nothing else moved (bound and counts under field_type_expressions)",
            "natural": "unowned runs (real hash-map order, real work-list order): a sample, not part of the exhaustiveness claim",
            "relevant_items": "nodes of the edge relation of the unperturbed run + impls of App/Effect/Capability/Operation, their associated types, their self types, and the fields of App self types",
        },
        "dependency_graphs": dep_graphs.as_ref().map_or(json!("not run: the descriptions it is built from were excluded"), |dg| dg.coverage.clone()),
        "variant_shapes": variant_shapes.as_ref().map_or(json!("not run: the descriptions it is built from were excluded"), |v| v.coverage.clone()),
        "field_attribute_serde_bytes": bytes_attr.coverage.clone(),
        "field_type_expressions": type_exprs.as_ref().map_or(json!("not run: a development filter excluded descriptions"), |v| v.coverage.clone()),
        "per_description": per_description,
        "descriptions": base.keys().collect::<Vec<_>>(),
        "distinct_outcomes": outcomes.values().map(|s| s.len()).sum::<usize>(),
        "distinct_outcomes_expected_if_property_holds": base.len(),
        "distinct_outcomes_note": "registries of the order/renumbering/load families only; the declared-swap family changes the meaning of the description and is expected to give a different registry per member",
        "declared_swap_distinct_registries": swap_outcomes.len(),
        "declared_swap_members_not_checkable": swaps_not_checkable,
        "ids_rewritten_per_description": fx.id_occurrences,
        "max_id_per_description": fx.max_id,
        "closedness_checks": closed_checks,
        "enums_checked_for_variant_indices": enums_checked,
        "variants_checked": variants_checked,
        "enums_not_derivable": enums_not_derivable,
        "protocol_comparisons": protocol_compared,
        "protocol_comparisons_agreeing": protocol_agree,
        "protocol_types_compared": protocol_types_seen,
        "protocol_types_never_in_any_registry": PROTOCOL_TYPES.iter().filter(|t| !protocol_types_seen.contains(**t)).collect::<Vec<_>>(),
        "protocol_stale_snapshots": stale,
        "reference_derivations_cross_checked": reference_checked,
        "reference_not_derivable": reference_not_derivable,
        "violating_cases_re_executed": rechecks,
        "run_ms": if times.is_empty() { json!(null) } else { json!({"min": times[0], "median": times[times.len() / 2], "max": times[times.len() - 1], "of_which_loader_median": loader_times[loader_times.len() / 2], "note": "per codegen run inside the worker pool, including cloning / renumbering the descriptions in the loader"}) },
        "samples": samples.into_value(),
    });
    let code = reporter.finish(
        "model_checking",
        coverage,
        &[
            "the three perturbation families of the design (fact order, renumbering, load order) plus the edge-order and declared-swap families are finite and enumerated completely, but they are NOT all iteration orders, all id bijections or all load orders: a dependence that needs three or more items to move at once, or a specific non-listed id assignment, is outside the enumerated space",
            tier.pick(
                "quick tier: the per-item members (item first/last, edges of a container first/last, transpositions, declared swaps) run only under the four descriptions that load at most one dependent crate, transpositions only between neighbouring relevant items of one kind, and cat_facts gets about a tenth of its 120 load orders (each crate first / last, reversed); the global members (descending order, edge order, reversal, offset) and the synthesized dimensions run completely; `exhaustive` at this tier refers to exactly this reduced space",
                "thorough tier: per-item members for every loaded crate under every description; all transpositions of two relevant ids of one crate; load permutations with ascending and descending fact order",
            ),
            "the dependency-graph dimension covers every crate-reference DAG on one root (tap_to_pay) and up to three further crates (crux_time, crux_kv, crux_platform in the stated assignments), one representative per topological labelling, under every load order; larger graphs, other roots, cycles between crates and references to crates without a bundled description are outside the space; its descriptions are bundled ones with re-typed fields, not rustdoc output",
            "the variant-shape dimension rewrites one variant at a time, with primitive (u32/u64) fields, in app-crate enums of the stated descriptions; shapes using serde attributes other than field-level and variant-level skip (flatten, with, tag, other, default variants), generic payloads and enums left without any variant are outside the space",
            "the field-type dimension alters one field at a time and uses only the constructors crux_cli's parser supports today (Option, Vec, tuples); arrays, slices, Box, maps and user generics are outside it (probed, noted)",
            "order is owned at the three fact vectors, the formatter's edge vector and the crate work list; iteration inside the datalog engine (ascent, FxHash) is deterministic given those and is not permuted separately",
            "only the 7 bundled example descriptions and the 5 bundled crux_* descriptions are inputs; they are snapshots (rustdoc format 42) and cannot be regenerated here",
            "protocol-type agreement compares crux_cli's output on the bundled snapshots with serde-reflection traced from the current sources; a difference that serde's own rules reproduce on the snapshot is attributed to snapshot age and reported, not flagged",
            "renumbering rewrites exactly the values serde presents as newtype struct `Id` (also as map keys); crate ids are not item ids and are left alone",
        ],
    );
    std::process::exit(code);
}

/// The registry that must result when two neighbouring live variants of an enum trade places in
/// the declaration: the unperturbed registry with the two corresponding indices exchanged.
fn expected_after_swap(fx: &Fixtures, sw: &DeclaredSwap, b: &RunOut) -> Option<(String, Value)> {
    let c = fx.crates.get(&sw.krate)?;
    let item = c.index.get(&Id(sw.enum_id))?;
    let ItemEnum::Enum(e) = &item.inner else { return None };
    let name = reference::container_name(item)?;
    let live: Vec<usize> = e
        .variants
        .iter()
        .enumerate()
        .filter(|(_, v)| c.index.get(v).is_some_and(|i| !reference::serde_attrs(i).skip))
        .map(|(p, _)| p)
        .collect();
    let i = live.iter().position(|p| *p == sw.a)?;
    let j = live.iter().position(|p| *p == sw.b)?;
    let mut expected = b.registry.clone();
    let m = expected.get_mut(&name)?.get_mut("ENUM")?.as_object_mut()?;
    let (vi, vj) = (m.get(&i.to_string())?.clone(), m.get(&j.to_string())?.clone());
    m.insert(i.to_string(), vj);
    m.insert(j.to_string(), vi);
    Some((name, expected))
}

/// Built-in deliberately wrong oracle inputs: each must be rejected, otherwise the harness could
/// not fail and is not to be trusted. They exercise the oracles only (tampered registries), so a
/// defect in crux cannot make them fail.
fn canaries(fx: &Fixtures, base: &BTreeMap<String, RunOut>) {
    let Some((_, b)) = base.iter().find(|(d, _)| d.as_str() == "simple_counter").or_else(|| base.iter().next()) else {
        return;
    };
    // 1. a registry in which two variants of an enum have traded places must be classified as
    //    different by the comparison and must trip the declaration-order oracle
    let mut swapped = b.registry.clone();
    let mut done = false;
    for (_, entry) in swapped.as_object_mut().unwrap().iter_mut() {
        if let Some(m) = entry.get_mut("ENUM").and_then(Value::as_object_mut) {
            if m.len() >= 2 && m.get("0") != m.get("1") {
                let (v0, v1) = (m["0"].clone(), m["1"].clone());
                m.insert("0".into(), v1);
                m.insert("1".into(), v0);
                done = true;
                break;
            }
        }
    }
    if !done {
        machinery_error("canary: no enum with two distinct variants in the canary registry");
    }
    if serde_json::to_string(&swapped).unwrap() == b.registry_text || diff_class(&b.registry, &swapped).0 != "enum-variant-index" {
        machinery_error("canary: the registry comparison does not see two variants trading places");
    }
    let (vf, ..) = variant_indices(fx, &b.edges, &swapped);
    if !vf.iter().any(|f| f.class == "declaration-order") {
        machinery_error("canary: the declaration-order oracle accepted a registry with two variants exchanged");
    }
    // 2. a registry with an entry removed must be reported as not closed
    let mut open = b.registry.clone();
    let mut refs = vec![];
    reference::referenced_type_names(&open, &mut refs);
    let Some(victim) = refs.first().cloned() else {
        machinery_error("canary: unperturbed registry references no type");
    };
    open.as_object_mut().unwrap().remove(&victim);
    if !closedness(&open).iter().any(|(_, m)| *m == victim) {
        machinery_error("canary: closedness oracle accepted a registry with a dangling reference");
    }
    // 3. keys 0,2 instead of 0,1 must be reported as not contiguous
    let mut gap = b.registry.clone();
    let mut done = false;
    for (_, entry) in gap.as_object_mut().unwrap().iter_mut() {
        if let Some(m) = entry.get_mut("ENUM").and_then(Value::as_object_mut) {
            if m.len() >= 2 {
                let last = (m.len() - 1).to_string();
                let v = m.remove(&last).unwrap();
                m.insert((m.len() + 1).to_string(), v);
                done = true;
                break;
            }
        }
    }
    if !done {
        machinery_error("canary: no enum with two variants in the canary registry");
    }
    let (vf, ..) = variant_indices(fx, &b.edges, &gap);
    if !vf.iter().any(|f| f.class == "not-contiguous") {
        machinery_error("canary: contiguity oracle accepted variant keys with a gap");
    }
}
