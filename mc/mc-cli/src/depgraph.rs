//! Dependency-graph dimension of C20.
//!
//! None of the bundled descriptions has *transitive* crate discovery: every dependent crate is
//! named by the app crate itself. This module synthesizes, by re-typing a few fields of the
//! bundled descriptions in memory (exactly what rustdoc emits for `field: other_crate::Type`),
//! every small crate-reference DAG up to a stated bound - a root description plus up to three
//! further crates, every node reachable from the root - and runs the real pipeline on each DAG
//! under every load order of its crates (and under reversed / offset numbering and descending
//! fact order). Oracles: every reachable crate is loaded and no other; the registry is closed;
//! it is the same for every load order, fact order and numbering; and it equals the reference
//! closure composed from the unperturbed registries of the bundled descriptions (the entries each
//! crate contributes, with exactly the re-typed fields replaced by a reference to the target
//! type).

use super::*;
use rustdoc_types::{ExternalCrate, GenericArgs, ItemKind, ItemSummary, Path, VariantKind};

/// A synthesized crate-reference graph. The root is the case's `description`.
#[derive(Serialize, Deserialize, Clone, Debug, PartialEq, Eq, PartialOrd, Ord)]
pub struct DepGraph {
    /// the dependent crates
    pub nodes: Vec<String>,
    /// crate references `(from, to)`; the k-th edge leaving a crate re-types that crate's k-th slot
    /// so that it refers to the export type of `to`
    pub edges: Vec<(String, String)>,
}

/// A field of a bundled description that reaches the registry and can be re-typed.
pub struct Slot {
    pub container: &'static str,
    pub variant: Option<&'static str>,
    pub field: &'static str,
}

/// A type a crate defines whenever it is loaded (it is in the closure of one of its operations).
pub struct Export {
    pub path: &'static [&'static str],
    pub kind: ItemKind,
}

pub const ROOT: &str = "tap_to_pay";

pub fn slots(krate: &str) -> &'static [Slot] {
    match krate {
        // the first slot of the root replaces its only bundled dependency (crux_core), so that the
        // root's direct dependencies are exactly those of the graph
        "tap_to_pay" => &[
            Slot { container: "EffectFfi", variant: Some("Render"), field: "0" },
            Slot { container: "DelayOperation", variant: Some("Start"), field: "millis" },
            Slot { container: "Receipt", variant: None, field: "email" },
        ],
        "crux_time" => &[
            Slot { container: "TimerId", variant: None, field: "0" },
            Slot { container: "Duration", variant: None, field: "nanos" },
        ],
        "crux_kv" => &[
            Slot { container: "KeyValueError", variant: Some("Io"), field: "message" },
            Slot { container: "KeyValueOperation", variant: Some("Get"), field: "key" },
        ],
        "crux_platform" => &[Slot { container: "PlatformResponse", variant: None, field: "0" }],
        _ => &[],
    }
}

pub fn export(krate: &str) -> Option<Export> {
    Some(match krate {
        "crux_time" => Export { path: &["crux_time", "protocol", "duration", "Duration"], kind: ItemKind::Struct },
        "crux_kv" => Export { path: &["crux_kv", "value", "Value"], kind: ItemKind::Enum },
        "crux_platform" => Export { path: &["crux_platform", "PlatformResponse"], kind: ItemKind::Struct },
        _ => return None,
    })
}

pub fn export_name(krate: &str) -> String {
    export(krate)
        .and_then(|e| e.path.last().map(|s| s.to_string()))
        .unwrap_or_else(|| machinery_error(&format!("dep-graph: crate {krate} has no export type")))
}

pub struct Located {
    pub container: Id,
    pub variant: Option<Id>,
    pub field: Id,
}

pub fn locate(c: &Crate, krate: &str, slot: &Slot) -> Located {
    let fail = |what: &str| -> ! {
        machinery_error(&format!(
            "dep-graph: slot {}::{:?}.{} of {krate}: {what}",
            slot.container, slot.variant, slot.field
        ))
    };
    let named = |id: &Id, name: &str| c.index.get(id).is_some_and(|i| i.name.as_deref() == Some(name));
    let containers: Vec<&Item> = c
        .index
        .values()
        .filter(|i| {
            i.crate_id == 0
                && i.name.as_deref() == Some(slot.container)
                && matches!(i.inner, ItemEnum::Struct(_) | ItemEnum::Enum(_))
        })
        .collect();
    if containers.len() != 1 {
        fail(&format!("{} containers of that name", containers.len()));
    }
    let container = containers[0];
    let (holder, variant) = match (&container.inner, slot.variant) {
        (ItemEnum::Enum(e), Some(v)) => {
            let Some(vid) = e.variants.iter().find(|id| named(id, v)) else { fail("no such variant") };
            (&c.index[vid], Some(*vid))
        }
        (ItemEnum::Struct(_), None) => (container, None),
        _ => fail("container kind and slot kind disagree"),
    };
    let fields: Vec<Id> = match &holder.inner {
        ItemEnum::Struct(s) => match &s.kind {
            StructKind::Plain { fields, .. } => fields.clone(),
            StructKind::Tuple(fields) => fields.iter().flatten().copied().collect(),
            StructKind::Unit => vec![],
        },
        ItemEnum::Variant(v) => match &v.kind {
            VariantKind::Struct { fields, .. } => fields.clone(),
            VariantKind::Tuple(fields) => fields.iter().flatten().copied().collect(),
            VariantKind::Plain => vec![],
        },
        _ => vec![],
    };
    let Some(field) = fields.into_iter().find(|id| named(id, slot.field)) else { fail("no such field") };
    Located { container: container.id, variant, field }
}

/// The slot each edge leaving `krate` uses, in edge order.
fn out_edges<'a>(g: &'a DepGraph, krate: &str) -> Vec<(&'static Slot, &'a str)> {
    let s = slots(krate);
    let out: Vec<&str> = g.edges.iter().filter(|(f, _)| f == krate).map(|(_, t)| t.as_str()).collect();
    if out.len() > s.len() {
        machinery_error(&format!("dep-graph: {krate} has {} out-edges but {} slots", out.len(), s.len()));
    }
    s.iter().zip(out).collect()
}

pub fn extra_ids(g: &DepGraph, krate: &str) -> u32 {
    g.edges.iter().filter(|(f, _)| f == krate).count() as u32
}

/// Re-types the slots of `krate` according to the graph. New path entries get the ids
/// `base_max + 1 ..`, new external crates the next free crate ids.
pub fn retype(c: &mut Crate, krate: &str, g: &DepGraph, base_max: u32) {
    for (k, (slot, target)) in out_edges(g, krate).into_iter().enumerate() {
        let loc = locate(c, krate, slot);
        let ex = export(target)
            .unwrap_or_else(|| machinery_error(&format!("dep-graph: crate {target} has no export type")));
        let crate_id = match c.external_crates.iter().find(|(_, e)| e.name == ex.path[0]) {
            Some((id, _)) => *id,
            None => {
                let id = c.external_crates.keys().max().map_or(1, |m| m + 1);
                c.external_crates.insert(id, ExternalCrate { name: ex.path[0].to_string(), html_root_url: None });
                id
            }
        };
        let id = Id(base_max + 1 + k as u32);
        c.paths.insert(
            id,
            ItemSummary { crate_id, path: ex.path.iter().map(|s| s.to_string()).collect(), kind: ex.kind },
        );
        let no_args = GenericArgs::AngleBracketed { args: vec![], constraints: vec![] };
        c.index.get_mut(&loc.field).expect("slot field").inner = ItemEnum::StructField(Type::ResolvedPath(Path {
            path: ex.path.join("::"),
            id,
            args: Some(Box::new(no_args)),
        }));
    }
}

// -------------------------------------------------------------------------------------------
// shapes

/// Every DAG on a root and `n <= 3` further crates `a[0..n]` (edges among them only from a lower
/// to a higher index, i.e. one representative per topological labelling) in which every crate is
/// reachable from the root.
pub fn shapes(root: &str, a: &[&str; 3]) -> Vec<DepGraph> {
    let mut out = vec![];
    for n in 1..=3usize {
        let inner: Vec<(usize, usize)> = (0..n).flat_map(|i| (i + 1..n).map(move |j| (i, j))).collect();
        for im in 0..(1u32 << inner.len()) {
            for rm in 1..(1u32 << n) {
                let root_edges: Vec<usize> = (0..n).filter(|i| rm & (1 << i) != 0).collect();
                let inner_edges: Vec<(usize, usize)> =
                    inner.iter().enumerate().filter(|(k, _)| im & (1 << k) != 0).map(|(_, e)| *e).collect();
                // reachability (edges go upwards, so one pass in index order suffices)
                let mut reach = vec![false; n];
                for i in 0..n {
                    reach[i] = root_edges.contains(&i) || inner_edges.iter().any(|(f, t)| *t == i && reach[*f]);
                }
                if !reach.iter().all(|r| *r) {
                    continue;
                }
                let mut edges: Vec<(String, String)> =
                    root_edges.iter().map(|i| (root.to_string(), a[*i].to_string())).collect();
                edges.extend(inner_edges.iter().map(|(f, t)| (a[*f].to_string(), a[*t].to_string())));
                out.push(DepGraph { nodes: a[..n].iter().map(|s| s.to_string()).collect(), edges });
            }
        }
    }
    out
}

pub fn shape_name(g: &DepGraph) -> String {
    g.edges.iter().map(|(f, t)| format!("{f}->{t}")).collect::<Vec<_>>().join(", ")
}

// -------------------------------------------------------------------------------------------
// reference closure

/// Names of the registry entries that items of `krate` contribute in an unperturbed run.
pub fn entries_of(fx: &Fixtures, base: &RunOut, krate: &str) -> BTreeSet<String> {
    let mut out = BTreeSet::new();
    for (src, _) in &base.edges {
        if src.0 != krate {
            continue;
        }
        if let Some(item) = fx.crates.get(krate).and_then(|c| c.index.get(&Id(src.1))) {
            if matches!(item.inner, ItemEnum::Struct(_) | ItemEnum::Enum(_)) {
                if let Some(n) = reference::container_name(item) {
                    out.insert(n);
                }
            }
        }
    }
    out
}

fn live_position(c: &Crate, ids: &[Id], wanted: Id) -> Option<usize> {
    ids.iter()
        .filter(|id| c.index.get(id).is_some_and(|i| !reference::serde_attrs(i).skip))
        .position(|id| *id == wanted)
}

fn set_named(slot: &mut Value, new: Value) -> Option<()> {
    // {"field name": format} -> keep the name
    let m = slot.as_object_mut()?;
    let k = m.keys().next()?.clone();
    m.insert(k, new);
    Some(())
}

/// Replaces, in the registry entry of the slot's container, the format of the slot's field.
pub fn patch(reg: &mut Value, c: &Crate, loc: &Located, new: Value) -> Option<()> {
    let container = c.index.get(&loc.container)?;
    let entry = reg.get_mut(reference::container_name(container)?)?;
    let field_ids = |item: &Item| -> Vec<Id> {
        match &item.inner {
            ItemEnum::Struct(s) => match &s.kind {
                StructKind::Plain { fields, .. } => fields.clone(),
                StructKind::Tuple(fs) => fs.iter().flatten().copied().collect(),
                StructKind::Unit => vec![],
            },
            ItemEnum::Variant(v) => match &v.kind {
                VariantKind::Struct { fields, .. } => fields.clone(),
                VariantKind::Tuple(fs) => fs.iter().flatten().copied().collect(),
                VariantKind::Plain => vec![],
            },
            _ => vec![],
        }
    };
    match loc.variant {
        None => {
            let pos = live_position(c, &field_ids(container), loc.field)?;
            if let Some(fs) = entry.get_mut("STRUCT").and_then(Value::as_array_mut) {
                set_named(fs.get_mut(pos)?, new)
            } else if let Some(f) = entry.get_mut("NEWTYPESTRUCT") {
                *f = new;
                Some(())
            } else {
                *entry.get_mut("TUPLESTRUCT")?.as_array_mut()?.get_mut(pos)? = new;
                Some(())
            }
        }
        Some(vid) => {
            let ItemEnum::Enum(e) = &container.inner else { return None };
            let vpos = live_position(c, &e.variants, vid)?;
            let v = entry.get_mut("ENUM")?.get_mut(vpos.to_string())?;
            let named = v.as_object_mut()?;
            let f = named.values_mut().next()?;
            let pos = live_position(c, &field_ids(c.index.get(&vid)?), loc.field)?;
            if let Some(fs) = f.get_mut("STRUCT").and_then(Value::as_array_mut) {
                set_named(fs.get_mut(pos)?, new)
            } else if let Some(x) = f.get_mut("NEWTYPE") {
                *x = new;
                Some(())
            } else {
                *f.get_mut("TUPLE")?.as_array_mut()?.get_mut(pos)? = new;
                Some(())
            }
        }
    }
}

/// The registry the graph must produce: the entries the root and every crate of the graph
/// contribute in the unperturbed runs of bundled descriptions, plus the synthetic `Request`, with
/// exactly the re-typed fields pointing at the target's export type.
pub fn expected_registry(fx: &Fixtures, base: &BTreeMap<String, RunOut>, root: &str, g: &DepGraph) -> Option<Value> {
    let mut reg = serde_json::Map::new();
    let rb = base.get(root)?;
    for n in entries_of(fx, rb, root) {
        reg.insert(n.clone(), rb.registry.get(&n)?.clone());
    }
    reg.insert("Request".into(), rb.registry.get("Request")?.clone());
    for k in &g.nodes {
        let b = base.values().find(|b| b.loaded.contains(k))?;
        for n in entries_of(fx, b, k) {
            reg.insert(n.clone(), b.registry.get(&n)?.clone());
        }
    }
    let mut reg = Value::Object(reg);
    for krate in std::iter::once(root).chain(g.nodes.iter().map(|s| s.as_str())) {
        let c = fx.crates.get(krate)?;
        for (slot, target) in out_edges(g, krate) {
            let loc = locate(c, krate, slot);
            patch(&mut reg, c, &loc, json!({ "TYPENAME": export_name(target) }))?;
        }
    }
    Some(reg)
}

// -------------------------------------------------------------------------------------------
// cases and verdicts

pub fn case(root: &str, g: &DepGraph, facts: Order, renumber: Renumber, priority: &[String]) -> Case {
    Case {
        description: root.to_string(),
        family: "dep-graph".into(),
        facts,
        edges: Order::Natural,
        renumber,
        load_priority: priority.to_vec(),
        declared_swap: None,
        dep_graph: Some(g.clone()),
        variant_shape: None,
        type_expr: None,
        strip_bytes: None,
    }
}

pub fn shape_baseline(root: &str, g: &DepGraph) -> Case {
    let mut p = g.nodes.clone();
    p.sort();
    case(root, g, Order::Asc, Renumber::Identity, &p)
}

/// `(key suffix, explanation)` of everything wrong with one run of a synthesized graph.
pub fn judge(
    root: &str,
    g: &DepGraph,
    out: &RunOut,
    shape_base: Option<&RunOut>,
    expected: Option<&Value>,
) -> Vec<(String, String)> {
    let mut f = vec![];
    let want: BTreeSet<&str> = std::iter::once(root).chain(g.nodes.iter().map(|s| s.as_str())).collect();
    let got: BTreeSet<&str> = out.loaded.iter().map(|s| s.as_str()).collect();
    let missing: Vec<&&str> = want.difference(&got).collect();
    let extra: Vec<&&str> = got.difference(&want).collect();
    if !missing.is_empty() {
        f.push((
            "crate-not-loaded".to_string(),
            format!("crate(s) {missing:?} are referenced (reachable in the crate graph) but were never loaded; loaded in this order: {:?}", out.loaded),
        ));
    }
    if !extra.is_empty() {
        f.push(("crate-loaded-unreferenced".to_string(), format!("crate(s) {extra:?} were loaded although nothing reachable refers to them")));
    }
    if out.loaded.len() != got.len() {
        f.push(("crate-loaded-twice".to_string(), format!("a crate was loaded more than once: {:?}", out.loaded)));
    }
    let open = closedness(&out.registry);
    if !open.is_empty() {
        f.push((
            "not-closed".to_string(),
            format!(
                "registry is not closed: {}",
                open.iter().map(|(c, m)| format!("{c} references {m}, which has no entry")).collect::<Vec<_>>().join("; ")
            ),
        ));
    }
    if let Some(b) = shape_base {
        if b.registry_text != out.registry_text {
            let (class, entry) = diff_class(&b.registry, &out.registry);
            f.push((
                format!("order-dependent/{class}"),
                format!("registry differs from the one obtained with ascending facts, identity numbering and load priority in name order: entry {entry} ({class})"),
            ));
        }
    }
    if let Some(e) = expected {
        if *e != out.registry {
            let (class, entry) = diff_class(e, &out.registry);
            f.push((
                format!("reference-closure/{class}"),
                format!("registry differs from the reference closure composed from the unperturbed bundled registries: entry {entry} ({class}): expected {}, observed {}", e.get(&entry).map_or("<absent>".into(), |v| v.to_string()), out.registry.get(&entry).map_or("<absent>".into(), |v| v.to_string())),
            ));
        }
    }
    f
}

pub struct Stats {
    pub runs: u64,
    pub compared: u64,
    pub evaluations: u64,
    pub states: BTreeSet<(String, u64)>,
    pub nontrivial: usize,
    pub skipped: u64,
    pub coverage: Value,
}

/// Runs the whole dimension. Violations go to `reporter` under keys `dep-graph/...`.
pub fn run_dimension(
    fx: &Fixtures,
    base: &BTreeMap<String, RunOut>,
    tier: Tier,
    reporter: &Reporter,
    deadline: &Deadline,
    samples: &mut Samples,
) -> Option<Stats> {
    let root = ROOT;
    if !base.contains_key(root) || ["crux_time", "crux_kv", "crux_platform"].iter().any(|k| !base.values().any(|b| b.loaded.iter().any(|l| l == k))) {
        return None; // development filter excluded the descriptions this dimension is built from
    }
    let assignments: Vec<[&str; 3]> = match tier {
        Tier::Quick => vec![["crux_time", "crux_kv", "crux_platform"]],
        Tier::Thorough => vec![
            ["crux_time", "crux_kv", "crux_platform"],
            ["crux_time", "crux_platform", "crux_kv"],
            ["crux_kv", "crux_time", "crux_platform"],
            ["crux_kv", "crux_platform", "crux_time"],
        ],
    };
    let graphs: BTreeSet<DepGraph> = assignments.iter().flat_map(|a| shapes(root, a)).collect();
    let graphs: Vec<DepGraph> = graphs.into_iter().collect();

    // cases: index 0 and 1 of every graph are the shape's baseline, twice
    let mut cases: Vec<(usize, Case)> = vec![];
    let mut orders_planned = 0u64;
    for (gi, g) in graphs.iter().enumerate() {
        cases.push((gi, shape_baseline(root, g)));
        cases.push((gi, shape_baseline(root, g)));
        let mut sorted = g.nodes.clone();
        sorted.sort();
        let mut reversed = sorted.clone();
        reversed.reverse();
        let all: Vec<String> = std::iter::once(root.to_string()).chain(g.nodes.iter().cloned()).collect();
        for p in permutations(&sorted) {
            orders_planned += 1;
            let full = tier == Tier::Thorough || p == sorted || p == reversed;
            if p != sorted {
                cases.push((gi, case(root, g, Order::Asc, Renumber::Identity, &p)));
            }
            if full {
                cases.push((gi, case(root, g, Order::Desc, Renumber::Identity, &p)));
                cases.push((gi, case(root, g, Order::Asc, Renumber::Reverse { crates: all.clone() }, &p)));
                cases.push((gi, case(root, g, Order::Asc, Renumber::Offset { crates: all.clone() }, &p)));
            }
        }
        if tier == Tier::Thorough {
            for _ in 0..2 {
                let mut c = case(root, g, Order::Natural, Renumber::Identity, &[]);
                c.family = "dep-graph-natural".into();
                cases.push((gi, c));
            }
        }
    }
    let results: Vec<Option<RunResult>> = par_map(&cases, |_, (_, c)| {
        if deadline.expired() {
            return None;
        }
        Some(execute(fx, c))
    });

    let mut st = Stats {
        runs: 0,
        compared: 0,
        evaluations: 0,
        states: BTreeSet::new(),
        nontrivial: 0,
        skipped: 0,
        coverage: Value::Null,
    };
    // shape baselines
    let mut shape_base: Vec<Option<&RunOut>> = vec![None; graphs.len()];
    for (k, ((gi, _), r)) in cases.iter().zip(&results).enumerate() {
        let is_first_baseline = k == 0 || cases[k - 1].0 != *gi;
        if is_first_baseline {
            if let Some(RunResult::Ok(o)) = r {
                shape_base[*gi] = Some(o);
                if let Some(Some(RunResult::Ok(o2))) = results.get(k + 1) {
                    if o2.registry_text != o.registry_text || o2.fingerprint != o.fingerprint || o2.loaded != o.loaded {
                        machinery_error(&format!("harness not deterministic on synthesized crate graph [{}]", shape_name(&graphs[*gi])));
                    }
                }
            }
        }
    }
    let expected: Vec<Option<Value>> = graphs.iter().map(|g| expected_registry(fx, base, root, g)).collect();
    if expected.iter().any(|e| e.is_none()) {
        machinery_error("dep-graph: reference closure could not be composed for a synthesized graph");
    }
    let mut load_sequences: BTreeSet<(usize, Vec<String>)> = BTreeSet::new();
    let mut registries: BTreeSet<(usize, u64)> = BTreeSet::new();
    let mut base_fps: BTreeSet<(String, u64)> = BTreeSet::new();
    let mut times: Vec<f64> = vec![];
    let mut executed_per_n: BTreeMap<usize, u64> = BTreeMap::new();
    for ((gi, c), r) in cases.iter().zip(&results) {
        let g = &graphs[*gi];
        let Some(r) = r else {
            st.skipped += 1;
            continue;
        };
        st.runs += 1;
        *executed_per_n.entry(g.nodes.len()).or_insert(0) += 1;
        let size = 10 * (g.nodes.len() + g.edges.len())
            + usize::from(c.facts != Order::Asc)
            + usize::from(c.renumber != Renumber::Identity)
            + usize::from(c.load_priority != shape_baseline(root, g).load_priority);
        let report = |suffix: &str, what: String, extra: Value| {
            reporter.violation(Violation {
                key: format!("dep-graph/{suffix}"),
                what: format!("synthesized crate graph [{}]: {what}; run: {}", shape_name(g), describe_case(fx, c)),
                replay: json!({"case": c, "graph": shape_name(g), "details": extra}),
                size,
            });
        };
        match r {
            RunResult::Ok(o) => {
                times.push(o.ms);
                st.compared += 1;
                st.evaluations += 4;
                let mark = fnv64(serde_json::to_string(g).unwrap().as_bytes());
                let state = (format!("{root}+graph"), o.fingerprint ^ mark);
                if c == &shape_baseline(root, g) {
                    base_fps.insert(state.clone());
                }
                st.states.insert(state);
                load_sequences.insert((*gi, o.loaded.clone()));
                registries.insert((*gi, o.registry_hash));
                samples.offer(|| json!({"case": c, "graph": shape_name(g), "loaded": o.loaded, "registry_hash": format!("{:016x}", o.registry_hash)}));
                for (suffix, what) in judge(root, g, o, shape_base[*gi], expected[*gi].as_ref()) {
                    report(&suffix, what, json!({"loaded": o.loaded}));
                }
            }
            RunResult::Err(e) => {
                st.evaluations += 1;
                let key: String = e.chars().take(40).map(|c| if c.is_ascii_alphanumeric() { c.to_ascii_lowercase() } else { '-' }).collect();
                report(&format!("run-error/{}", key.trim_matches('-')), format!("codegen fails: {e}"), json!({"error": e}));
            }
            RunResult::Panic(p) => {
                st.evaluations += 1;
                report(&p.key(), format!("codegen panics at {}:{}: {}", p.file, p.line, p.message), json!({"panic": p.message}));
            }
        }
    }
    st.nontrivial = st.states.difference(&base_fps).count();
    times.sort_by(|a, b| a.partial_cmp(b).unwrap());
    let mut by_n: BTreeMap<usize, usize> = BTreeMap::new();
    for g in &graphs {
        *by_n.entry(g.nodes.len()).or_insert(0) += 1;
    }
    st.coverage = json!({
        "bound": "root description tap_to_pay (its bundled crux_core dependency re-typed away) + 1..=3 further crates; every DAG in which each crate is reachable from the root, edges among the further crates from a lower to a higher position (one representative per topological labelling): 1 + 3 + 21 = 25 shapes per assignment of concrete crates to positions - chains of length 2 and 3, fork, diamond, two direct dependencies of which one or both have their own, crates reachable by two or three routes",
        "assignments_of_crates_to_positions": assignments,
        "graphs": graphs.len(),
        "graphs_by_number_of_dependent_crates": by_n,
        "load_orders": "every permutation of the graph's crates as load priority",
        "load_orders_planned": orders_planned,
        "variants_per_load_order": tier.pick(
            "ascending facts for every load order; descending facts, reversed numbering and offset numbering for the name-order priority and its reverse",
            "ascending facts, descending facts, reversed numbering and offset numbering for every load order; plus 2 unowned (natural hash order) runs per graph as a sample",
        ),
        "runs_executed": st.runs,
        "runs_executed_by_number_of_dependent_crates": executed_per_n,
        "runs_cut_by_deadline": st.skipped,
        "distinct_load_sequences_observed": load_sequences.len(),
        "distinct_registries_observed": registries.len(),
        "distinct_registries_expected_if_property_holds": graphs.len(),
        "oracles": "loaded crate set == crates reachable in the graph (each once); registry closed; registry equal to the graph's run with ascending facts / identity numbering / name-order priority; registry equal to the reference closure (entries each crate contributes in the unperturbed bundled runs, with exactly the re-typed fields replaced by TYPENAME of the target's export type)",
        "re_typed_slots": "tap_to_pay: EffectFfi::Render.0, DelayOperation::Start.millis, Receipt.email; crux_time: TimerId.0, Duration.nanos; crux_kv: KeyValueError::Io.message, KeyValueOperation::Get.key; crux_platform: PlatformResponse.0; export types: crux_time Duration, crux_kv Value, crux_platform PlatformResponse",
        "run_ms_median": times.get(times.len() / 2),
    });
    Some(st)
}

/// Replay of one case of this dimension, step by step.
pub fn replay(fx: &Fixtures, case: &Case) -> i32 {
    let g = case.dep_graph.as_ref().expect("dep-graph case");
    let root = case.description.as_str();
    println!("step 1: unperturbed runs of the bundled descriptions the reference closure is composed from");
    let mut base: BTreeMap<String, RunOut> = BTreeMap::new();
    for d in [root, "cat_facts"] {
        match execute(fx, &baseline_case(d, &[])) {
            RunResult::Ok(o) => {
                println!("  {d}: loaded {:?}, {} containers", o.loaded, o.registry.as_object().map_or(0, |m| m.len()));
                base.insert(d.to_string(), *o);
            }
            other => {
                println!("  {d}: unperturbed run failed: {other:?}");
                return 1;
            }
        }
    }
    let expected = expected_registry(fx, &base, root, g);
    println!("step 2: synthesized crate graph [{}]", shape_name(g));
    for krate in std::iter::once(root).chain(g.nodes.iter().map(|s| s.as_str())) {
        for (slot, target) in out_edges(g, krate) {
            println!("  {krate}: field {}{}.{} re-typed to {}", slot.container, slot.variant.map(|v| format!("::{v}")).unwrap_or_default(), slot.field, export(target).map(|e| e.path.join("::")).unwrap_or_default());
        }
    }
    println!("step 3: run with ascending facts, identity numbering, load priority in name order");
    let sb = match execute(fx, &shape_baseline(root, g)) {
        RunResult::Ok(o) => {
            println!("  loaded {:?}, {} containers, registry hash {:016x}", o.loaded, o.registry.as_object().map_or(0, |m| m.len()), o.registry_hash);
            Some(o)
        }
        other => {
            println!("  failed: {other:?}");
            None
        }
    };
    println!("step 4: the recorded run: {}", describe_case(fx, case));
    let mut bad = false;
    match execute(fx, case) {
        RunResult::Ok(o) => {
            println!("  loaded {:?}, {} containers, registry hash {:016x}", o.loaded, o.registry.as_object().map_or(0, |m| m.len()), o.registry_hash);
            println!("step 5: oracles");
            for (suffix, what) in judge(root, g, &o, sb.as_deref(), expected.as_ref()) {
                bad = true;
                println!("  [dep-graph/{suffix}] {what}");
            }
        }
        RunResult::Err(e) => {
            bad = true;
            println!("  pipeline returned an error: {e}");
        }
        RunResult::Panic(p) => {
            bad = true;
            println!("  pipeline panicked at {}:{}: {}", p.file, p.line, p.message);
        }
    }
    println!("verdict: {}", if bad { "violation reproduced" } else { "no violation on this tree" });
    i32::from(bad)
}
