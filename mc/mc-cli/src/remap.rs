//! Typed rewrite of every `rustdoc_types::Id` in a value.
//!
//! `Id` is `#[derive(Serialize)] struct Id(pub u32)`, so serde presents it to a serializer as
//! `serialize_newtype_struct("Id", &u32)` - also where it is a map key. `Remap` is a serializer
//! adapter that forwards everything unchanged to an inner serializer except exactly those
//! calls, whose payload is passed through the id map. No other number in the description (crate
//! ids, spans, discriminants, format version) can be touched.

use std::fmt::Display;

use serde::ser::{
    self, Serialize, SerializeMap, SerializeSeq, SerializeStruct, SerializeStructVariant,
    SerializeTuple, SerializeTupleStruct, SerializeTupleVariant, Serializer,
};

pub type IdMap<'a> = &'a dyn Fn(u32) -> u32;

pub struct Remap<'a, S> {
    pub inner: S,
    pub f: IdMap<'a>,
}

struct Wrap<'a, T: ?Sized> {
    v: &'a T,
    f: IdMap<'a>,
}

impl<T: Serialize + ?Sized> Serialize for Wrap<'_, T> {
    fn serialize<S: Serializer>(&self, s: S) -> Result<S::Ok, S::Error> {
        self.v.serialize(Remap { inner: s, f: self.f })
    }
}

/// Rewrites all ids of `value` and rebuilds it through serde_json's value model.
pub fn remap_ids<T>(value: &T, f: IdMap<'_>) -> T
where
    T: Serialize + serde::de::DeserializeOwned,
{
    let v = value
        .serialize(Remap { inner: serde_json::value::Serializer, f })
        .expect("rustdoc description serializes");
    serde_json::from_value(v).expect("rewritten rustdoc description deserializes")
}

// -------------------------------------------------------------------------------------------
// extracting the u32 out of an `Id`'s payload

#[derive(Debug)]
struct NotU32;
impl Display for NotU32 {
    fn fmt(&self, f: &mut std::fmt::Formatter<'_>) -> std::fmt::Result {
        f.write_str("payload of a newtype struct named Id is not a u32")
    }
}
impl std::error::Error for NotU32 {}
impl ser::Error for NotU32 {
    fn custom<T: Display>(_: T) -> Self {
        NotU32
    }
}

struct U32Extract;

macro_rules! reject {
    ($($name:ident($($arg:ty),*);)*) => {
        $(fn $name(self, $(_: $arg),*) -> Result<u32, NotU32> { Err(NotU32) })*
    };
}

impl Serializer for U32Extract {
    type Ok = u32;
    type Error = NotU32;
    type SerializeSeq = ser::Impossible<u32, NotU32>;
    type SerializeTuple = ser::Impossible<u32, NotU32>;
    type SerializeTupleStruct = ser::Impossible<u32, NotU32>;
    type SerializeTupleVariant = ser::Impossible<u32, NotU32>;
    type SerializeMap = ser::Impossible<u32, NotU32>;
    type SerializeStruct = ser::Impossible<u32, NotU32>;
    type SerializeStructVariant = ser::Impossible<u32, NotU32>;

    fn serialize_u32(self, v: u32) -> Result<u32, NotU32> {
        Ok(v)
    }
    reject! {
        serialize_bool(bool); serialize_i8(i8); serialize_i16(i16); serialize_i32(i32);
        serialize_i64(i64); serialize_u8(u8); serialize_u16(u16); serialize_u64(u64);
        serialize_f32(f32); serialize_f64(f64); serialize_char(char); serialize_str(&str);
        serialize_bytes(&[u8]); serialize_none(); serialize_unit(); serialize_unit_struct(&'static str);
        serialize_unit_variant(&'static str, u32, &'static str);
    }
    fn serialize_some<T: ?Sized + Serialize>(self, _: &T) -> Result<u32, NotU32> {
        Err(NotU32)
    }
    fn serialize_newtype_struct<T: ?Sized + Serialize>(
        self,
        _: &'static str,
        _: &T,
    ) -> Result<u32, NotU32> {
        Err(NotU32)
    }
    fn serialize_newtype_variant<T: ?Sized + Serialize>(
        self,
        _: &'static str,
        _: u32,
        _: &'static str,
        _: &T,
    ) -> Result<u32, NotU32> {
        Err(NotU32)
    }
    fn serialize_seq(self, _: Option<usize>) -> Result<Self::SerializeSeq, NotU32> {
        Err(NotU32)
    }
    fn serialize_tuple(self, _: usize) -> Result<Self::SerializeTuple, NotU32> {
        Err(NotU32)
    }
    fn serialize_tuple_struct(
        self,
        _: &'static str,
        _: usize,
    ) -> Result<Self::SerializeTupleStruct, NotU32> {
        Err(NotU32)
    }
    fn serialize_tuple_variant(
        self,
        _: &'static str,
        _: u32,
        _: &'static str,
        _: usize,
    ) -> Result<Self::SerializeTupleVariant, NotU32> {
        Err(NotU32)
    }
    fn serialize_map(self, _: Option<usize>) -> Result<Self::SerializeMap, NotU32> {
        Err(NotU32)
    }
    fn serialize_struct(
        self,
        _: &'static str,
        _: usize,
    ) -> Result<Self::SerializeStruct, NotU32> {
        Err(NotU32)
    }
    fn serialize_struct_variant(
        self,
        _: &'static str,
        _: u32,
        _: &'static str,
        _: usize,
    ) -> Result<Self::SerializeStructVariant, NotU32> {
        Err(NotU32)
    }
}

// -------------------------------------------------------------------------------------------
// the forwarding adapter

macro_rules! forward {
    ($($name:ident($($arg:ident : $ty:ty),*);)*) => {
        $(fn $name(self, $($arg: $ty),*) -> Result<S::Ok, S::Error> { self.inner.$name($($arg),*) })*
    };
}

pub struct Compound<'a, C> {
    inner: C,
    f: IdMap<'a>,
}

impl<'a, S: Serializer> Serializer for Remap<'a, S> {
    type Ok = S::Ok;
    type Error = S::Error;
    type SerializeSeq = Compound<'a, S::SerializeSeq>;
    type SerializeTuple = Compound<'a, S::SerializeTuple>;
    type SerializeTupleStruct = Compound<'a, S::SerializeTupleStruct>;
    type SerializeTupleVariant = Compound<'a, S::SerializeTupleVariant>;
    type SerializeMap = Compound<'a, S::SerializeMap>;
    type SerializeStruct = Compound<'a, S::SerializeStruct>;
    type SerializeStructVariant = Compound<'a, S::SerializeStructVariant>;

    forward! {
        serialize_bool(v: bool); serialize_i8(v: i8); serialize_i16(v: i16); serialize_i32(v: i32);
        serialize_i64(v: i64); serialize_u8(v: u8); serialize_u16(v: u16); serialize_u32(v: u32);
        serialize_u64(v: u64); serialize_f32(v: f32); serialize_f64(v: f64); serialize_char(v: char);
        serialize_str(v: &str); serialize_bytes(v: &[u8]); serialize_none(); serialize_unit();
        serialize_unit_struct(name: &'static str);
        serialize_unit_variant(name: &'static str, index: u32, variant: &'static str);
    }

    fn serialize_some<T: ?Sized + Serialize>(self, value: &T) -> Result<S::Ok, S::Error> {
        self.inner.serialize_some(&Wrap { v: value, f: self.f })
    }

    fn serialize_newtype_struct<T: ?Sized + Serialize>(
        self,
        name: &'static str,
        value: &T,
    ) -> Result<S::Ok, S::Error> {
        if name == "Id" {
            let old = value
                .serialize(U32Extract)
                .map_err(|e| <S::Error as ser::Error>::custom(e))?;
            let new = (self.f)(old);
            self.inner.serialize_newtype_struct(name, &new)
        } else {
            self.inner
                .serialize_newtype_struct(name, &Wrap { v: value, f: self.f })
        }
    }

    fn serialize_newtype_variant<T: ?Sized + Serialize>(
        self,
        name: &'static str,
        index: u32,
        variant: &'static str,
        value: &T,
    ) -> Result<S::Ok, S::Error> {
        self.inner
            .serialize_newtype_variant(name, index, variant, &Wrap { v: value, f: self.f })
    }

    fn serialize_seq(self, len: Option<usize>) -> Result<Self::SerializeSeq, S::Error> {
        Ok(Compound { inner: self.inner.serialize_seq(len)?, f: self.f })
    }
    fn serialize_tuple(self, len: usize) -> Result<Self::SerializeTuple, S::Error> {
        Ok(Compound { inner: self.inner.serialize_tuple(len)?, f: self.f })
    }
    fn serialize_tuple_struct(
        self,
        name: &'static str,
        len: usize,
    ) -> Result<Self::SerializeTupleStruct, S::Error> {
        Ok(Compound { inner: self.inner.serialize_tuple_struct(name, len)?, f: self.f })
    }
    fn serialize_tuple_variant(
        self,
        name: &'static str,
        index: u32,
        variant: &'static str,
        len: usize,
    ) -> Result<Self::SerializeTupleVariant, S::Error> {
        Ok(Compound {
            inner: self.inner.serialize_tuple_variant(name, index, variant, len)?,
            f: self.f,
        })
    }
    fn serialize_map(self, len: Option<usize>) -> Result<Self::SerializeMap, S::Error> {
        Ok(Compound { inner: self.inner.serialize_map(len)?, f: self.f })
    }
    fn serialize_struct(
        self,
        name: &'static str,
        len: usize,
    ) -> Result<Self::SerializeStruct, S::Error> {
        Ok(Compound { inner: self.inner.serialize_struct(name, len)?, f: self.f })
    }
    fn serialize_struct_variant(
        self,
        name: &'static str,
        index: u32,
        variant: &'static str,
        len: usize,
    ) -> Result<Self::SerializeStructVariant, S::Error> {
        Ok(Compound {
            inner: self.inner.serialize_struct_variant(name, index, variant, len)?,
            f: self.f,
        })
    }
}

impl<C: SerializeSeq> SerializeSeq for Compound<'_, C> {
    type Ok = C::Ok;
    type Error = C::Error;
    fn serialize_element<T: ?Sized + Serialize>(&mut self, value: &T) -> Result<(), C::Error> {
        self.inner.serialize_element(&Wrap { v: value, f: self.f })
    }
    fn end(self) -> Result<C::Ok, C::Error> {
        self.inner.end()
    }
}

impl<C: SerializeTuple> SerializeTuple for Compound<'_, C> {
    type Ok = C::Ok;
    type Error = C::Error;
    fn serialize_element<T: ?Sized + Serialize>(&mut self, value: &T) -> Result<(), C::Error> {
        self.inner.serialize_element(&Wrap { v: value, f: self.f })
    }
    fn end(self) -> Result<C::Ok, C::Error> {
        self.inner.end()
    }
}

impl<C: SerializeTupleStruct> SerializeTupleStruct for Compound<'_, C> {
    type Ok = C::Ok;
    type Error = C::Error;
    fn serialize_field<T: ?Sized + Serialize>(&mut self, value: &T) -> Result<(), C::Error> {
        self.inner.serialize_field(&Wrap { v: value, f: self.f })
    }
    fn end(self) -> Result<C::Ok, C::Error> {
        self.inner.end()
    }
}

impl<C: SerializeTupleVariant> SerializeTupleVariant for Compound<'_, C> {
    type Ok = C::Ok;
    type Error = C::Error;
    fn serialize_field<T: ?Sized + Serialize>(&mut self, value: &T) -> Result<(), C::Error> {
        self.inner.serialize_field(&Wrap { v: value, f: self.f })
    }
    fn end(self) -> Result<C::Ok, C::Error> {
        self.inner.end()
    }
}

impl<C: SerializeMap> SerializeMap for Compound<'_, C> {
    type Ok = C::Ok;
    type Error = C::Error;
    fn serialize_key<T: ?Sized + Serialize>(&mut self, key: &T) -> Result<(), C::Error> {
        self.inner.serialize_key(&Wrap { v: key, f: self.f })
    }
    fn serialize_value<T: ?Sized + Serialize>(&mut self, value: &T) -> Result<(), C::Error> {
        self.inner.serialize_value(&Wrap { v: value, f: self.f })
    }
    fn end(self) -> Result<C::Ok, C::Error> {
        self.inner.end()
    }
}

impl<C: SerializeStruct> SerializeStruct for Compound<'_, C> {
    type Ok = C::Ok;
    type Error = C::Error;
    fn serialize_field<T: ?Sized + Serialize>(
        &mut self,
        key: &'static str,
        value: &T,
    ) -> Result<(), C::Error> {
        self.inner.serialize_field(key, &Wrap { v: value, f: self.f })
    }
    fn end(self) -> Result<C::Ok, C::Error> {
        self.inner.end()
    }
}

impl<C: SerializeStructVariant> SerializeStructVariant for Compound<'_, C> {
    type Ok = C::Ok;
    type Error = C::Error;
    fn serialize_field<T: ?Sized + Serialize>(
        &mut self,
        key: &'static str,
        value: &T,
    ) -> Result<(), C::Error> {
        self.inner.serialize_field(key, &Wrap { v: value, f: self.f })
    }
    fn end(self) -> Result<C::Ok, C::Error> {
        self.inner.end()
    }
}
