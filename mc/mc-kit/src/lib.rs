//! Shared machinery for the crux model-checking engines: violation reporting against
//! `known_findings.json`, evidence and replay writers, panic capture, a worker pool and a
//! counting allocator. Nothing in here knows about crux.

use std::cell::RefCell;
use std::collections::BTreeMap;
use std::path::{Path, PathBuf};
use std::sync::atomic::{AtomicUsize, Ordering};
use std::sync::Mutex;
use std::time::Instant;

use serde_json::{json, Value};

pub mod alloc;
pub mod guarded;

pub fn verif_root() -> PathBuf {
    PathBuf::from(std::env::var("VERIF_ROOT").unwrap_or_else(|_| "/verif".into()))
}

pub fn workers() -> usize {
    std::env::var("VERIF_WORKERS")
        .ok()
        .and_then(|s| s.parse().ok())
        .unwrap_or_else(|| std::thread::available_parallelism().map_or(8, |n| n.get()))
}

#[derive(Clone, Copy, PartialEq, Eq, Debug)]
pub enum Tier {
    Quick,
    Thorough,
}

impl Tier {
    pub fn from_args(args: &[String]) -> Tier {
        let mut t = std::env::var("VERIF_TIER").ok();
        let mut it = args.iter();
        while let Some(a) = it.next() {
            if a == "--tier" {
                t = it.next().cloned();
            }
        }
        match t.as_deref() {
            Some("thorough") => Tier::Thorough,
            _ => Tier::Quick,
        }
    }
    pub fn name(self) -> &'static str {
        match self {
            Tier::Quick => "quick",
            Tier::Thorough => "thorough",
        }
    }
    pub fn pick<T>(self, quick: T, thorough: T) -> T {
        match self {
            Tier::Quick => quick,
            Tier::Thorough => thorough,
        }
    }
}

pub fn arg_value(args: &[String], name: &str) -> Option<String> {
    let mut it = args.iter();
    while let Some(a) = it.next() {
        if a == name {
            return it.next().cloned();
        }
    }
    None
}

pub fn seed() -> i64 {
    std::env::var("VERIF_SEED")
        .ok()
        .and_then(|s| s.parse().ok())
        .unwrap_or(0)
}

// ---------------------------------------------------------------------------------------------
// Known findings

#[derive(Debug, Clone)]
pub struct KnownFinding {
    pub property: String,
    pub key: String,
    pub status: String,
    pub what: String,
}

pub fn load_known_findings() -> Vec<KnownFinding> {
    let path = verif_root().join("known_findings.json");
    let Ok(text) = std::fs::read_to_string(&path) else {
        return vec![];
    };
    let v: Value = serde_json::from_str(&text).expect("known_findings.json is not valid JSON");
    let mut out = vec![];
    for e in v["findings"].as_array().cloned().unwrap_or_default() {
        out.push(KnownFinding {
            property: e["property"].as_str().unwrap_or("").to_string(),
            key: e["key"].as_str().unwrap_or("").to_string(),
            status: e["status"].as_str().unwrap_or("").to_string(),
            what: e["what"].as_str().unwrap_or("").to_string(),
        });
    }
    out
}

// ---------------------------------------------------------------------------------------------
// Reporter

#[derive(Debug, Clone)]
pub struct Violation {
    /// Finding key, derived from the minimal failing case (never from the property id alone).
    pub key: String,
    /// One line, human readable.
    pub what: String,
    /// Everything needed to re-execute the case.
    pub replay: Value,
    /// Size of the case; the smallest per key is kept.
    pub size: usize,
}

pub struct Reporter {
    pub property: String,
    pub tier: Tier,
    started: Instant,
    found: Mutex<BTreeMap<String, (Violation, u64)>>,
}

impl Reporter {
    pub fn new(property: &str, tier: Tier) -> Self {
        Reporter {
            property: property.to_string(),
            tier,
            started: Instant::now(),
            found: Mutex::new(BTreeMap::new()),
        }
    }

    pub fn violation(&self, v: Violation) {
        let mut f = self.found.lock().unwrap();
        match f.get_mut(&v.key) {
            Some((old, n)) => {
                *n += 1;
                if v.size < old.size
                    || (v.size == old.size && v.replay.to_string() < old.replay.to_string())
                {
                    *old = v;
                }
            }
            None => {
                f.insert(v.key.clone(), (v, 1));
            }
        }
    }

    pub fn violation_count(&self) -> usize {
        self.found.lock().unwrap().len()
    }

    pub fn has_key(&self, key: &str) -> bool {
        self.found.lock().unwrap().contains_key(key)
    }

    pub fn elapsed(&self) -> f64 {
        self.started.elapsed().as_secs_f64()
    }

    /// Writes evidence + replays, prints KNOWN-FINDING / VIOLATION lines, returns the exit code.
    pub fn finish(
        &self,
        level: &str,
        mut coverage: Value,
        assumptions: &[&str],
    ) -> i32 {
        let root = verif_root();
        let known = load_known_findings();
        let found = self.found.lock().unwrap();
        let mut unlisted = 0;
        let mut known_hit = vec![];
        let mut lines = vec![];
        let rev = repo_rev();
        for (key, (v, count)) in found.iter() {
            let listed = known
                .iter()
                .find(|k| k.property == self.property && &k.key == key && k.status == "known");
            if let Some(k) = listed {
                lines.push(format!(
                    "KNOWN-FINDING: property={} key={} {} ({} occurrences)",
                    self.property, key, k.what, count
                ));
                known_hit.push(key.clone());
            } else {
                unlisted += 1;
                let dir = root.join("replays");
                let _ = std::fs::create_dir_all(&dir);
                let fname = format!(
                    "{}-{}.json",
                    self.property,
                    key.replace(|c: char| !c.is_ascii_alphanumeric() && c != '-', "_")
                );
                let path = dir.join(fname);
                let body = json!({
                    "property": self.property,
                    "key": key,
                    "what": v.what,
                    "tier": self.tier.name(),
                    "occurrences": count,
                    "crux_rev": rev,
                    "case": v.replay,
                });
                let _ = std::fs::write(&path, serde_json::to_string_pretty(&body).unwrap());
                lines.push(format!("  finding key={} : {}", key, v.what));
                lines.push(format!(
                    "VIOLATION property={} replay={}",
                    self.property,
                    path.display()
                ));
            }
        }
        // fixed entries that did not recur are simply silent; known entries that no longer
        // reproduce are mentioned (informational, not an alarm).
        for k in known.iter().filter(|k| k.property == self.property && k.status == "known") {
            if !found.contains_key(&k.key) {
                lines.push(format!(
                    "note: known finding {} not reproduced in this run (tier {})",
                    k.key,
                    self.tier.name()
                ));
            }
        }
        if let Some(map) = coverage.as_object_mut() {
            map.insert("known_findings_reproduced".into(), json!(known_hit));
            map.insert(
                "violation_keys".into(),
                json!(found.keys().cloned().collect::<Vec<_>>()),
            );
        }
        let ev = json!({
            "property_id": self.property,
            "tier": self.tier.name(),
            "seed": seed(),
            "level": level,
            "coverage": coverage,
            "assumptions": assumptions,
            "wall_s": self.elapsed(),
            "violations": unlisted,
            "crux_rev": rev,
        });
        let evdir = root.join("evidence");
        let _ = std::fs::create_dir_all(&evdir);
        std::fs::write(
            evdir.join(format!("{}.json", self.property)),
            serde_json::to_string_pretty(&ev).unwrap(),
        )
        .expect("cannot write evidence");
        for l in lines {
            println!("{l}");
        }
        println!(
            "{}: tier={} unlisted_violations={} known_findings={} wall={:.1}s",
            self.property,
            self.tier.name(),
            unlisted,
            known_hit.len(),
            self.elapsed()
        );
        if unlisted > 0 {
            1
        } else {
            0
        }
    }
}

pub fn repo_root() -> String {
    std::env::var("VERIF_REPO").unwrap_or_else(|_| "/repo".into())
}

pub fn repo_rev() -> String {
    let repo = repo_root();
    let out = std::process::Command::new("git")
        .args(["-C", &repo, "rev-parse", "--short", "HEAD"])
        .output();
    let rev = out
        .ok()
        .map(|o| String::from_utf8_lossy(&o.stdout).trim().to_string())
        .unwrap_or_default();
    let dirty = std::process::Command::new("git")
        .args(["-C", &repo, "status", "--porcelain", "--untracked-files=no"])
        .output()
        .ok()
        .map(|o| !o.stdout.is_empty())
        .unwrap_or(false);
    if dirty {
        format!("{rev}+dirty")
    } else {
        rev
    }
}

/// Machinery failure: never a verdict.
pub fn machinery_error(msg: &str) -> ! {
    eprintln!("MACHINERY-ERROR: {msg}");
    std::process::exit(2);
}

// ---------------------------------------------------------------------------------------------
// Panic capture

#[derive(Debug, Clone, PartialEq, Eq, PartialOrd, Ord)]
pub struct PanicInfo {
    pub message: String,
    pub file: String,
    pub line: u32,
}

impl PanicInfo {
    /// `file-basename:message-prefix`, stable across line-number drift.
    pub fn key(&self) -> String {
        let base = Path::new(&self.file)
            .file_name()
            .map(|s| s.to_string_lossy().to_string())
            .unwrap_or_default();
        let msg: String = self
            .message
            .chars()
            .take_while(|c| *c != ':' && *c != '\n')
            .take(40)
            .map(|c| if c.is_ascii_alphanumeric() { c.to_ascii_lowercase() } else { '-' })
            .collect();
        format!("panic/{}/{}", base, msg.trim_matches('-'))
    }
}

thread_local! {
    static LAST_PANIC: RefCell<Option<PanicInfo>> = const { RefCell::new(None) };
    static CAPTURING: RefCell<bool> = const { RefCell::new(false) };
}

pub fn install_panic_hook() {
    static ONCE: std::sync::Once = std::sync::Once::new();
    ONCE.call_once(|| {
        let default = std::panic::take_hook();
        std::panic::set_hook(Box::new(move |info| {
            let capturing = CAPTURING.with(|c| *c.borrow());
            let msg = if let Some(s) = info.payload().downcast_ref::<&str>() {
                (*s).to_string()
            } else if let Some(s) = info.payload().downcast_ref::<String>() {
                s.clone()
            } else {
                "<non-string panic>".to_string()
            };
            let (file, line) = info
                .location()
                .map(|l| (l.file().to_string(), l.line()))
                .unwrap_or_default();
            if capturing {
                LAST_PANIC.with(|p| {
                    // keep the first panic of a capture region (later ones are consequences)
                    let mut p = p.borrow_mut();
                    if p.is_none() {
                        *p = Some(PanicInfo { message: msg, file, line });
                    }
                });
            } else {
                default(info);
            }
        }));
    });
}

/// Runs `f`, returning the captured panic (message + location) if it panicked.
pub fn catch<T>(f: impl FnOnce() -> T) -> Result<T, PanicInfo> {
    install_panic_hook();
    let was = CAPTURING.with(|c| std::mem::replace(&mut *c.borrow_mut(), true));
    if !was {
        LAST_PANIC.with(|p| *p.borrow_mut() = None);
    }
    let r = std::panic::catch_unwind(std::panic::AssertUnwindSafe(f));
    CAPTURING.with(|c| *c.borrow_mut() = was);
    match r {
        Ok(v) => Ok(v),
        Err(_) => Err(LAST_PANIC
            .with(|p| p.borrow_mut().take())
            .unwrap_or(PanicInfo {
                message: "<panic on another thread or hook not reached>".into(),
                file: String::new(),
                line: 0,
            })),
    }
}

/// Tell the hook that this (non-main) thread is inside a capture region; used by engines that
/// run subject code on helper threads and join them.
pub fn capture_on_this_thread(on: bool) {
    install_panic_hook();
    CAPTURING.with(|c| *c.borrow_mut() = on);
    if on {
        LAST_PANIC.with(|p| *p.borrow_mut() = None);
    }
}

pub fn take_last_panic() -> Option<PanicInfo> {
    LAST_PANIC.with(|p| p.borrow_mut().take())
}

// ---------------------------------------------------------------------------------------------
// Worker pool

/// Applies `f` to every item on `workers()` threads (dynamic distribution); results in input order.
pub fn par_map<I: Sync, O: Send>(items: &[I], f: impl Fn(usize, &I) -> O + Sync) -> Vec<O> {
    let n = workers().min(items.len().max(1));
    let next = AtomicUsize::new(0);
    let out: Mutex<Vec<(usize, O)>> = Mutex::new(Vec::with_capacity(items.len()));
    std::thread::scope(|s| {
        for _ in 0..n {
            s.spawn(|| loop {
                let i = next.fetch_add(1, Ordering::Relaxed);
                if i >= items.len() {
                    break;
                }
                let o = f(i, &items[i]);
                out.lock().unwrap().push((i, o));
            });
        }
    });
    let mut v = out.into_inner().unwrap();
    v.sort_by_key(|(i, _)| *i);
    v.into_iter().map(|(_, o)| o).collect()
}

// ---------------------------------------------------------------------------------------------
// Small helpers

/// Deterministic 64-bit FNV-1a (fixed keys, identical across processes).
pub fn fnv64(bytes: &[u8]) -> u64 {
    let mut h: u64 = 0xcbf29ce484222325;
    for b in bytes {
        h ^= u64::from(*b);
        h = h.wrapping_mul(0x100000001b3);
    }
    h
}

/// Keeps up to `cap` samples, spread over the run (1st, 2nd, 4th, 8th ... offered).
pub struct Samples {
    cap: usize,
    seen: u64,
    items: Vec<Value>,
}

impl Samples {
    pub fn new(cap: usize) -> Self {
        Samples { cap, seen: 0, items: vec![] }
    }
    pub fn offer(&mut self, f: impl FnOnce() -> Value) {
        self.seen += 1;
        if self.items.len() < self.cap && self.seen.is_power_of_two() {
            self.items.push(f());
        }
    }
    pub fn merge(&mut self, other: Samples) {
        for it in other.items {
            if self.items.len() < self.cap {
                self.items.push(it);
            }
        }
        self.seen += other.seen;
    }
    pub fn into_value(self) -> Value {
        Value::Array(self.items)
    }
}

pub struct Deadline {
    start: Instant,
    limit_s: f64,
}

impl Deadline {
    pub fn new(limit_s: f64) -> Self {
        Deadline { start: Instant::now(), limit_s }
    }
    pub fn expired(&self) -> bool {
        self.start.elapsed().as_secs_f64() > self.limit_s
    }
}
