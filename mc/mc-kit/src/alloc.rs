//! Counting global allocator: per-thread "bytes currently allocated since mark" peak gauge.
//! Install with `#[global_allocator] static A: mc_kit::alloc::Counting = mc_kit::alloc::Counting;`

use std::alloc::{GlobalAlloc, Layout, System};
use std::cell::Cell;

pub struct Counting;

thread_local! {
    static CUR: Cell<isize> = const { Cell::new(0) };
    static PEAK: Cell<isize> = const { Cell::new(0) };
    static LARGEST: Cell<usize> = const { Cell::new(0) };
}

unsafe impl GlobalAlloc for Counting {
    unsafe fn alloc(&self, layout: Layout) -> *mut u8 {
        let _ = CUR.try_with(|c| {
            let v = c.get() + layout.size() as isize;
            c.set(v);
            let _ = PEAK.try_with(|p| {
                if v > p.get() {
                    p.set(v)
                }
            });
        });
        let _ = LARGEST.try_with(|l| {
            if layout.size() > l.get() {
                l.set(layout.size())
            }
        });
        System.alloc(layout)
    }
    unsafe fn dealloc(&self, ptr: *mut u8, layout: Layout) {
        let _ = CUR.try_with(|c| c.set(c.get() - layout.size() as isize));
        System.dealloc(ptr, layout)
    }
    unsafe fn realloc(&self, ptr: *mut u8, layout: Layout, new_size: usize) -> *mut u8 {
        let _ = CUR.try_with(|c| {
            let v = c.get() + new_size as isize - layout.size() as isize;
            c.set(v);
            let _ = PEAK.try_with(|p| {
                if v > p.get() {
                    p.set(v)
                }
            });
        });
        let _ = LARGEST.try_with(|l| {
            if new_size > l.get() {
                l.set(new_size)
            }
        });
        System.realloc(ptr, layout, new_size)
    }
}

/// Resets the per-thread gauges; the next `peak()` is relative to this point.
pub fn mark() {
    CUR.with(|c| c.set(0));
    PEAK.with(|p| p.set(0));
    LARGEST.with(|l| l.set(0));
}

/// Peak net bytes allocated on this thread since `mark()`.
pub fn peak() -> usize {
    PEAK.with(|p| p.get().max(0) as usize)
}

/// Largest single allocation request on this thread since `mark()`.
pub fn largest() -> usize {
    LARGEST.with(|l| l.get())
}
