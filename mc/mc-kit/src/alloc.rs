//! Counting global allocator: per-thread "bytes currently allocated since mark" peak gauge.
//! Install with `#[global_allocator] static A: mc_kit::alloc::Counting = mc_kit::alloc::Counting;`

use std::alloc::{GlobalAlloc, Layout, System};
use std::cell::Cell;
use std::sync::atomic::{AtomicUsize, Ordering};

/// A single allocation request above this many bytes, made while a case label is set on the
/// requesting thread (see `set_case`), is treated as "input-driven unbounded allocation": the
/// allocator writes the label and the size to the marker file and aborts the process *before* the
/// system allocator is asked (which would either succeed and thrash, or fail and abort without
/// saying which input it was). `guarded::run` in the parent process turns that into a violation.
pub static HUGE_LIMIT: AtomicUsize = AtomicUsize::new(1 << 31);

const LABEL_CAP: usize = 512;

thread_local! {
    static CASE: Cell<([u8; LABEL_CAP], usize)> = const { Cell::new(([0; LABEL_CAP], 0)) };
}

/// Labels the input the calling thread is about to feed to the subject (no allocation).
pub fn set_case(label: &str) {
    let mut buf = [0u8; LABEL_CAP];
    let n = label.len().min(LABEL_CAP);
    buf[..n].copy_from_slice(&label.as_bytes()[..n]);
    let _ = CASE.try_with(|c| c.set((buf, n)));
}

pub fn clear_case() {
    let _ = CASE.try_with(|c| c.set(([0; LABEL_CAP], 0)));
}

pub fn marker_path() -> Option<std::ffi::CString> {
    std::env::var("VERIF_ALLOC_MARKER").ok().and_then(|p| std::ffi::CString::new(p).ok())
}

fn huge(size: usize) {
    if size < HUGE_LIMIT.load(Ordering::Relaxed) {
        return;
    }
    let Ok((buf, n)) = CASE.try_with(Cell::get) else { return };
    if n == 0 {
        return;
    }
    // async-signal-safe style: no allocation from here on
    if let Some(path) = MARKER.get() {
        unsafe {
            let fd = libc::open(path.as_ptr(), libc::O_WRONLY | libc::O_CREAT | libc::O_TRUNC, 0o644);
            if fd >= 0 {
                let mut digits = [0u8; 24];
                let mut i = digits.len();
                let mut v = size;
                loop {
                    i -= 1;
                    digits[i] = b'0' + (v % 10) as u8;
                    v /= 10;
                    if v == 0 {
                        break;
                    }
                }
                libc::write(fd, digits[i..].as_ptr().cast(), digits.len() - i);
                libc::write(fd, b"\n".as_ptr().cast(), 1);
                libc::write(fd, buf.as_ptr().cast(), n);
                libc::close(fd);
            }
        }
    }
    std::process::abort();
}

static MARKER: std::sync::OnceLock<std::ffi::CString> = std::sync::OnceLock::new();

/// Call once at start-up (before any labelled case) in the child process.
pub fn arm_marker() {
    if let Some(p) = marker_path() {
        let _ = MARKER.set(p);
    }
}

pub struct Counting;

thread_local! {
    static CUR: Cell<isize> = const { Cell::new(0) };
    static PEAK: Cell<isize> = const { Cell::new(0) };
    static LARGEST: Cell<usize> = const { Cell::new(0) };
}

unsafe impl GlobalAlloc for Counting {
    unsafe fn alloc(&self, layout: Layout) -> *mut u8 {
        huge(layout.size());
        let _ = CUR.try_with(|c| {
            let v = c.get() + layout.size() as isize;
            c.set(v);
            let _ = PEAK.try_with(|p| {
                if v > p.get() {
                    p.set(v)
                }
            });
        });
        let _ = LARGEST.try_with(|l| {
            if layout.size() > l.get() {
                l.set(layout.size())
            }
        });
        System.alloc(layout)
    }
    unsafe fn dealloc(&self, ptr: *mut u8, layout: Layout) {
        let _ = CUR.try_with(|c| c.set(c.get() - layout.size() as isize));
        System.dealloc(ptr, layout)
    }
    unsafe fn realloc(&self, ptr: *mut u8, layout: Layout, new_size: usize) -> *mut u8 {
        huge(new_size);
        let _ = CUR.try_with(|c| {
            let v = c.get() + new_size as isize - layout.size() as isize;
            c.set(v);
            let _ = PEAK.try_with(|p| {
                if v > p.get() {
                    p.set(v)
                }
            });
        });
        let _ = LARGEST.try_with(|l| {
            if new_size > l.get() {
                l.set(new_size)
            }
        });
        System.realloc(ptr, layout, new_size)
    }
}

/// Resets the per-thread gauges; the next `peak()` is relative to this point.
pub fn mark() {
    CUR.with(|c| c.set(0));
    PEAK.with(|p| p.set(0));
    LARGEST.with(|l| l.set(0));
}

/// Peak net bytes allocated on this thread since `mark()`.
pub fn peak() -> usize {
    PEAK.with(|p| p.get().max(0) as usize)
}

/// Largest single allocation request on this thread since `mark()`.
pub fn largest() -> usize {
    LARGEST.with(|l| l.get())
}
