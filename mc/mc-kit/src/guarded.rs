//! Runs an engine in a child process so that an input-driven abort (an allocation request of
//! petabytes aborts the process; nothing can catch that) becomes a verdict instead of a dead engine.
//!
//! `run(property, tier, child_main)`: in the parent, re-executes the current binary with the same
//! arguments and `VERIF_GUARDED_CHILD=1`, `VERIF_ALLOC_MARKER=<file>`; in the child, runs
//! `child_main` (which writes evidence, prints lines and returns the exit code as usual). If the
//! child dies abnormally and the allocator left a marker (see `alloc::set_case`), the parent writes
//! a replay + evidence and prints the VIOLATION line (or KNOWN-FINDING if listed).

use serde_json::json;

use crate::{Reporter, Tier, Violation};

pub fn run(property: &str, tier: Tier, child_main: impl FnOnce() -> i32) -> i32 {
    if std::env::var("VERIF_GUARDED_CHILD").is_ok() {
        crate::alloc::arm_marker();
        return child_main();
    }
    let marker = std::env::temp_dir().join(format!("verif-alloc-marker-{}-{}", property, std::process::id()));
    let _ = std::fs::remove_file(&marker);
    let exe = std::env::current_exe().expect("current exe");
    let status = std::process::Command::new(exe)
        .args(std::env::args().skip(1))
        .env("VERIF_GUARDED_CHILD", "1")
        .env("VERIF_ALLOC_MARKER", &marker)
        .status()
        .expect("spawn guarded child");
    if let Some(code) = status.code() {
        let _ = std::fs::remove_file(&marker);
        return code;
    }
    // killed by a signal
    let Ok(text) = std::fs::read_to_string(&marker) else {
        eprintln!("MACHINERY-ERROR: the engine process died ({status}) without an allocation marker");
        return 2;
    };
    let _ = std::fs::remove_file(&marker);
    let mut lines = text.splitn(2, '\n');
    let size = lines.next().unwrap_or("?").to_string();
    let label = lines.next().unwrap_or("").to_string();
    let rep = Reporter::new(property, tier);
    rep.violation(Violation {
        key: "alloc/input-driven-huge-allocation".into(),
        what: format!("the call asked the allocator for {size} bytes in one request (an input of a few dozen bytes drives allocation); case: {label}"),
        replay: json!({"engine": "guarded", "allocation_request_bytes": size, "case": label}),
        size: 1,
    });
    rep.finish(
        "fault_enumeration",
        json!({
            "evaluations": 1,
            "distinct_nontrivial": 2,
            "rule": "the exploration was cut short: one input made the subject request an allocation above the guard limit, which aborts the process; that input is reported, nothing after it was explored in this run",
            "samples": [label],
            "exhaustive": false,
        }),
        &["run aborted at the first input-driven huge allocation"],
    )
}
