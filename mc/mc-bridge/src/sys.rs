//! The system under exploration: up to three fresh, real objects fed the same history -
//! a typed twin `Core<App>`, a bincode `Bridge<App>` and a JSON `BridgeWithSerializer<App>` -
//! plus the shell side of the protocol (encoders, decoders, response values) and the step oracle.

use std::collections::BTreeMap;
use std::time::SystemTime;

use bincode::Options;
use crux_core::bridge::{Bridge, BridgeError, BridgeWithSerializer};
use crux_core::render::RenderOperation;
use crux_core::{Core, Request};
use crux_http::protocol::{HttpHeader, HttpRequest, HttpResponse, HttpResult};
use crux_http::HttpError;
use crux_kv::error::KeyValueError;
use crux_kv::value::Value as KvValue;
use crux_kv::{KeyValueOperation, KeyValueResponse, KeyValueResult};
use crux_platform::{PlatformRequest, PlatformResponse};
use crux_time::{Instant, TimeRequest, TimeResponse, TimerId};
use mc_kit::PanicInfo;

use crate::app::{menu_event, App, Effect, EffectFfi, Event, TinyOp, TinyOut, ViewModel};

pub type BReq = crux_core::bridge::Request<EffectFfi>;

// ---------------------------------------------------------------------------------------------
// codecs (shell side)

#[derive(Clone, Copy, Debug, PartialEq, Eq, PartialOrd, Ord)]
pub enum Codec {
    Bin,
    Json,
}

impl Codec {
    pub fn name(self) -> &'static str {
        match self {
            Codec::Bin => "bincode",
            Codec::Json => "json",
        }
    }
}

/// The options `Bridge` uses, minus `allow_trailing_bytes`: what the core emits must decode with
/// no residue.
pub fn bin_strict() -> impl bincode::Options + Copy {
    bincode::DefaultOptions::new().with_fixint_encoding()
}

/// Exactly the options `Bridge` uses for its input.
pub fn bin_lenient() -> impl bincode::Options + Copy {
    bincode::DefaultOptions::new()
        .with_fixint_encoding()
        .allow_trailing_bytes()
}

pub fn enc<T: serde::Serialize>(codec: Codec, v: &T) -> Vec<u8> {
    match codec {
        Codec::Bin => bin_strict().serialize(v).expect("bincode serialize"),
        Codec::Json => serde_json::to_vec(v).expect("json serialize"),
    }
}

pub fn dec_strict<T: serde::de::DeserializeOwned>(codec: Codec, b: &[u8]) -> Result<T, String> {
    match codec {
        Codec::Bin => bin_strict().deserialize(b).map_err(|e| e.to_string()),
        Codec::Json => serde_json::from_slice(b).map_err(|e| e.to_string()),
    }
}

/// Decodes the way the bridge does (trailing input tolerated).
pub fn dec_lenient<T: serde::de::DeserializeOwned>(codec: Codec, b: &[u8]) -> Result<T, String> {
    match codec {
        Codec::Bin => bin_lenient().deserialize(b).map_err(|e| e.to_string()),
        Codec::Json => {
            let mut de = serde_json::Deserializer::from_slice(b);
            T::deserialize(&mut de).map_err(|e| e.to_string())
        }
    }
}

// ---------------------------------------------------------------------------------------------
// operations and responses

#[derive(Clone, Debug, PartialEq)]
pub enum Op {
    Http(HttpRequest),
    Kv(KeyValueOperation),
    Platform,
    Render,
    Time(TimeRequest),
    Tiny(TinyOp),
}

impl Op {
    pub fn from_ffi_ref(e: &EffectFfi) -> Op {
        match e {
            EffectFfi::Http(o) => Op::Http(o.clone()),
            EffectFfi::KeyValue(o) => Op::Kv(o.clone()),
            EffectFfi::Platform(_) => Op::Platform,
            EffectFfi::Render(_) => Op::Render,
            EffectFfi::Time(o) => Op::Time(o.clone()),
            EffectFfi::Tiny(o) => Op::Tiny(o.clone()),
        }
    }
    pub fn to_ffi(&self) -> EffectFfi {
        match self {
            Op::Http(o) => EffectFfi::Http(o.clone()),
            Op::Kv(o) => EffectFfi::KeyValue(o.clone()),
            Op::Platform => EffectFfi::Platform(PlatformRequest),
            Op::Render => EffectFfi::Render(RenderOperation),
            Op::Time(o) => EffectFfi::Time(o.clone()),
            Op::Tiny(o) => EffectFfi::Tiny(o.clone()),
        }
    }
    pub fn short(&self) -> String {
        match self {
            Op::Http(h) => format!("http {} {} ({} headers)", h.method, h.url, h.headers.len()),
            Op::Kv(k) => format!("kv {k:?}"),
            Op::Platform => "platform".into(),
            Op::Render => "render".into(),
            Op::Time(t) => format!("time {t:?}"),
            Op::Tiny(t) => format!("tiny {t:?}"),
        }
    }
}

#[derive(Clone, Copy, Debug, PartialEq, Eq, PartialOrd, Ord)]
pub enum Kind {
    Once,
    Many,
    Never,
}

/// A shell answer, typed. `HttpRes` exists because serde's `Serialize` for
/// `HttpResult::Err(HttpError::..)` writes wrong variant indices on the pinned tree (DESIGN D6):
/// error answers are encoded by hand from the schema the core's *reader* uses.
#[derive(Clone, Debug, PartialEq)]
pub enum Resp {
    Tiny(TinyOut),
    Kv(KeyValueResult),
    Time(TimeResponse),
    Platform(String),
    Http(HttpRes),
    Unit,
}

#[derive(Clone, Debug, PartialEq)]
pub enum HttpRes {
    Ok(HttpResponse),
    ErrUrl(String),
    ErrIo(String),
    ErrTimeout,
}

impl HttpRes {
    pub fn typed(&self) -> HttpResult {
        match self {
            HttpRes::Ok(r) => HttpResult::Ok(r.clone()),
            HttpRes::ErrUrl(s) => HttpResult::Err(HttpError::Url(s.clone())),
            HttpRes::ErrIo(s) => HttpResult::Err(HttpError::Io(s.clone())),
            HttpRes::ErrTimeout => HttpResult::Err(HttpError::Timeout),
        }
    }
    pub fn from_typed(r: &HttpResult) -> Option<HttpRes> {
        Some(match r {
            HttpResult::Ok(r) => HttpRes::Ok(r.clone()),
            HttpResult::Err(HttpError::Url(s)) => HttpRes::ErrUrl(s.clone()),
            HttpResult::Err(HttpError::Io(s)) => HttpRes::ErrIo(s.clone()),
            HttpResult::Err(HttpError::Timeout) => HttpRes::ErrTimeout,
            HttpResult::Err(_) => return None,
        })
    }
}

fn bin_str(out: &mut Vec<u8>, s: &str) {
    out.extend_from_slice(&(s.len() as u64).to_le_bytes());
    out.extend_from_slice(s.as_bytes());
}

pub fn enc_resp(codec: Codec, r: &Resp) -> Vec<u8> {
    match r {
        Resp::Tiny(v) => enc(codec, v),
        Resp::Kv(v) => enc(codec, v),
        Resp::Time(v) => enc(codec, v),
        Resp::Platform(s) => enc(codec, &PlatformResponse(s.clone())),
        Resp::Unit => enc(codec, &()),
        Resp::Http(h) => match codec {
            Codec::Bin => {
                let mut out = vec![];
                match h {
                    HttpRes::Ok(resp) => {
                        out.extend_from_slice(&0u32.to_le_bytes());
                        out.extend_from_slice(&enc(codec, resp));
                    }
                    HttpRes::ErrUrl(s) => {
                        out.extend_from_slice(&1u32.to_le_bytes());
                        out.extend_from_slice(&0u32.to_le_bytes());
                        bin_str(&mut out, s);
                    }
                    HttpRes::ErrIo(s) => {
                        out.extend_from_slice(&1u32.to_le_bytes());
                        out.extend_from_slice(&1u32.to_le_bytes());
                        bin_str(&mut out, s);
                    }
                    HttpRes::ErrTimeout => {
                        out.extend_from_slice(&1u32.to_le_bytes());
                        out.extend_from_slice(&2u32.to_le_bytes());
                    }
                }
                out
            }
            Codec::Json => {
                let v = match h {
                    HttpRes::Ok(resp) => {
                        serde_json::json!({ "Ok": serde_json::to_value(resp).unwrap() })
                    }
                    HttpRes::ErrUrl(s) => serde_json::json!({"Err": {"Url": s}}),
                    HttpRes::ErrIo(s) => serde_json::json!({"Err": {"Io": s}}),
                    HttpRes::ErrTimeout => serde_json::json!({"Err": "Timeout"}),
                };
                serde_json::to_vec(&v).unwrap()
            }
        },
    }
}

/// Decodes answer bytes the way the bridge's resolve closure for `op` will (harness side; used by
/// C12 to tell which mutated inputs are still well-formed).
pub fn dec_resp(codec: Codec, op: &Op, b: &[u8]) -> Result<Resp, String> {
    Ok(match op {
        Op::Http(_) => {
            let r: HttpResult = dec_lenient(codec, b)?;
            Resp::Http(HttpRes::from_typed(&r).ok_or("skipped variant")?)
        }
        Op::Kv(_) => Resp::Kv(dec_lenient(codec, b)?),
        Op::Platform => Resp::Platform(dec_lenient::<PlatformResponse>(codec, b)?.0),
        Op::Render => {
            dec_lenient::<()>(codec, b)?;
            Resp::Unit
        }
        Op::Time(_) => Resp::Time(dec_lenient(codec, b)?),
        Op::Tiny(_) => Resp::Tiny(dec_lenient(codec, b)?),
    })
}

/// The answer the shell gives to `op` (raw: with the lane's own timer ids) at history step
/// `stamp`. One value per request and step; the stamp makes every answer of a history unique so
/// that the view shows who received what, and it rotates through ok / error shapes.
pub fn response_for(op: &Op, stamp: u16) -> Resp {
    let b = (stamp & 0xff) as u8;
    match op {
        Op::Tiny(_) => Resp::Tiny(TinyOut(stamp)),
        Op::Platform => Resp::Platform(format!("p{stamp}")),
        Op::Render => Resp::Unit,
        Op::Kv(k) => Resp::Kv(match k {
            KeyValueOperation::Set { .. } => {
                if stamp % 3 == 2 {
                    KeyValueResult::Err {
                        error: KeyValueError::Timeout,
                    }
                } else {
                    KeyValueResult::Ok {
                        response: KeyValueResponse::Set {
                            previous: KvValue::Bytes(vec![b]),
                        },
                    }
                }
            }
            KeyValueOperation::Get { .. } => KeyValueResult::Ok {
                response: KeyValueResponse::Get {
                    value: if stamp % 2 == 0 {
                        KvValue::None
                    } else {
                        KvValue::Bytes(vec![b, b])
                    },
                },
            },
            KeyValueOperation::Delete { .. } => KeyValueResult::Ok {
                response: KeyValueResponse::Delete {
                    previous: KvValue::None,
                },
            },
            KeyValueOperation::Exists { .. } => KeyValueResult::Ok {
                response: KeyValueResponse::Exists { is_present: true },
            },
            KeyValueOperation::ListKeys { .. } => KeyValueResult::Ok {
                response: KeyValueResponse::ListKeys {
                    keys: vec![],
                    next_cursor: 0,
                },
            },
        }),
        Op::Time(t) => Resp::Time(match t {
            TimeRequest::Now => TimeResponse::Now {
                instant: Instant::new(u64::from(stamp), 0),
            },
            TimeRequest::NotifyAt { id, .. } => TimeResponse::InstantArrived { id: *id },
            TimeRequest::NotifyAfter { id, .. } => TimeResponse::DurationElapsed { id: *id },
            TimeRequest::Clear { id } => TimeResponse::Cleared { id: *id },
        }),
        Op::Http(_) => {
            let ok = |status: u16, extra: Option<(&str, String)>| {
                let mut headers = vec![
                    HttpHeader {
                        name: "x-stamp".into(),
                        value: format!("{stamp}"),
                    },
                    HttpHeader {
                        name: "x-t".into(),
                        value: "t".into(),
                    },
                ];
                if let Some((n, v)) = extra {
                    headers.push(HttpHeader {
                        name: n.into(),
                        value: v,
                    });
                }
                HttpRes::Ok(HttpResponse {
                    status,
                    headers,
                    body: vec![b, 1],
                })
            };
            // statuses stay inside http-types' enum (DESIGN section 11: K5 must not fire
            // here); 301 / 302 / 307 carry a Location (absolute, absolute, relative) for the
            // requests that go through the redirect middleware
            if !crate::app::redirects() {
                return Resp::Http(match stamp % 5 {
                    4 => HttpRes::ErrIo(format!("io{stamp}")),
                    3 => HttpRes::Ok(HttpResponse {
                        status: 404,
                        headers: vec![],
                        body: vec![b],
                    }),
                    k => ok(200 + k, None),
                });
            }
            // one header name reported on several lines with DIFFERENT spellings (the response
            // folds them into one entry whose value order is observable), among more than nine
            // distinct names; two content types with different charsets and a body that decodes
            // differently under them
            let spelled = |status: u16, spellings: &[(&str, &str)]| {
                let mut headers: Vec<HttpHeader> = (1..=10)
                    .map(|i| HttpHeader {
                        name: format!("x-h{i}"),
                        value: format!("{i}"),
                    })
                    .collect();
                for (n, v) in spellings {
                    headers.push(HttpHeader {
                        name: n.to_string(),
                        value: v.to_string(),
                    });
                }
                HttpRes::Ok(HttpResponse {
                    status,
                    headers,
                    // "é" in ISO-8859-1; not valid UTF-8
                    body: vec![b'c', b'a', b'f', 0xe9, b],
                })
            };
            Resp::Http(match stamp % 7 {
                0 => spelled(
                    201,
                    &[
                        ("Set-Cookie", "a=1"),
                        ("set-cookie", "b=2"),
                        ("SET-COOKIE", "c=3"),
                        ("Content-Type", "text/plain; charset=utf-8"),
                        ("content-type", "text/plain; charset=iso-8859-1"),
                    ],
                ),
                1 => HttpRes::Ok(HttpResponse {
                    status: 404,
                    headers: vec![],
                    body: vec![b],
                }),
                2 => ok(302, Some(("location", format!("https://example.com/moved/{stamp}")))),
                3 => spelled(
                    200,
                    &[
                        ("Vary", "accept"),
                        ("vary", "origin"),
                        ("VARY", "cookie"),
                        ("Vary", "user-agent"),
                        ("content-type", "text/plain; charset=iso-8859-1"),
                        ("Content-type", "text/plain; charset=utf-8"),
                    ],
                ),
                4 => ok(307, Some(("location", format!("hop{stamp}")))),
                5 => HttpRes::ErrIo(format!("io{stamp}")),
                _ => ok(301, Some(("location", format!("https://example.org/perm/{stamp}")))),
            })
        }
    }
}

// ---------------------------------------------------------------------------------------------
// lanes

pub enum TwinReq {
    Http(Request<HttpRequest>),
    Kv(Request<KeyValueOperation>),
    Platform(Request<PlatformRequest>),
    Render(Request<RenderOperation>),
    Time(Request<TimeRequest>),
    Tiny(Request<TinyOp>),
}

fn split_effect(e: Effect) -> (Op, TwinReq) {
    match e {
        Effect::Http(r) => (Op::Http(r.operation.clone()), TwinReq::Http(r)),
        Effect::KeyValue(r) => (Op::Kv(r.operation.clone()), TwinReq::Kv(r)),
        Effect::Platform(r) => (Op::Platform, TwinReq::Platform(r)),
        Effect::Render(r) => (Op::Render, TwinReq::Render(r)),
        Effect::Time(r) => (Op::Time(r.operation.clone()), TwinReq::Time(r)),
        Effect::Tiny(r) => (Op::Tiny(r.operation.clone()), TwinReq::Tiny(r)),
    }
}

#[derive(Clone, Copy, Debug, PartialEq, Eq, PartialOrd, Ord)]
pub enum LaneKind {
    Twin,
    Bin,
    Json,
}

impl LaneKind {
    pub fn codec(self) -> Option<Codec> {
        match self {
            LaneKind::Twin => None,
            LaneKind::Bin => Some(Codec::Bin),
            LaneKind::Json => Some(Codec::Json),
        }
    }
    pub fn name(self) -> &'static str {
        match self {
            LaneKind::Twin => "typed-core",
            LaneKind::Bin => "bincode-bridge",
            LaneKind::Json => "json-bridge",
        }
    }
}

enum Driver {
    Twin(Core<App>),
    Bin(Bridge<App>),
    Json(BridgeWithSerializer<App>),
}

pub struct LaneReq {
    /// id handed out by the bridge (twin: running number)
    pub id: u32,
    /// canonical form: timer ids replaced by the per-core ordinal the app put into the payload,
    /// HTTP headers stably sorted by name
    pub op: Op,
    /// as issued by this core
    pub raw: Op,
    pub kind: Kind,
    /// still resolvable as far as the shell knows
    pub live: bool,
    typed: Option<TwinReq>,
}

#[derive(Clone, Debug, PartialEq, Eq, PartialOrd, Ord)]
pub enum Reject {
    DeserializeEvent,
    DeserializeOutput,
    Never,
    FinishedMany,
    /// the requests of this step could not be serialized (an operation's Serialize failed)
    SerializeRequests,
    SerializeView,
    Other,
}

#[derive(Debug)]
pub enum Outcome {
    /// handles (indices into `Lane::reqs`) of the requests returned by the call
    Ok(Vec<usize>),
    Rejected(Reject, String),
    Panicked(PanicInfo),
}

impl Outcome {
    pub fn class(&self) -> String {
        match self {
            Outcome::Ok(_) => "ok".into(),
            Outcome::Rejected(r, _) => format!("err:{r:?}"),
            Outcome::Panicked(_) => "panic".into(),
        }
    }
}

#[derive(Clone, Debug, PartialEq, Eq, PartialOrd, Ord, Default)]
pub struct Gauges {
    /// registry entries (never, once, many); None on the typed core
    pub registry: Option<(usize, usize, usize)>,
    /// (executor task slots, queued spawns, queued wake-ups, undelivered effects, unapplied events)
    pub core: (usize, usize, usize, usize, usize),
}

pub struct Lane {
    pub kind: LaneKind,
    drv: Option<Driver>,
    pub reqs: Vec<LaneReq>,
    /// raw timer id -> canonical id (taken from the payload the app chose)
    timers: BTreeMap<usize, usize>,
    pub dead: bool,
    /// bytes returned by the last successful bridge call, and the same batch re-encoded with
    /// canonical timer ids (C11 hashes the latter; equality of the two modulo timer ids is checked)
    pub last_raw: Vec<u8>,
    pub last_canon: Vec<u8>,
    /// compute `last_raw` / `last_canon` and check the re-encoding (C11)
    pub want_canon: bool,
    pub harness_notes: Vec<String>,
    pub codec_notes: Vec<String>,
    /// registry entries (never, once, many) of batches this bridge registered and then could not
    /// serialize: the shell never saw those requests, the entries stay (measured, reported)
    pub undelivered: (usize, usize, usize),
    /// C12: measure every byte-level call (peak allocation, duration) and arm the watchdog
    pub meter: bool,
    pub last_peak: usize,
    pub last_nanos: u128,
}

fn canon_http(h: &HttpRequest) -> HttpRequest {
    let mut h = h.clone();
    h.headers.sort_by(|a, b| a.name.cmp(&b.name));
    h
}

impl Lane {
    pub fn new(kind: LaneKind) -> Lane {
        let core: Core<App> = Core::new();
        let drv = match kind {
            LaneKind::Twin => Driver::Twin(core),
            LaneKind::Bin => Driver::Bin(Bridge::new(core)),
            LaneKind::Json => Driver::Json(BridgeWithSerializer::new(core)),
        };
        Lane {
            kind,
            drv: Some(drv),
            reqs: vec![],
            timers: BTreeMap::new(),
            dead: false,
            last_raw: vec![],
            last_canon: vec![],
            want_canon: false,
            harness_notes: vec![],
            codec_notes: vec![],
            undelivered: (0, 0, 0),
            meter: false,
            last_peak: 0,
            last_nanos: 0,
        }
    }

    fn meter_begin(&mut self, bytes: &[u8]) -> Option<std::time::Instant> {
        if self.meter {
            crate::label::arm(bytes);
            crate::watch::begin();
            mc_kit::alloc::mark();
            Some(std::time::Instant::now())
        } else {
            None
        }
    }

    fn meter_end(&mut self, t0: Option<std::time::Instant>) {
        if let Some(t0) = t0 {
            self.last_nanos = t0.elapsed().as_nanos();
            self.last_peak = mc_kit::alloc::peak();
            crate::watch::end();
            crate::label::disarm();
        }
    }

    /// raw timer id of this lane for a canonical id
    pub fn raw_timer(&self, canon: usize) -> Option<usize> {
        self.timers.iter().find(|(_, c)| **c == canon).map(|(r, _)| *r)
    }

    pub fn canon_of_raw_timer(&self, raw: usize) -> Option<usize> {
        self.timers.get(&raw).copied()
    }

    fn canon_timer(&mut self, raw: TimerId, payload: Option<usize>) -> TimerId {
        match payload {
            Some(c) => {
                if let Some(old) = self.timers.insert(raw.0, c) {
                    if old != c {
                        self.harness_notes
                            .push(format!("timer id {} issued for two timers", raw.0));
                    }
                }
                TimerId(c)
            }
            None => TimerId(self.timers.get(&raw.0).copied().unwrap_or(usize::MAX)),
        }
    }

    fn canon(&mut self, raw: &Op) -> (Op, Kind) {
        match raw {
            Op::Http(h) => (Op::Http(canon_http(h)), Kind::Once),
            Op::Kv(_) | Op::Platform => (raw.clone(), Kind::Once),
            Op::Render => (Op::Render, Kind::Never),
            Op::Tiny(t) => (
                raw.clone(),
                match t {
                    TinyOp::Ask(_) | TinyOp::AskN(_) | TinyOp::Weird(_) => Kind::Once,
                    TinyOp::Watch(_) => Kind::Many,
                    TinyOp::Note(_) => Kind::Never,
                },
            ),
            Op::Time(t) => match t {
                TimeRequest::Now => (raw.clone(), Kind::Once),
                TimeRequest::NotifyAfter { id, duration } => {
                    let ms = std::time::Duration::from(*duration).as_millis() as usize;
                    let id = self.canon_timer(*id, Some(ms));
                    (
                        Op::Time(TimeRequest::NotifyAfter {
                            id,
                            duration: *duration,
                        }),
                        Kind::Once,
                    )
                }
                TimeRequest::NotifyAt { id, instant } => {
                    let secs = SystemTime::from(*instant)
                        .duration_since(SystemTime::UNIX_EPOCH)
                        .map(|d| d.as_secs() as usize)
                        .unwrap_or(usize::MAX - 1);
                    let id = self.canon_timer(*id, Some(secs));
                    (
                        Op::Time(TimeRequest::NotifyAt {
                            id,
                            instant: *instant,
                        }),
                        Kind::Once,
                    )
                }
                TimeRequest::Clear { id } => {
                    let id = self.canon_timer(*id, None);
                    // the app's Command-API timers carry 1000.. ms, its legacy timers 5000.. s:
                    // a legacy clear is a notification, a Command-API clear expects `Cleared`
                    let kind = if id.0 >= 5000 { Kind::Never } else { Kind::Once };
                    (Op::Time(TimeRequest::Clear { id }), kind)
                }
            },
        }
    }

    fn ingest(&mut self, batch: Vec<(u32, Op, Option<TwinReq>)>) -> Vec<usize> {
        let mut hs = vec![];
        for (id, raw, typed) in batch {
            let (op, kind) = self.canon(&raw);
            self.reqs.push(LaneReq {
                id,
                op,
                raw,
                kind,
                live: true,
                typed,
            });
            hs.push(self.reqs.len() - 1);
        }
        hs
    }

    fn ingest_bytes(&mut self, codec: Codec, bytes: Vec<u8>) -> Outcome {
        let decoded: Result<Vec<BReq>, String> = dec_strict(codec, &bytes);
        match decoded {
            Err(e) => Outcome::Rejected(
                Reject::Other,
                format!("the bridge's output does not decode as Vec<Request<EffectFfi>>: {e}"),
            ),
            Ok(mut reqs) => {
                let batch: Vec<(u32, Op, Option<TwinReq>)> = reqs
                    .iter()
                    .map(|r| (r.id.0, Op::from_ffi_ref(&r.effect), None))
                    .collect();
                let hs = self.ingest(batch);
                if self.want_canon {
                    if enc(codec, &reqs) != bytes {
                        self.codec_notes.push(
                            "re-encoding the decoded batch does not reproduce the bridge's bytes"
                                .into(),
                        );
                    }
                    // canonical re-encoding: canonical timer ids, everything else as emitted
                    for (r, h) in reqs.iter_mut().zip(&hs) {
                        let lr = &self.reqs[*h];
                        r.effect = match (&lr.raw, &lr.op) {
                            (Op::Http(raw), _) => EffectFfi::Http(raw.clone()),
                            (_, op) => op.to_ffi(),
                        };
                    }
                    self.last_canon = enc(codec, &reqs);
                    self.last_raw = bytes;
                }
                Outcome::Ok(hs)
            }
        }
    }

    fn bridge_result(&mut self, codec: Codec, r: Result<Vec<u8>, BridgeError>) -> Outcome {
        match r {
            Ok(bytes) => self.ingest_bytes(codec, bytes),
            Err(e) => {
                let msg = e.to_string();
                let rej = match e {
                    BridgeError::DeserializeEvent(_) => Reject::DeserializeEvent,
                    BridgeError::DeserializeOutput(_) => Reject::DeserializeOutput,
                    BridgeError::ProcessResponse(crux_core::ResolveError::Never) => Reject::Never,
                    BridgeError::ProcessResponse(crux_core::ResolveError::FinishedMany) => {
                        Reject::FinishedMany
                    }
                    BridgeError::SerializeRequests(_) => Reject::SerializeRequests,
                    BridgeError::SerializeView(_) => Reject::SerializeView,
                    // an error variant this harness does not know (a changed tree may add one)
                    #[allow(unreachable_patterns)]
                    _ => Reject::Other,
                };
                Outcome::Rejected(rej, msg)
            }
        }
    }

    fn guard(&mut self, r: Result<Outcome, PanicInfo>) -> Outcome {
        match r {
            Ok(o) => o,
            Err(p) => {
                self.dead = true;
                Outcome::Panicked(p)
            }
        }
    }

    /// Feeds an event given as bytes (bridges only).
    pub fn event_bytes(&mut self, bytes: &[u8]) -> Outcome {
        let drv = self.drv.take().expect("lane in use");
        let t0 = self.meter_begin(bytes);
        let r = mc_kit::catch(|| match &drv {
            Driver::Twin(_) => panic!("harness: bytes offered to the typed core"),
            Driver::Bin(b) => b.process_event(bytes),
            Driver::Json(b) => {
                let mut out = vec![];
                let mut ser = serde_json::Serializer::new(&mut out);
                let mut de = serde_json::Deserializer::from_slice(bytes);
                b.process_event(&mut de, &mut ser).map(|()| out)
            }
        });
        self.meter_end(t0);
        self.drv = Some(drv);
        let codec = self.kind.codec().expect("bridge lane");
        let o = r.map(|r| self.bridge_result(codec, r));
        self.guard(o)
    }

    pub fn event_typed(&mut self, ev: Event) -> Outcome {
        match self.kind.codec() {
            Some(codec) => {
                let bytes = enc(codec, &ev);
                self.event_bytes(&bytes)
            }
            None => {
                let drv = self.drv.take().expect("lane in use");
                let r = mc_kit::catch(|| match &drv {
                    Driver::Twin(c) => c.process_event(ev),
                    _ => unreachable!(),
                });
                self.drv = Some(drv);
                let o = r.map(|effects| self.ingest_typed(effects));
                self.guard(o)
            }
        }
    }

    fn ingest_typed(&mut self, effects: Vec<Effect>) -> Outcome {
        let base = self.reqs.len() as u32;
        let batch = effects
            .into_iter()
            .enumerate()
            .map(|(i, e)| {
                let (op, t) = split_effect(e);
                (base + i as u32, op, Some(t))
            })
            .collect();
        Outcome::Ok(self.ingest(batch))
    }

    fn after_response(&mut self, h: usize, o: &Outcome) {
        let r = &mut self.reqs[h];
        match r.kind {
            // used up whether the value was accepted or not
            Kind::Once | Kind::Never => r.live = false,
            Kind::Many => {
                if matches!(o, Outcome::Rejected(Reject::FinishedMany, _)) {
                    r.live = false;
                }
            }
        }
    }

    /// Answers request `h` with bytes (bridges only).
    pub fn respond_bytes(&mut self, h: usize, bytes: &[u8]) -> Outcome {
        let id = self.reqs[h].id;
        let drv = self.drv.take().expect("lane in use");
        let t0 = self.meter_begin(bytes);
        let r = mc_kit::catch(|| match &drv {
            Driver::Twin(_) => panic!("harness: bytes offered to the typed core"),
            Driver::Bin(b) => b.handle_response(id, bytes),
            Driver::Json(b) => {
                let mut out = vec![];
                let mut ser = serde_json::Serializer::new(&mut out);
                let mut de = serde_json::Deserializer::from_slice(bytes);
                b.handle_response(id, &mut de, &mut ser).map(|()| out)
            }
        });
        self.meter_end(t0);
        self.drv = Some(drv);
        let codec = self.kind.codec().expect("bridge lane");
        let o = r.map(|r| self.bridge_result(codec, r));
        let o = self.guard(o);
        self.after_response(h, &o);
        o
    }

    pub fn respond_typed(&mut self, h: usize, resp: &Resp) -> Outcome {
        match self.kind.codec() {
            Some(codec) => {
                let bytes = enc_resp(codec, resp);
                self.respond_bytes(h, &bytes)
            }
            None => {
                let kind = self.reqs[h].kind;
                let was_live = self.reqs[h].live;
                let Some(mut typed) = self.reqs[h].typed.take() else {
                    return Outcome::Rejected(Reject::Other, "twin request already dropped".into());
                };
                let drv = self.drv.take().expect("lane in use");
                let Driver::Twin(core) = &drv else { unreachable!() };
                let r = mc_kit::catch(|| match (&mut typed, resp) {
                    (TwinReq::Http(r), Resp::Http(v)) => core.resolve(r, v.typed()),
                    (TwinReq::Kv(r), Resp::Kv(v)) => core.resolve(r, v.clone()),
                    (TwinReq::Platform(r), Resp::Platform(v)) => {
                        core.resolve(r, PlatformResponse(v.clone()))
                    }
                    (TwinReq::Render(r), Resp::Unit) => core.resolve(r, ()),
                    (TwinReq::Time(r), Resp::Time(v)) => core.resolve(r, *v),
                    (TwinReq::Tiny(r), Resp::Tiny(v)) => core.resolve(r, v.clone()),
                    _ => panic!("harness: response of the wrong type offered to the typed core"),
                });
                self.drv = Some(drv);
                // a stream's request object stays usable
                self.reqs[h].typed = Some(typed);
                let o = match r {
                    Ok(Ok(effects)) => self.ingest_typed(effects),
                    Ok(Err(e)) => Outcome::Rejected(
                        match e {
                            crux_core::ResolveError::Never => Reject::Never,
                            crux_core::ResolveError::FinishedMany => Reject::FinishedMany,
                        },
                        e.to_string(),
                    ),
                    // `Core::resolve` debug_asserts that the resolve succeeded (DESIGN K1, not
                    // this engine's property): the request has been resolved, `process` has not
                    // run - the same state the bridge is in when it returns the error.
                    Err(p) if p.message.contains("resolve_result.is_ok()") => Outcome::Rejected(
                        if kind == Kind::Many && was_live {
                            Reject::FinishedMany
                        } else {
                            Reject::Never
                        },
                        "Core::resolve debug assertion (K1) taken as the error return".into(),
                    ),
                    Err(p) => {
                        self.dead = true;
                        Outcome::Panicked(p)
                    }
                };
                self.after_response(h, &o);
                if !self.reqs[h].live {
                    // what the bridge does with a used-up entry
                    self.reqs[h].typed = None;
                }
                o
            }
        }
    }

    /// Typed twin only: the shell drops the request object (what a rejected answer amounts to).
    pub fn drop_request(&mut self, h: usize) {
        self.reqs[h].typed = None;
        self.reqs[h].live = false;
    }

    pub fn view(&mut self) -> Result<ViewModel, String> {
        let drv = self.drv.take().expect("lane in use");
        let r = mc_kit::catch(|| match &drv {
            Driver::Twin(c) => Ok(c.view()),
            Driver::Bin(b) => b
                .view()
                .map_err(|e| e.to_string())
                .and_then(|bytes| dec_strict::<ViewModel>(Codec::Bin, &bytes)),
            Driver::Json(b) => {
                let mut out = vec![];
                let mut ser = serde_json::Serializer::new(&mut out);
                b.view(&mut ser)
                    .map_err(|e| e.to_string())
                    .and_then(|()| dec_strict::<ViewModel>(Codec::Json, &out))
            }
        });
        self.drv = Some(drv);
        match r {
            Ok(v) => v,
            Err(p) => {
                self.dead = true;
                Err(format!("view panicked: {}", p.message))
            }
        }
    }

    pub fn view_bytes(&mut self) -> Vec<u8> {
        let drv = self.drv.take().expect("lane in use");
        let r = match &drv {
            Driver::Twin(c) => enc(Codec::Bin, &c.view()),
            Driver::Bin(b) => b.view().unwrap_or_default(),
            Driver::Json(b) => {
                let mut out = vec![];
                let mut ser = serde_json::Serializer::new(&mut out);
                let _ = b.view(&mut ser);
                out
            }
        };
        self.drv = Some(drv);
        r
    }

    pub fn gauges(&self) -> Gauges {
        match self.drv.as_ref().expect("lane in use") {
            Driver::Twin(c) => Gauges {
                registry: None,
                core: c.verif_stats(),
            },
            Driver::Bin(b) => Gauges {
                registry: Some(b.verif_registry_kinds()),
                core: b.verif_core().verif_stats(),
            },
            Driver::Json(b) => Gauges {
                registry: Some(b.verif_registry_kinds()),
                core: b.verif_core().verif_stats(),
            },
        }
    }

    pub fn live_by_kind(&self) -> (usize, usize, usize) {
        let mut k = (0, 0, 0);
        for r in &self.reqs {
            if r.live {
                match r.kind {
                    Kind::Never => k.0 += 1,
                    Kind::Once => k.1 += 1,
                    Kind::Many => k.2 += 1,
                }
            }
        }
        k
    }
}

// ---------------------------------------------------------------------------------------------
// the system: lanes in lock step, lane 0 is the reference

#[derive(Clone, Debug, PartialEq, Eq, PartialOrd, Ord, serde::Serialize, serde::Deserialize)]
pub enum Step {
    /// menu event
    Ev(usize),
    /// answer (or stream item) for the k-th outstanding request, in issue order
    Resp(usize),
    /// C09 scale family: the event burst(n) - n one-shot requests at once
    Burst(u16),
    /// C09: an undecodable answer (or stream item) for the k-th outstanding request, at most
    /// once per history: every bridge must reject it; the twin's request is dropped if it is a
    /// one-shot and left alone if it is a stream
    Garbage(usize),
    // ---- C12 only: the system must be [typed twin, one bridge] --------------------------------
    /// every undecodable member of the event fault family, one after the other, on one instance
    BadEvBatch,
    /// these bytes as an event
    BadEv(Vec<u8>),
    /// these bytes as the answer to the k-th outstanding request
    BadResp(usize, Vec<u8>),
    /// these bytes as an "answer" to the j-th notification seen so far
    BadNote(usize, Vec<u8>),
}

fn hex(b: &[u8]) -> String {
    b.iter().map(|x| format!("{x:02x}")).collect()
}

pub fn show_steps(steps: &[Step]) -> String {
    steps
        .iter()
        .map(|s| match s {
            Step::Ev(i) => crate::app::MENU_NAMES[*i].to_string(),
            Step::Resp(k) => format!("answer#{k}"),
            Step::Burst(n) => format!("Burst({n})"),
            Step::Garbage(k) => format!("undecodable-answer#{k}"),
            Step::BadEvBatch => "<all undecodable events>".to_string(),
            Step::BadEv(b) => format!("event 0x{} ({:?})", hex(b), String::from_utf8_lossy(b)),
            Step::BadResp(k, b) => {
                format!("answer#{k} 0x{} ({:?})", hex(b), String::from_utf8_lossy(b))
            }
            Step::BadNote(j, b) => format!("answer-to-notification#{j} 0x{}", hex(b)),
        })
        .collect::<Vec<_>>()
        .join(", ")
}

pub struct Entry {
    /// handle of this request in every lane
    pub h: Vec<usize>,
    pub op: Op,
    pub kind: Kind,
}

#[derive(Debug, Clone)]
pub struct Finding {
    pub key: String,
    pub what: String,
}

#[derive(Default, Clone, Debug)]
pub struct SysStats {
    /// registry entries left behind by batches that could not be serialized
    pub undelivered_entries: u64,
    /// ids of completed requests handed out again, counted on checked steps only
    pub ids_reused_last: u64,
    pub max_outstanding: usize,
}

pub struct System {
    pub lanes: Vec<Lane>,
    /// resolvable requests (one-shots and live streams) in issue order
    pub out: Vec<Entry>,
    /// notifications seen so far (not resolvable; C12 answers them anyway)
    pub notes: Vec<Entry>,
    pub step_no: u16,
    pub stats: SysStats,
    /// per bridge lane: ids of resolvable requests that have completed
    pub(crate) freed: Vec<std::collections::BTreeSet<u32>>,
    pub garbage_used: bool,
    reg_before: Vec<Option<(usize, usize, usize)>>,
    /// C12: the valid steps so far in the compact form the allocation-guard labels use
    pub trail: String,
    /// C11: hash chain over (outcome class, canonical batch bytes, view bytes) of every lane
    /// after every step
    pub record: bool,
    pub transcript: u64,
    /// C12 only
    pub fault: Option<std::sync::Arc<crate::faultsys::FaultCtx>>,
    pub fstats: crate::faultsys::FaultStats,
    /// outcome class and description of the last step (for traces)
    pub last: String,
}

/// Maps a captured panic to a finding key. The causes DESIGN §7 lists get their listed keys, so
/// that the same root cause has the same key whichever property reaches it.
pub fn panic_key(p: &PanicInfo) -> String {
    let m = &p.message;
    // A listed cause is recognised by its exact call site (file) AND its exact message; the same
    // words anywhere else, or another message at that site, get the generic key below. Whether
    // the INPUT really is of the listed kind is checked by the caller (C12: `listed_cause`).
    const TIME_MESSAGES: [&str; 6] = [
        "Incorrect response received for TimeRequest::Now",
        "Unexpected response to TimeRequest::NotifyAt",
        "InstantArrived with unexpected timer ID",
        "Unexpected response to TimeRequest::Clear",
        "Cleared with unexpected timer ID",
        "Cleared resolved with unexpected timer ID",
    ];
    if m.starts_with("attempt to convert KeyValueResponse other than")
        && p.file.ends_with("crux_kv/src/lib.rs")
    {
        "kv/response-kind-mismatch".into()
    } else if p.file.ends_with("crux_time/src/command.rs")
        && TIME_MESSAGES.iter().any(|t| m.starts_with(t))
    {
        "time/response-kind-mismatch".into()
    } else if m.starts_with("Could not convert into a valid `StatusCode`")
        && p.file.contains("http-types")
        && p.file.ends_with("src/response.rs")
    {
        "status-not-in-enum".into()
    } else if m.starts_with("String slice should be valid ASCII") && p.file.contains("http-types") {
        "header-non-ascii".into()
    } else {
        // numbers in the message (ids, lengths) are not part of the cause
        let k = p.key();
        let mut out = String::new();
        let mut in_digits = false;
        for c in k.chars() {
            if c.is_ascii_digit() {
                if !in_digits {
                    out.push('N');
                }
                in_digits = true;
            } else {
                in_digits = false;
                out.push(c);
            }
        }
        out
    }
}

impl System {
    pub fn new(kinds: &[LaneKind]) -> System {
        System {
            lanes: kinds.iter().map(|k| Lane::new(*k)).collect(),
            out: vec![],
            notes: vec![],
            step_no: 0,
            stats: SysStats::default(),
            freed: kinds.iter().map(|_| Default::default()).collect(),
            garbage_used: false,
            reg_before: vec![],
            trail: String::new(),
            record: false,
            transcript: 0xcbf29ce484222325,
            fault: None,
            fstats: Default::default(),
            last: String::new(),
        }
    }

    pub fn enabled(&self, max_out: usize, garbage: bool) -> Vec<Step> {
        let mut v = vec![];
        if garbage && !self.garbage_used {
            for k in 0..self.out.len() {
                v.push(Step::Garbage(k));
            }
        }
        if self.out.len() < max_out {
            for i in 0..crate::app::MENU {
                v.push(Step::Ev(i));
            }
        }
        for k in 0..self.out.len() {
            v.push(Step::Resp(k));
        }
        v
    }

    pub fn is_enabled(&self, s: &Step) -> bool {
        match s {
            Step::Ev(m) => *m < crate::app::MENU,
            Step::Resp(k) | Step::BadResp(k, _) => *k < self.out.len(),
            Step::Garbage(k) => *k < self.out.len() && !self.garbage_used,
            Step::BadNote(j, _) => *j < self.notes.len(),
            Step::BadEvBatch | Step::BadEv(_) | Step::Burst(_) => true,
        }
    }

    pub fn any_dead(&self) -> bool {
        self.lanes.iter().any(|l| l.dead)
    }

    /// Executes one valid step on every lane and compares every lane with lane 0.
    /// `check` = false on replayed prefix steps (already checked when their node was visited).
    /// Registry occupancy of every bridge lane before a call (read by `absorb` when a batch
    /// turns out to be unserializable).
    pub fn snapshot_registry(&mut self) {
        self.reg_before = self.lanes.iter().map(|l| l.gauges().registry).collect();
    }

    pub fn apply(&mut self, step: &Step, check: bool) -> Vec<Finding> {
        let stamp = self.step_no + 1;
        self.step_no += 1;
        self.snapshot_registry();
        let mut outcomes = vec![];
        let mut answered: Option<Entry> = None;
        match step {
            Step::Garbage(k) => return self.garbage(*k, check),
            Step::BadEvBatch => return self.bad_event_batch(),
            Step::BadEv(b) => return self.bad_event(b),
            Step::BadResp(k, b) => return self.bad_response(*k, b),
            Step::BadNote(j, b) => return self.bad_note(*j, b),
            Step::Burst(n) => {
                for lane in self.lanes.iter_mut() {
                    outcomes.push(lane.event_typed(crate::app::Event::Burst(*n)));
                }
            }
            Step::Ev(i) => {
                if self.fault.is_some() {
                    self.trail.push_str(&format!("E{i}."));
                }
                for lane in self.lanes.iter_mut() {
                    outcomes.push(lane.event_typed(menu_event(*i)));
                }
            }
            Step::Resp(k) => {
                let k = *k;
                if self.fault.is_some() {
                    self.trail.push_str(&format!("R{k}."));
                }
                let entry = &self.out[k];
                for (li, lane) in self.lanes.iter_mut().enumerate() {
                    let h = entry.h[li];
                    let resp = response_for(&lane.reqs[h].raw, stamp);
                    outcomes.push(lane.respond_typed(h, &resp));
                }
                let still_live = self.lanes[0].reqs[entry.h[0]].live;
                if !still_live {
                    let e = self.out.remove(k);
                    for (li, lane) in self.lanes.iter().enumerate() {
                        if lane.kind.codec().is_some() {
                            self.freed[li].insert(lane.reqs[e.h[li]].id);
                        }
                    }
                    answered = Some(e);
                }
            }
        }
        let _ = answered;
        let classes: Vec<String> = outcomes.iter().map(|o| o.class()).collect();
        let f = self.absorb(outcomes, check);
        if !check {
            self.read_views();
        }
        if self.record {
            self.transcript = self.step_record_hash(&classes);
        }
        f
    }

    /// The shell reads the view through every bridge after EVERY step (a bridge that caches
    /// the view must not serve a stale one later). On checked steps `check_state` does the
    /// reading and the comparison with the twin.
    fn read_views(&mut self) {
        for lane in self.lanes.iter_mut() {
            if lane.kind.codec().is_some() && !lane.dead {
                let _ = lane.view_bytes();
            }
        }
    }

    /// One undecodable answer on every bridge lane; the twin is told what that amounts to.
    fn garbage(&mut self, k: usize, check: bool) -> Vec<Finding> {
        self.garbage_used = true;
        let (hs, kind, op) = {
            let e = &self.out[k];
            (e.h.clone(), e.kind, e.op.short())
        };
        let mut findings = vec![];
        let mut classes = vec![];
        for (li, lane) in self.lanes.iter_mut().enumerate() {
            let h = hs[li];
            match lane.kind.codec() {
                None => {
                    if kind == Kind::Once {
                        lane.drop_request(h);
                        classes.push("request dropped".to_string());
                    } else {
                        classes.push("untouched".to_string());
                    }
                }
                Some(codec) => {
                    let bytes: &[u8] = match codec {
                        Codec::Bin => &[],
                        Codec::Json => b"}",
                    };
                    let o = lane.respond_bytes(h, bytes);
                    classes.push(o.class());
                    match &o {
                        Outcome::Rejected(Reject::DeserializeOutput, _) => {}
                        Outcome::Panicked(p) => findings.push(Finding {
                            key: panic_key(p),
                            what: format!(
                                "{} panicked on an undecodable answer to {op}: {} ({}:{})",
                                lane.kind.name(),
                                p.message.lines().next().unwrap_or(""),
                                p.file,
                                p.line
                            ),
                        }),
                        other => findings.push(Finding {
                            key: "undecodable-answer/not-rejected".into(),
                            what: format!(
                                "{} answered {:?} to an undecodable answer to {op}",
                                lane.kind.name(),
                                other
                            ),
                        }),
                    }
                }
            }
        }
        self.last = classes.join(" | ");
        if kind == Kind::Once {
            let e = self.out.remove(k);
            for (li, lane) in self.lanes.iter().enumerate() {
                if lane.kind.codec().is_some() {
                    self.freed[li].insert(lane.reqs[e.h[li]].id);
                }
            }
        }
        if findings.is_empty() && check {
            findings.extend(self.check_state());
        } else if findings.is_empty() {
            self.read_views();
        }
        findings
    }

    fn step_record_hash(&mut self, classes: &[String]) -> u64 {
        let mut buf = self.transcript.to_le_bytes().to_vec();
        for (lane, class) in self.lanes.iter_mut().zip(classes) {
            buf.extend_from_slice(class.as_bytes());
            if class == "ok" {
                buf.extend_from_slice(&lane.last_canon);
            }
            buf.push(0xfe);
            buf.extend_from_slice(&lane.view_bytes());
            buf.push(0xff);
        }
        mc_kit::fnv64(&buf)
    }

    /// Compares the outcomes of one step across lanes, matches the new requests and extends
    /// `out` / `notes`.
    pub fn absorb(&mut self, outcomes: Vec<Outcome>, check: bool) -> Vec<Finding> {
        let mut findings = vec![];
        self.last = outcomes
            .iter()
            .map(|o| o.class())
            .collect::<Vec<_>>()
            .join(" | ");
        for (li, o) in outcomes.iter().enumerate() {
            if let Outcome::Panicked(p) = o {
                findings.push(Finding {
                    key: panic_key(p),
                    what: format!(
                        "{} panicked: {} ({}:{})",
                        self.lanes[li].kind.name(),
                        p.message.lines().next().unwrap_or(""),
                        p.file,
                        p.line
                    ),
                });
            }
            if let Outcome::Rejected(Reject::Other, msg) = o {
                findings.push(Finding {
                    key: "bridge/unexpected-error".into(),
                    what: format!("{}: {msg}", self.lanes[li].kind.name()),
                });
            }
        }
        if !findings.is_empty() {
            return findings;
        }
        // A batch that cannot be serialized (an operation's Serialize fails): every bridge must
        // answer SerializeRequests, the typed core has emitted the requests. The shell never
        // sees them, so the twin's requests are dropped; what the bridges registered for them
        // stays registered (measured here, allowed for in the occupancy oracle, reported in the
        // evidence - whether those entries should stay is C13's question, not C09's).
        let ser_fail: Vec<bool> = outcomes
            .iter()
            .map(|o| matches!(o, Outcome::Rejected(Reject::SerializeRequests, _)))
            .collect();
        if ser_fail.iter().any(|x| *x) {
            for (li, o) in outcomes.iter().enumerate() {
                let is_bridge = self.lanes[li].kind.codec().is_some();
                if is_bridge && !ser_fail[li] {
                    findings.push(Finding {
                        key: "unserializable-batch/not-refused-by-every-bridge".into(),
                        what: format!("{} answered {:?}", self.lanes[li].kind.name(), o),
                    });
                }
                if !is_bridge && !matches!(o, Outcome::Ok(_)) {
                    findings.push(Finding {
                        key: "outcome-differs".into(),
                        what: format!("the typed core answered {o:?} to a step the bridges could not serialize"),
                    });
                }
            }
            if !findings.is_empty() {
                return findings;
            }
            let mut emitted: Option<(usize, usize, usize)> = None;
            if let (None, Outcome::Ok(hs)) = (self.lanes[0].kind.codec(), &outcomes[0]) {
                let mut k = (0, 0, 0);
                for h in hs {
                    match self.lanes[0].reqs[*h].kind {
                        Kind::Never => k.0 += 1,
                        Kind::Once => k.1 += 1,
                        Kind::Many => k.2 += 1,
                    }
                    self.lanes[0].drop_request(*h);
                }
                emitted = Some(k);
            }
            for li in 0..self.lanes.len() {
                let (Some(after), Some(Some(before))) =
                    (self.lanes[li].gauges().registry, self.reg_before.get(li).copied())
                else {
                    continue;
                };
                let delta = (
                    after.0.saturating_sub(before.0),
                    after.1.saturating_sub(before.1),
                    after.2.saturating_sub(before.2),
                );
                let u = &mut self.lanes[li].undelivered;
                *u = (u.0 + delta.0, u.1 + delta.1, u.2 + delta.2);
                self.stats.undelivered_entries += (delta.0 + delta.1 + delta.2) as u64;
                if let Some(e) = emitted {
                    if delta.0 > e.0 || delta.1 > e.1 || delta.2 > e.2 {
                        findings.push(Finding {
                            key: "unserializable-batch/more-entries-registered-than-requests-emitted".into(),
                            what: format!(
                                "{}: registry grew by {delta:?} (never, once, many) for a batch of {e:?}",
                                self.lanes[li].kind.name()
                            ),
                        });
                    }
                }
            }
            if findings.is_empty() && check {
                findings.extend(self.check_state());
            }
            return findings;
        }
        let ref_class = outcomes[0].class();
        for (li, o) in outcomes.iter().enumerate().skip(1) {
            if o.class() != ref_class {
                findings.push(Finding {
                    key: "outcome-differs".into(),
                    what: format!(
                        "{} answered {:?} where {} answered {:?}",
                        self.lanes[li].kind.name(),
                        o,
                        self.lanes[0].kind.name(),
                        outcomes[0]
                    ),
                });
            }
        }
        if !findings.is_empty() {
            return findings;
        }
        let new: Vec<Vec<usize>> = outcomes
            .into_iter()
            .map(|o| match o {
                Outcome::Ok(hs) => hs,
                _ => vec![],
            })
            .collect();
        // match every lane's new requests with the reference lane's (multiset, k-th equal
        // payload to k-th equal payload)
        let nref = new[0].len();
        let mut matched: Vec<Vec<usize>> = vec![vec![usize::MAX; self.lanes.len()]; nref];
        for (r, row) in matched.iter_mut().enumerate() {
            row[0] = new[0][r];
        }
        for li in 1..self.lanes.len() {
            let mut used = vec![false; new[li].len()];
            let mut ok = new[li].len() == nref;
            if ok {
                for r in 0..nref {
                    let want = &self.lanes[0].reqs[new[0][r]];
                    let found = (0..new[li].len()).find(|j| {
                        !used[*j] && {
                            let got = &self.lanes[li].reqs[new[li][*j]];
                            got.op == want.op && got.kind == want.kind
                        }
                    });
                    match found {
                        Some(j) => {
                            used[j] = true;
                            matched[r][li] = new[li][j];
                        }
                        None => {
                            ok = false;
                            break;
                        }
                    }
                }
            }
            if !ok {
                let show = |lane: &Lane, hs: &[usize]| {
                    hs.iter()
                        .map(|h| format!("{:?}", lane.reqs[*h].op))
                        .collect::<Vec<_>>()
                        .join("; ")
                };
                findings.push(Finding {
                    key: "effects-differ".into(),
                    what: format!(
                        "{} returned [{}] where {} returned [{}]",
                        self.lanes[li].kind.name(),
                        show(&self.lanes[li], &new[li]),
                        self.lanes[0].kind.name(),
                        show(&self.lanes[0], &new[0]),
                    ),
                });
            }
        }
        if !findings.is_empty() {
            return findings;
        }
        // ids: pairwise distinct among simultaneously resolvable requests
        for (li, lane) in self.lanes.iter().enumerate() {
            if lane.kind.codec().is_none() {
                continue;
            }
            for row in matched.iter() {
                let h = row[li];
                let r = &lane.reqs[h];
                if r.kind == Kind::Never {
                    continue;
                }
                let clash = lane
                    .reqs
                    .iter()
                    .enumerate()
                    .any(|(j, o)| j != h && o.live && o.kind != Kind::Never && o.id == r.id);
                if clash {
                    findings.push(Finding {
                        key: "id/shared-by-two-outstanding-requests".into(),
                        what: format!(
                            "{} handed out id {} for {:?} while another resolvable request holds it",
                            lane.kind.name(),
                            r.id,
                            r.op
                        ),
                    });
                }
                if self.freed[li].remove(&r.id) && check {
                    self.stats.ids_reused_last += 1;
                }
            }
        }
        for row in matched {
            let r = &self.lanes[0].reqs[row[0]];
            let e = Entry {
                op: r.op.clone(),
                kind: r.kind,
                h: row,
            };
            if e.kind == Kind::Never {
                self.notes.push(e);
            } else {
                self.out.push(e);
            }
        }
        self.stats.max_outstanding = self.stats.max_outstanding.max(self.out.len());
        if check {
            findings.extend(self.check_state());
        }
        findings
    }

    /// Views equal, registry occupancy consistent with what the shell believes, harness notes.
    pub fn check_state(&mut self) -> Vec<Finding> {
        let mut findings = vec![];
        let v0 = self.lanes[0].view();
        // the model state whose view cannot be serialized: the typed core has a view, every
        // bridge must answer SerializeView
        let unserializable = self.lanes[0].kind.codec().is_none()
            && matches!(&v0, Ok(v) if v.fussy.0 == crate::app::FUSSY_MARKER);
        for li in 1..self.lanes.len() {
            let v = self.lanes[li].view();
            if unserializable {
                if !matches!(&v, Err(e) if e.contains("could not serialize view model")) {
                    findings.push(Finding {
                        key: "view/unserializable-view-not-refused".into(),
                        what: format!("{} answered {:?}", self.lanes[li].kind.name(), v),
                    });
                }
                continue;
            }
            if v != v0 {
                findings.push(Finding {
                    key: "view-differs".into(),
                    what: format!(
                        "{} shows {:?} where {} shows {:?}",
                        self.lanes[li].kind.name(),
                        v,
                        self.lanes[0].kind.name(),
                        v0
                    ),
                });
            }
        }
        if let Err(e) = &v0 {
            findings.push(Finding {
                key: "view-unavailable".into(),
                what: e.clone(),
            });
        }
        for lane in self.lanes.iter_mut() {
            if let Some((never, once, many)) = lane.gauges().registry {
                let (ln, lo, lm) = lane.live_by_kind();
                // every notification keeps a `Never` entry (K3, C13's business); more `Never`
                // entries than notifications sent means a used-up request is still registered
                let (un, uo, um) = lane.undelivered;
                let (ln, lo, lm) = (ln + un, lo + uo, lm + um);
                if never > ln {
                    findings.push(Finding {
                        key: "registry/used-up-entry-not-removed".into(),
                        what: format!(
                            "{}: {never} `Never` entries in the registry but only {ln} unanswered notifications were ever sent: the entry of a used-up request is still there",
                            lane.kind.name()
                        ),
                    });
                }
                // one-shot entries leave the registry the moment they are used; ended streams
                // may linger (D4, C13's business), so only a lower bound for `many`
                if once != lo || many < lm {
                    findings.push(Finding {
                        key: "registry/occupancy-differs-from-outstanding".into(),
                        what: format!(
                            "{}: registry holds {once} one-shot and {many} stream entries, the shell holds {lo} and {lm}",
                            lane.kind.name()
                        ),
                    });
                }
            }
            for n in lane.harness_notes.drain(..) {
                findings.push(Finding {
                    key: "timer/id-issued-twice".into(),
                    what: format!("{}: {n}", lane.kind.name()),
                });
            }
        }
        findings
    }
}

/// Builds fresh objects and replays `steps`; checks only from step `check_from` on.
/// Returns the system and the findings of the first failing step (with its index).
pub fn replay(
    kinds: &[LaneKind],
    steps: &[Step],
    check_from: usize,
    want_canon: bool,
) -> (System, Option<(usize, Vec<Finding>)>) {
    replay_with(kinds, steps, check_from, |sys| {
        for l in sys.lanes.iter_mut() {
            l.want_canon = want_canon;
        }
    })
}

pub fn replay_with(
    kinds: &[LaneKind],
    steps: &[Step],
    check_from: usize,
    setup: impl FnOnce(&mut System),
) -> (System, Option<(usize, Vec<Finding>)>) {
    let mut sys = System::new(kinds);
    setup(&mut sys);
    for (i, s) in steps.iter().enumerate() {
        if !sys.is_enabled(s) {
            return (
                sys,
                Some((
                    i,
                    vec![Finding {
                        key: "harness/step-not-enabled".into(),
                        what: format!("step {i} ({s:?}) is not enabled on replay"),
                    }],
                )),
            );
        }
        let f = sys.apply(s, i >= check_from);
        if !f.is_empty() {
            return (sys, Some((i, f)));
        }
    }
    (sys, None)
}
