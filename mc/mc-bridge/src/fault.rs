//! The malformed-input family of C12, derived from valid encodings.
//!
//! bincode: a recording serializer writes the same bytes as bincode (fixint, little endian) and
//! remembers where every 8-byte length field, every 4-byte enum tag and every 1-byte Option tag
//! sits, so the structural faults hit exactly those fields.

use std::collections::BTreeSet;

use serde::ser::{self, Serialize};

#[derive(Default, Debug, Clone)]
pub struct Marks {
    pub lens: Vec<usize>,
    pub tags: Vec<usize>,
    pub opts: Vec<usize>,
}

#[derive(Default)]
pub struct Rec {
    pub out: Vec<u8>,
    pub marks: Marks,
}

#[derive(Debug)]
pub struct RecErr(String);
impl std::fmt::Display for RecErr {
    fn fmt(&self, f: &mut std::fmt::Formatter<'_>) -> std::fmt::Result {
        f.write_str(&self.0)
    }
}
impl std::error::Error for RecErr {}
impl ser::Error for RecErr {
    fn custom<T: std::fmt::Display>(msg: T) -> Self {
        RecErr(msg.to_string())
    }
}

impl Rec {
    fn len(&mut self, n: usize) {
        self.marks.lens.push(self.out.len());
        self.out.extend_from_slice(&(n as u64).to_le_bytes());
    }
    fn tag(&mut self, t: u32) {
        self.marks.tags.push(self.out.len());
        self.out.extend_from_slice(&t.to_le_bytes());
    }
}

macro_rules! num {
    ($name:ident, $t:ty) => {
        fn $name(self, v: $t) -> Result<(), RecErr> {
            self.out.extend_from_slice(&v.to_le_bytes());
            Ok(())
        }
    };
}

impl<'a> ser::Serializer for &'a mut Rec {
    type Ok = ();
    type Error = RecErr;
    type SerializeSeq = Self;
    type SerializeTuple = Self;
    type SerializeTupleStruct = Self;
    type SerializeTupleVariant = Self;
    type SerializeMap = Self;
    type SerializeStruct = Self;
    type SerializeStructVariant = Self;

    fn serialize_bool(self, v: bool) -> Result<(), RecErr> {
        self.out.push(u8::from(v));
        Ok(())
    }
    num!(serialize_i8, i8);
    num!(serialize_i16, i16);
    num!(serialize_i32, i32);
    num!(serialize_i64, i64);
    num!(serialize_i128, i128);
    num!(serialize_u8, u8);
    num!(serialize_u16, u16);
    num!(serialize_u32, u32);
    num!(serialize_u64, u64);
    num!(serialize_u128, u128);
    num!(serialize_f32, f32);
    num!(serialize_f64, f64);
    fn serialize_char(self, v: char) -> Result<(), RecErr> {
        let mut b = [0u8; 4];
        self.out.extend_from_slice(v.encode_utf8(&mut b).as_bytes());
        Ok(())
    }
    fn serialize_str(self, v: &str) -> Result<(), RecErr> {
        self.len(v.len());
        self.out.extend_from_slice(v.as_bytes());
        Ok(())
    }
    fn serialize_bytes(self, v: &[u8]) -> Result<(), RecErr> {
        self.len(v.len());
        self.out.extend_from_slice(v);
        Ok(())
    }
    fn serialize_none(self) -> Result<(), RecErr> {
        self.marks.opts.push(self.out.len());
        self.out.push(0);
        Ok(())
    }
    fn serialize_some<T: ?Sized + Serialize>(self, v: &T) -> Result<(), RecErr> {
        self.marks.opts.push(self.out.len());
        self.out.push(1);
        v.serialize(self)
    }
    fn serialize_unit(self) -> Result<(), RecErr> {
        Ok(())
    }
    fn serialize_unit_struct(self, _: &'static str) -> Result<(), RecErr> {
        Ok(())
    }
    fn serialize_unit_variant(self, _: &'static str, i: u32, _: &'static str) -> Result<(), RecErr> {
        self.tag(i);
        Ok(())
    }
    fn serialize_newtype_struct<T: ?Sized + Serialize>(
        self,
        _: &'static str,
        v: &T,
    ) -> Result<(), RecErr> {
        v.serialize(self)
    }
    fn serialize_newtype_variant<T: ?Sized + Serialize>(
        self,
        _: &'static str,
        i: u32,
        _: &'static str,
        v: &T,
    ) -> Result<(), RecErr> {
        self.tag(i);
        v.serialize(self)
    }
    fn serialize_seq(self, len: Option<usize>) -> Result<Self, RecErr> {
        let n = len.ok_or_else(|| RecErr("sequence of unknown length".into()))?;
        self.len(n);
        Ok(self)
    }
    fn serialize_tuple(self, _: usize) -> Result<Self, RecErr> {
        Ok(self)
    }
    fn serialize_tuple_struct(self, _: &'static str, _: usize) -> Result<Self, RecErr> {
        Ok(self)
    }
    fn serialize_tuple_variant(
        self,
        _: &'static str,
        i: u32,
        _: &'static str,
        _: usize,
    ) -> Result<Self, RecErr> {
        self.tag(i);
        Ok(self)
    }
    fn serialize_map(self, len: Option<usize>) -> Result<Self, RecErr> {
        let n = len.ok_or_else(|| RecErr("map of unknown length".into()))?;
        self.len(n);
        Ok(self)
    }
    fn serialize_struct(self, _: &'static str, _: usize) -> Result<Self, RecErr> {
        Ok(self)
    }
    fn serialize_struct_variant(
        self,
        _: &'static str,
        i: u32,
        _: &'static str,
        _: usize,
    ) -> Result<Self, RecErr> {
        self.tag(i);
        Ok(self)
    }
    fn is_human_readable(&self) -> bool {
        false
    }
}

macro_rules! compound {
    ($tr:ident, $f:ident) => {
        impl<'a> ser::$tr for &'a mut Rec {
            type Ok = ();
            type Error = RecErr;
            fn $f<T: ?Sized + Serialize>(&mut self, v: &T) -> Result<(), RecErr> {
                v.serialize(&mut **self)
            }
            fn end(self) -> Result<(), RecErr> {
                Ok(())
            }
        }
    };
}
compound!(SerializeSeq, serialize_element);
compound!(SerializeTuple, serialize_element);
compound!(SerializeTupleStruct, serialize_field);
compound!(SerializeTupleVariant, serialize_field);

impl<'a> ser::SerializeMap for &'a mut Rec {
    type Ok = ();
    type Error = RecErr;
    fn serialize_key<T: ?Sized + Serialize>(&mut self, k: &T) -> Result<(), RecErr> {
        k.serialize(&mut **self)
    }
    fn serialize_value<T: ?Sized + Serialize>(&mut self, v: &T) -> Result<(), RecErr> {
        v.serialize(&mut **self)
    }
    fn end(self) -> Result<(), RecErr> {
        Ok(())
    }
}
impl<'a> ser::SerializeStruct for &'a mut Rec {
    type Ok = ();
    type Error = RecErr;
    fn serialize_field<T: ?Sized + Serialize>(
        &mut self,
        _: &'static str,
        v: &T,
    ) -> Result<(), RecErr> {
        v.serialize(&mut **self)
    }
    fn end(self) -> Result<(), RecErr> {
        Ok(())
    }
}
impl<'a> ser::SerializeStructVariant for &'a mut Rec {
    type Ok = ();
    type Error = RecErr;
    fn serialize_field<T: ?Sized + Serialize>(
        &mut self,
        _: &'static str,
        v: &T,
    ) -> Result<(), RecErr> {
        v.serialize(&mut **self)
    }
    fn end(self) -> Result<(), RecErr> {
        Ok(())
    }
}

/// bincode bytes of `v` plus the positions of its length fields and tags; checked against
/// bincode itself.
pub fn record<T: Serialize>(v: &T) -> (Vec<u8>, Marks) {
    let mut r = Rec::default();
    v.serialize(&mut r).expect("recording serializer");
    let reference = crate::sys::enc(crate::sys::Codec::Bin, v);
    if r.out != reference {
        mc_kit::machinery_error("recording serializer disagrees with bincode");
    }
    (r.out, r.marks)
}

/// Largest tag value tried for every enum tag: covers "number of variants" and "one more" for
/// every enum with at most 19 variants (the app's Event has 19 deserializable variants).
pub const TAG_MAX: u32 = 20;

pub const BIN_ALPHABET: &str = "for a valid encoding e (n bytes): every proper prefix e[..k], k=0..n-1 (k=0 is the empty string); e with each single bit flipped (8n); every 8-byte length field (value v) replaced by {0, v-1, v+1, 2^28, 2^32, 2^40, 2^56, 2^63, 2^64-1} (2^28: fits in memory but is far above the 16 MiB bound; 2^32..2^56: neither overflows capacity nor fits in memory; 2^63 and up: capacity overflow); every 4-byte enum tag replaced by every value of 0..=20 other than its own and by 2^32-1 (covers #variants, #variants+1 and every other in-range tag = well-formed answer of the wrong kind); every 1-byte Option tag replaced by {2, 255}; e followed by 1, 8, 64 bytes of 0x00 and of 0xff; the last k bytes of e all ones for k = 1..16, and everything after the first four bytes all ones (several numeric fields at their extremes at once)";

pub fn bin_faults(e: &[u8], m: &Marks) -> Vec<Vec<u8>> {
    let mut set: BTreeSet<Vec<u8>> = BTreeSet::new();
    for k in 0..e.len() {
        set.insert(e[..k].to_vec());
    }
    for i in 0..e.len() * 8 {
        let mut f = e.to_vec();
        f[i / 8] ^= 1 << (i % 8);
        set.insert(f);
    }
    for &o in &m.lens {
        let v = u64::from_le_bytes(e[o..o + 8].try_into().unwrap());
        for r in [0, v.wrapping_sub(1), v.wrapping_add(1), 1 << 28, 1 << 32, 1 << 40, 1 << 56, 1 << 63, u64::MAX] {
            let mut f = e.to_vec();
            f[o..o + 8].copy_from_slice(&r.to_le_bytes());
            set.insert(f);
        }
    }
    for &o in &m.tags {
        for r in (0..=TAG_MAX).chain([u32::MAX]) {
            let mut f = e.to_vec();
            f[o..o + 4].copy_from_slice(&r.to_le_bytes());
            set.insert(f);
        }
    }
    for &o in &m.opts {
        for r in [2u8, 255] {
            let mut f = e.to_vec();
            f[o] = r;
            set.insert(f);
        }
    }
    for n in [1usize, 8, 64] {
        for b in [0u8, 0xff] {
            let mut f = e.to_vec();
            f.extend(std::iter::repeat(b).take(n));
            set.insert(f);
        }
    }
    // several numeric fields at their extremes at once: the last k bytes (and everything after the
    // first tag) all ones
    for k in 1..=e.len().min(16) {
        let mut f = e.to_vec();
        let n = f.len();
        f[n - k..].fill(0xff);
        set.insert(f);
    }
    if e.len() > 4 {
        let mut f = e.to_vec();
        f[4..].fill(0xff);
        set.insert(f);
    }
    set.extend(freeform().iter().cloned());
    set.remove(e);
    set.into_iter().collect()
}

pub const FREEFORM_ALPHABET: &str = "independent of any valid encoding, offered at every site: texts of 200-400 bytes made of k ASCII letters (k = 0..3) followed by 100 two-, three- or four-byte UTF-8 characters (so that a multi-byte character straddles every fixed byte position, whatever it is), the same inside JSON string quotes, ASCII runs of 63 / 64 / 65 / 127 / 128 / 129 / 255 / 256 / 257 / 1000 / 4096 / 65536 bytes, 100 bytes of 0xff, a lone UTF-8 lead byte, a truncated four-byte character, a UTF-8 byte order mark followed by text, NUL bytes, 300 opening brackets, 300 opening braces with keys";

/// Byte strings that are not derived from a valid encoding (see `FREEFORM_ALPHABET`).
pub fn freeform() -> &'static [Vec<u8>] {
    static F: std::sync::OnceLock<Vec<Vec<u8>>> = std::sync::OnceLock::new();
    F.get_or_init(|| {
        let mut v: Vec<Vec<u8>> = vec![];
        for ch in ["\u{e9}", "\u{20ac}", "\u{1f980}"] {
            for k in 0..4 {
                let t = format!("{}{}", "a".repeat(k), ch.repeat(100));
                v.push(t.clone().into_bytes());
                v.push(format!("\"{t}\"").into_bytes());
            }
        }
        for n in [63usize, 64, 65, 127, 128, 129, 255, 256, 257, 1000, 4096, 65536] {
            v.push(vec![b'a'; n]);
        }
        v.push(vec![0xff; 100]);
        v.push(vec![0xc3]);
        v.push(vec![b'a', b'b', 0xf0, 0x9f, 0xa6]);
        v.push(b"\xef\xbb\xbftext after a byte order mark, long enough to pass any short-input shortcut ............".to_vec());
        v.push(vec![0u8; 100]);
        v.push(vec![b'['; 300]);
        v.push("{\"k\":".repeat(300).into_bytes());
        v
    })
}

pub const JSON_ALPHABET: &str = "for a valid JSON text j (n bytes): every proper prefix (incl. empty); every single-character substitution by each of { } [ ] \" , : 0 x \\ ; every value node of the document replaced by each of null, true, 0, -1, 1.5, \"s\", [], {} (type swaps); j followed by \"x\", by eight spaces and 1, by 64 closing brackets; every number of the document 2^64-1 at once, and each number in turn 2^32-1 while all others are 2^64-1 (documents with at most 16 numbers)";

const SUBST: &[u8] = b"{}[]\",:0x\\";

fn swaps(v: &serde_json::Value, out: &mut Vec<serde_json::Value>) {
    use serde_json::{json, Value};
    // replacements of the root
    for r in [
        Value::Null,
        json!(true),
        json!(0),
        json!(-1),
        json!(1.5),
        json!("s"),
        json!([]),
        json!({}),
    ] {
        if &r != v {
            out.push(r);
        }
    }
    match v {
        Value::Array(items) => {
            for (i, it) in items.iter().enumerate() {
                let mut sub = vec![];
                swaps(it, &mut sub);
                for s in sub {
                    let mut c = items.clone();
                    c[i] = s;
                    out.push(Value::Array(c));
                }
            }
        }
        Value::Object(map) => {
            for (k, it) in map.iter() {
                let mut sub = vec![];
                swaps(it, &mut sub);
                for s in sub {
                    let mut c = map.clone();
                    c.insert(k.clone(), s);
                    out.push(Value::Object(c));
                }
            }
        }
        _ => {}
    }
}

pub fn json_faults(j: &[u8]) -> Vec<Vec<u8>> {
    let mut set: BTreeSet<Vec<u8>> = BTreeSet::new();
    for k in 0..j.len() {
        set.insert(j[..k].to_vec());
    }
    for i in 0..j.len() {
        for &c in SUBST {
            if j[i] != c {
                let mut f = j.to_vec();
                f[i] = c;
                set.insert(f);
            }
        }
    }
    if let Ok(v) = serde_json::from_slice::<serde_json::Value>(j) {
        let mut out = vec![];
        swaps(&v, &mut out);
        for s in out {
            set.insert(serde_json::to_vec(&s).unwrap());
        }
    }
    // several numbers at their extremes at once: every number 2^64-1, and each one in turn 2^32-1
    // while the others are 2^64-1
    if let Ok(v) = serde_json::from_slice::<serde_json::Value>(j) {
        fn count(v: &serde_json::Value) -> usize {
            match v {
                serde_json::Value::Number(_) => 1,
                serde_json::Value::Array(a) => a.iter().map(count).sum(),
                serde_json::Value::Object(o) => o.values().map(count).sum(),
                _ => 0,
            }
        }
        fn rewrite(v: &mut serde_json::Value, next: &mut usize, small: Option<usize>) {
            match v {
                serde_json::Value::Number(_) => {
                    *v = if small == Some(*next) { serde_json::json!(4294967295u64) } else { serde_json::json!(u64::MAX) };
                    *next += 1;
                }
                serde_json::Value::Array(a) => a.iter_mut().for_each(|x| rewrite(x, next, small)),
                serde_json::Value::Object(o) => o.values_mut().for_each(|x| rewrite(x, next, small)),
                _ => {}
            }
        }
        let n = count(&v);
        if n > 0 && n <= 16 {
            for small in std::iter::once(None).chain((0..n).map(Some)) {
                let mut w = v.clone();
                rewrite(&mut w, &mut 0, small);
                set.insert(serde_json::to_vec(&w).unwrap());
            }
        }
    }
    let mut f = j.to_vec();
    f.push(b'x');
    set.insert(f);
    let mut f = j.to_vec();
    f.extend_from_slice(b"        1");
    set.insert(f);
    let mut f = j.to_vec();
    f.extend(std::iter::repeat(b']').take(64));
    set.insert(f);
    set.extend(freeform().iter().cloned());
    set.remove(j);
    set.into_iter().collect()
}
