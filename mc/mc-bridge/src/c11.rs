//! C11 - the core is a deterministic function of its input history.
//!
//! (1) every history of the C09 exploration is replayed R times in this process on fresh cores
//!     and once in each of K fresh subprocesses; a deterministic hash (FNV-1a, fixed keys) of the
//!     serialized effect batches (timer ids renamed) and views of the bincode and the JSON bridge
//!     must agree;
//! (2) equality: all pairs from sets of independently built responses / requests / errors,
//!     `x == y` <=> contents equal, each pair evaluated 16 times on freshly built objects.

use std::collections::BTreeMap;
use std::sync::Mutex;

use crux_http::protocol::{HttpRequest, HttpResponse};
use crux_http::testing::ResponseBuilder;
use crux_http::HttpError;
use mc_kit::{Deadline, Reporter, Tier, Violation};
use serde_json::json;

use crate::explore::{self, Cfg, Visitor};
use crate::sys::{dec_strict, show_steps, BReq, Codec, Finding, LaneKind, Op, Step, System};

pub const LANES: [LaneKind; 2] = [LaneKind::Bin, LaneKind::Json];

fn pack(path: &[Step]) -> u64 {
    let mut v: u64 = path.len() as u64;
    for s in path {
        let b = match s {
            Step::Ev(i) => *i as u64,
            Step::Resp(k) => 16 + *k as u64,
            _ => 255,
        };
        v = (v << 8) | (b & 0xff);
    }
    v
}

fn unpack(v: u64) -> Vec<Step> {
    let bytes = v.to_be_bytes();
    let Some(pos) = bytes.iter().position(|b| *b != 0) else {
        return vec![];
    };
    let n = bytes[pos] as usize;
    bytes[pos + 1..]
        .iter()
        .take(n)
        .map(|b| {
            if *b < 16 {
                Step::Ev(*b as usize)
            } else {
                Step::Resp(*b as usize - 16)
            }
        })
        .collect()
}

fn plen(v: u64) -> usize {
    unpack(v).len()
}

/// Everything observable of one replay, step by step: per lane (class, canonical batch, view).
fn full_record(path: &[Step]) -> Vec<Vec<(String, Vec<u8>, Vec<u8>)>> {
    let mut sys = System::new(&LANES);
    for l in sys.lanes.iter_mut() {
        l.want_canon = true;
    }
    let mut out = vec![];
    for s in path {
        if !sys.is_enabled(s) {
            break;
        }
        let f = sys.apply(s, false);
        let classes: Vec<String> = sys.last.split(" | ").map(|x| x.to_string()).collect();
        let mut rec = vec![];
        for (li, lane) in sys.lanes.iter_mut().enumerate() {
            let class = classes.get(li).cloned().unwrap_or_default();
            let canon = if class == "ok" { lane.last_canon.clone() } else { vec![] };
            rec.push((class, canon, lane.view_bytes()));
        }
        out.push(rec);
        if !f.is_empty() {
            break;
        }
    }
    out
}

fn sorted_headers(op: &Op) -> Op {
    match op {
        Op::Http(h) => {
            let mut h = h.clone();
            h.headers.sort_by(|a, b| (&a.name, &a.value).cmp(&(&b.name, &b.value)));
            Op::Http(h)
        }
        o => o.clone(),
    }
}

/// Looks for a difference between fresh replays of `path` and names its cause.
fn diagnose(path: &[Step], tries: usize) -> Option<Finding> {
    let first = full_record(path);
    for _ in 0..tries {
        let other = full_record(path);
        for (i, (a, b)) in first.iter().zip(other.iter()).enumerate() {
            for (li, (ra, rb)) in a.iter().zip(b.iter()).enumerate() {
                let lane = LANES[li];
                let codec = lane.codec().unwrap();
                if ra.0 != rb.0 {
                    return Some(Finding {
                        key: "outcome/differs-between-replays".into(),
                        what: format!("step {i}, {}: {} vs {}", lane.name(), ra.0, rb.0),
                    });
                }
                if ra.1 != rb.1 {
                    let da: Result<Vec<BReq>, _> = dec_strict(codec, &ra.1);
                    let db: Result<Vec<BReq>, _> = dec_strict(codec, &rb.1);
                    if let (Ok(da), Ok(db)) = (da, db) {
                        let oa: Vec<Op> = da.iter().map(|r| Op::from_ffi_ref(&r.effect)).collect();
                        let ob: Vec<Op> = db.iter().map(|r| Op::from_ffi_ref(&r.effect)).collect();
                        let ids_a: Vec<u32> = da.iter().map(|r| r.id.0).collect();
                        let ids_b: Vec<u32> = db.iter().map(|r| r.id.0).collect();
                        let sa: Vec<Op> = oa.iter().map(sorted_headers).collect();
                        let sb: Vec<Op> = ob.iter().map(sorted_headers).collect();
                        if ids_a == ids_b && sa == sb {
                            let show = |ops: &[Op]| {
                                ops.iter()
                                    .filter_map(|o| match o {
                                        Op::Http(h) => Some(
                                            h.headers
                                                .iter()
                                                .map(|x| x.name.clone())
                                                .collect::<Vec<_>>()
                                                .join(","),
                                        ),
                                        _ => None,
                                    })
                                    .collect::<Vec<_>>()
                                    .join(" | ")
                            };
                            return Some(Finding {
                                key: "http-request/header-order".into(),
                                what: format!(
                                    "step {i}, {}: two replays of one history serialize the same HTTP request with its headers in different orders: [{}] vs [{}]",
                                    lane.name(), show(&oa), show(&ob)
                                ),
                            });
                        }
                        return Some(Finding {
                            key: "effects/differ-between-replays".into(),
                            what: format!("step {i}, {}: {:?} vs {:?}", lane.name(), oa, ob),
                        });
                    }
                    return Some(Finding {
                        key: "effects/bytes-differ-between-replays".into(),
                        what: format!("step {i}, {}: {:?} vs {:?}", lane.name(), ra.1, rb.1),
                    });
                }
                if ra.2 != rb.2 {
                    return Some(Finding {
                        key: "view/differs-between-replays".into(),
                        what: format!(
                            "step {i}, {}: {:?} vs {:?}",
                            lane.name(),
                            String::from_utf8_lossy(&ra.2),
                            String::from_utf8_lossy(&rb.2)
                        ),
                    });
                }
            }
        }
        if first.len() != other.len() {
            return Some(Finding {
                key: "history/enabledness-differs-between-replays".into(),
                what: format!("{} vs {} executable steps", first.len(), other.len()),
            });
        }
    }
    None
}

struct V<'a> {
    rep: Option<&'a Reporter>,
    cfg_r: usize,
    cfg: &'a Cfg,
    nodes: Mutex<Vec<(u64, u64)>>,
    replays: Mutex<u64>,
    with_http: Mutex<u64>,
}

impl Visitor for V<'_> {
    fn visit(&self, path: &[Step], sys: &mut System) -> Vec<Finding> {
        let h0 = sys.transcript;
        let mut out = vec![];
        for n in sys
            .lanes
            .iter_mut()
            .flat_map(|l| std::mem::take(&mut l.codec_notes))
        {
            out.push(Finding {
                key: "codec/reencoding-differs".into(),
                what: n,
            });
        }
        let mut differs = false;
        for _ in 1..self.cfg_r {
            let (s2, _) = explore::replay_cfg(self.cfg, path, usize::MAX);
            if s2.transcript != h0 {
                differs = true;
                break;
            }
        }
        if differs {
            out.push(diagnose(path, 16).unwrap_or(Finding {
                key: "transcript/hash-differs-between-replays".into(),
                what: "hashes of two in-process replays differ; 16 further replays showed no difference".into(),
            }));
        }
        self.nodes.lock().unwrap().push((pack(path), h0));
        *self.replays.lock().unwrap() += self.cfg_r as u64;
        if path.iter().any(|s| matches!(s, Step::Ev(8) | Step::Ev(9))) {
            *self.with_http.lock().unwrap() += 1;
        }
        // a nondeterministic history is reported, its extensions are explored all the same
        // (the subprocesses explore the whole tree too)
        if !out.is_empty() {
            self.report(path, path.len().saturating_sub(1), &out);
        }
        vec![]
    }

    fn report(&self, path: &[Step], failing_step: usize, findings: &[Finding]) {
        let Some(rep) = self.rep else { return };
        for f in findings {
            rep.violation(Violation {
                key: f.key.clone(),
                what: format!("history [{}]: {}", show_steps(path), f.what)
                    .chars()
                    .take(900)
                    .collect(),
                replay: json!({"engine": "bridgex-determinism", "steps": path,
                               "history": show_steps(path), "failing_step": failing_step}),
                size: path.len(),
            });
        }
    }
}

fn explore_tree(
    depth: usize,
    max_out: usize,
    r: usize,
    limit_s: f64,
    rep: Option<&Reporter>,
) -> (Vec<(u64, u64)>, explore::Stats, u64, u64) {
    let cfg = Cfg {
        kinds: LANES.to_vec(),
        depth,
        max_out,
        deadline: Deadline::new(limit_s),
        want_canon: true,
        fault: None,
        min_frontier: 64,
        record: true,
        garbage: false,
        menu: Some(crate::app::main_menu()),
    };
    let v = V {
        rep,
        cfg_r: r,
        cfg: &cfg,
        nodes: Mutex::new(vec![]),
        replays: Mutex::new(0),
        with_http: Mutex::new(0),
    };
    let st = explore::run(&cfg, &v, 16);
    let mut nodes = v.nodes.into_inner().unwrap();
    nodes.sort();
    let replays = v.replays.into_inner().unwrap();
    let with_http = v.with_http.into_inner().unwrap();
    (nodes, st, replays, with_http)
}

/// Hidden subcommand: one fresh process = one replay of every history; writes (path, hash) pairs.
pub fn child(args: &[String]) -> i32 {
    crate::app::REDIRECTS.store(true, std::sync::atomic::Ordering::Relaxed);
    let depth: usize = mc_kit::arg_value(args, "--depth").and_then(|s| s.parse().ok()).unwrap_or(3);
    let max_out: usize = mc_kit::arg_value(args, "--max-out")
        .and_then(|s| s.parse().ok())
        .unwrap_or(usize::MAX);
    let out = mc_kit::arg_value(args, "--out").expect("--out");
    let (nodes, st, _, _) = explore_tree(depth, max_out, 1, 1e9, None);
    let mut bytes = Vec::with_capacity(nodes.len() * 16 + 8);
    bytes.extend_from_slice(&(st.failed_nodes).to_le_bytes());
    for (p, h) in nodes {
        bytes.extend_from_slice(&p.to_le_bytes());
        bytes.extend_from_slice(&h.to_le_bytes());
    }
    std::fs::write(out, bytes).expect("write child output");
    0
}

// ---------------------------------------------------------------------------------------------
// equality

#[derive(Clone, Debug, PartialEq, Eq, PartialOrd, Ord)]
struct RespSpec {
    status: u16,
    /// in insertion order; (name, values)
    headers: Vec<(&'static str, Vec<&'static str>)>,
    body: Vec<u8>,
    /// build multi-values by append (true) or single insert (false)
    append: bool,
}

impl RespSpec {
    fn contents(&self) -> (u16, Vec<(String, Vec<String>)>, Vec<u8>) {
        let mut h: Vec<(String, Vec<String>)> = self
            .headers
            .iter()
            .map(|(n, v)| (n.to_string(), v.iter().map(|x| x.to_string()).collect()))
            .collect();
        h.sort();
        (self.status, h, self.body.clone())
    }
    fn build(&self) -> crux_http::Response<Vec<u8>> {
        let status = crux_http::http::StatusCode::try_from(self.status).unwrap();
        let mut r = ResponseBuilder::with_status(status).body(self.body.clone()).build();
        for (n, vs) in &self.headers {
            for (i, v) in vs.iter().enumerate() {
                if i == 0 && !self.append {
                    r.insert_header(*n, *v);
                } else {
                    r.append_header(*n, *v);
                }
            }
        }
        r
    }
}

fn resp_specs() -> Vec<RespSpec> {
    let a = vec![1u8, 2, 3];
    let b = vec![9u8];
    let s = |status, headers: Vec<(&'static str, Vec<&'static str>)>, body: &Vec<u8>, append| RespSpec {
        status,
        headers,
        body: body.clone(),
        append,
    };
    vec![
        s(200, vec![], &a, false),
        s(200, vec![], &b, false),
        s(200, vec![("a", vec!["1"])], &a, false),
        s(200, vec![("a", vec!["1"])], &b, false),
        s(200, vec![("a", vec!["1"]), ("b", vec!["2"])], &a, false),
        s(200, vec![("a", vec!["1"]), ("b", vec!["2"])], &b, false),
        s(200, vec![("a", vec!["1", "2"])], &a, false),
        s(200, vec![("a", vec!["1"])], &a, true),
        s(200, vec![("a", vec!["2"])], &a, false),
        s(200, vec![("a", vec!["1"]), ("b", vec!["2"]), ("c", vec!["3"])], &a, false),
        s(200, vec![("c", vec!["3"]), ("b", vec!["2"]), ("a", vec!["1"])], &a, false),
        s(200, vec![("a", vec!["1"]), ("b", vec!["3"])], &a, false),
        s(
            200,
            vec![("a", vec!["1"]), ("b", vec!["2"]), ("c", vec!["3"]), ("d", vec!["4"]), ("e", vec!["5"]), ("f", vec!["6"])],
            &a,
            false,
        ),
        s(
            200,
            vec![("f", vec!["6"]), ("e", vec!["5"]), ("d", vec!["4"]), ("c", vec!["3"]), ("b", vec!["2"]), ("a", vec!["1"])],
            &a,
            true,
        ),
        s(201, vec![], &a, false),
        s(200, vec![("a", vec!["2", "1"])], &a, false),
        s(200, vec![("b", vec!["1"])], &a, false),
    ]
}

#[derive(Clone, Debug, PartialEq, Eq, PartialOrd, Ord)]
struct ReqSpec {
    post: bool,
    url: &'static str,
    /// insertion order; (name, values in the order the app gives them)
    headers: Vec<(String, Vec<String>)>,
    body: Vec<u8>,
}

impl ReqSpec {
    fn contents(&self) -> (bool, &'static str, Vec<(String, Vec<String>)>, Vec<u8>) {
        let mut h = self.headers.clone();
        h.sort();
        (self.post, self.url, h, self.body.clone())
    }
    fn lines(&self) -> usize {
        self.headers.iter().map(|(_, v)| v.len()).sum()
    }
    /// The protocol request the Command API emits for this description.
    fn build(&self) -> Option<HttpRequest> {
        use crate::app::{Effect, Event};
        use crux_http::command::Http;
        use crux_http::http::headers::HeaderValue;
        use std::str::FromStr;
        let mut b = if self.post {
            Http::<Effect, Event>::post(self.url)
        } else {
            Http::<Effect, Event>::get(self.url)
        };
        for (n, vs) in &self.headers {
            if vs.len() == 1 {
                b = b.header(n.as_str(), vs[0].as_str());
            } else {
                let hv: Vec<HeaderValue> =
                    vs.iter().map(|v| HeaderValue::from_str(v).expect("ascii")).collect();
                b = b.header(n.as_str(), &hv[..]);
            }
        }
        if !self.body.is_empty() {
            b = b.body_bytes(&self.body).header("content-type", "application/x-test");
        }
        let mut cmd = b.build().then_send(Event::GotHttp);
        let eff = cmd.effects().next()?;
        match eff {
            Effect::Http(r) => Some(r.operation.clone()),
            _ => None,
        }
    }
    /// The emitted lines of every name the app gave, in emission order, must be the app's values
    /// in the app's order.
    fn value_order_kept(&self, emitted: &HttpRequest) -> bool {
        self.headers.iter().all(|(n, vs)| {
            let got: Vec<&str> = emitted
                .headers
                .iter()
                .filter(|h| &h.name == n)
                .map(|h| h.value.as_str())
                .collect();
            got == vs.iter().map(|v| v.as_str()).collect::<Vec<_>>()
        })
    }
}

/// 44 header lines: 12 names with three values each, given in an order that is not sorted,
/// and 8 single-valued names. `order` permutes the order in which the NAMES are inserted;
/// `swap` exchanges two values of one name (different contents).
fn big_headers(order: usize, swap: bool) -> Vec<(String, Vec<String>)> {
    let mut v: Vec<(String, Vec<String>)> = vec![];
    for i in 0..12 {
        let mut vals = vec![format!("m{i}"), "a".to_string(), format!("z{i}")];
        if swap && i == 7 {
            vals.swap(0, 2);
        }
        v.push((format!("m-{i:02}"), vals));
    }
    for i in 0..8 {
        v.push((format!("s-{i}"), vec![format!("{i}")]));
    }
    match order {
        0 => {}
        1 => v.reverse(),
        _ => {
            // interleave the two halves
            let half = v.split_off(v.len() / 2);
            v = v.into_iter().zip(half).flat_map(|(a, b)| [b, a]).collect();
        }
    }
    v
}

fn req_specs() -> Vec<ReqSpec> {
    let one = |pairs: &[(&str, &str)]| -> Vec<(String, Vec<String>)> {
        pairs.iter().map(|(n, v)| (n.to_string(), vec![v.to_string()])).collect()
    };
    let six = one(&[("x-a", "1"), ("x-b", "2"), ("x-c", "3"), ("x-d", "4"), ("x-e", "5"), ("x-f", "6")]);
    let mut six_rev = six.clone();
    six_rev.reverse();
    let s = |post, url, headers: Vec<(String, Vec<String>)>, body: Vec<u8>| ReqSpec {
        post,
        url,
        headers,
        body,
    };
    vec![
        s(false, "https://example.com/", vec![], vec![]),
        s(false, "https://example.com/x", vec![], vec![]),
        s(true, "https://example.com/", vec![], vec![]),
        s(false, "https://example.com/", one(&[("x-a", "1")]), vec![]),
        s(false, "https://example.com/", one(&[("x-a", "2")]), vec![]),
        s(false, "https://example.com/", one(&[("x-a", "1"), ("x-b", "2")]), vec![]),
        s(false, "https://example.com/", one(&[("x-b", "2"), ("x-a", "1")]), vec![]),
        s(false, "https://example.com/", one(&[("x-a", "1"), ("x-b", "3")]), vec![]),
        s(false, "https://example.com/", six.clone(), vec![]),
        s(false, "https://example.com/", six_rev, vec![]),
        s(true, "https://example.com/", six.clone(), vec![1, 2]),
        s(true, "https://example.com/", six, vec![1, 3]),
        s(true, "https://example.com/", one(&[("x-a", "1")]), vec![1, 2]),
        // more than 32 header lines, several names multi-valued
        s(false, "https://example.com/", big_headers(0, false), vec![]),
        s(false, "https://example.com/", big_headers(1, false), vec![]),
        s(false, "https://example.com/", big_headers(2, false), vec![]),
        s(false, "https://example.com/", big_headers(0, true), vec![]),
        s(true, "https://example.com/", big_headers(2, false), vec![4]),
        s(
            false,
            "https://example.com/",
            vec![("x-a".to_string(), vec!["2".to_string(), "1".to_string(), "3".to_string()])],
            vec![],
        ),
    ]
}

fn proto_resp_specs() -> Vec<HttpResponse> {
    let mut v = vec![];
    for status in [200u16, 404] {
        for headers in [vec![], vec![("a", "1")], vec![("a", "1"), ("b", "2")], vec![("b", "2"), ("a", "1")]] {
            for body in [vec![], vec![1u8]] {
                let mut b = HttpResponse::status(status);
                for (n, val) in &headers {
                    b.header(*n, *val);
                }
                v.push(b.body(body).build());
            }
        }
    }
    v
}

fn error_specs() -> Vec<HttpError> {
    vec![
        HttpError::Url("u".into()),
        HttpError::Url("v".into()),
        HttpError::Io("u".into()),
        HttpError::Timeout,
        HttpError::Json("u".into()),
        HttpError::Http {
            code: crux_http::http::StatusCode::NotFound,
            message: "m".into(),
            body: None,
        },
        HttpError::Http {
            code: crux_http::http::StatusCode::NotFound,
            message: "m".into(),
            body: Some(vec![1]),
        },
        HttpError::Http {
            code: crux_http::http::StatusCode::Gone,
            message: "m".into(),
            body: None,
        },
    ]
}

struct EqStats {
    pairs: u64,
    evaluations: u64,
    equal_pairs: u64,
}

fn equality(rep: &Reporter) -> EqStats {
    const N: usize = 16;
    let mut st = EqStats {
        pairs: 0,
        evaluations: 0,
        equal_pairs: 0,
    };
    let report = |key: &str, what: String, case: serde_json::Value| {
        rep.violation(Violation {
            key: key.into(),
            what: what.chars().take(900).collect(),
            replay: json!({"engine": "equality", "case": case}),
            size: 1,
        });
    };
    // crux_http::Response
    let specs = resp_specs();
    for (i, x) in specs.iter().enumerate() {
        for (j, y) in specs.iter().enumerate() {
            st.pairs += 1;
            let want = x.contents() == y.contents();
            st.equal_pairs += want as u64;
            for n in 0..N {
                st.evaluations += 1;
                let (a, b) = (x.build(), y.build());
                let got = a == b;
                if got != want {
                    let key = if want {
                        "response-eq/equal-contents-compare-unequal"
                    } else {
                        "response-eq/different-contents-compare-equal"
                    };
                    report(
                        key,
                        format!("crux_http::Response #{i} {x:?} == #{j} {y:?} gave {got} (evaluation {n} of {N}, both freshly built)"),
                        json!({"kind": "Response", "left": i, "right": j}),
                    );
                    break;
                }
            }
        }
    }
    // the same description serialized (an app may put a Response into its view model or
    // persist it): the bytes must not depend on which instance was serialized
    for (i, x) in resp_specs().iter().enumerate() {
        st.pairs += 1;
        let first_json = serde_json::to_string(&x.build()).unwrap_or_default();
        let first_bin = crate::sys::enc(Codec::Bin, &x.build());
        for n in 0..N {
            st.evaluations += 1;
            let r = x.build();
            let j = serde_json::to_string(&r).unwrap_or_default();
            let b = crate::sys::enc(Codec::Bin, &r);
            if j != first_json || b != first_bin {
                report(
                    "response-serialize/header-order",
                    format!("two freshly built crux_http::Response #{i} {x:?} serialize differently: JSON {first_json} vs {j}; bincode {first_bin:?} vs {b:?} (evaluation {n} of {N})"),
                    json!({"kind": "ResponseSerialize", "left": i}),
                );
                break;
            }
        }
    }
    // protocol HttpRequest as emitted by the Command API
    let specs = req_specs();
    for (i, x) in specs.iter().enumerate() {
        for (j, y) in specs.iter().enumerate() {
            st.pairs += 1;
            let want = x.contents() == y.contents();
            st.equal_pairs += want as u64;
            for n in 0..N {
                st.evaluations += 1;
                let (Some(a), Some(b)) = (x.build(), y.build()) else {
                    report(
                        "http-request/not-emitted",
                        format!("no protocol request for {x:?}"),
                        json!({"kind": "HttpRequest", "left": i}),
                    );
                    break;
                };
                let bad = if !x.value_order_kept(&a) {
                    Some((i, x, &a))
                } else if !y.value_order_kept(&b) {
                    Some((j, y, &b))
                } else {
                    None
                };
                if let Some((which, spec, emitted)) = bad {
                    report(
                        "http-request/multi-value-order",
                        format!("the values of a multi-valued header do not reach the wire in the order the app gave them (request #{which}, {} header lines): described {:?}, emitted {:?} (evaluation {n} of {N})", spec.lines(), spec.headers, emitted.headers),
                        json!({"kind": "HttpRequest", "left": which, "right": which}),
                    );
                    break;
                }
                let got = a == b;
                if got != want {
                    let mut sa = a.clone();
                    let mut sb = b.clone();
                    sa.headers.sort_by(|p, q| (&p.name, &p.value).cmp(&(&q.name, &q.value)));
                    sb.headers.sort_by(|p, q| (&p.name, &p.value).cmp(&(&q.name, &q.value)));
                    let key = if want && sa == sb {
                        "http-request/header-order"
                    } else if want {
                        "http-request-eq/equal-contents-compare-unequal"
                    } else {
                        "http-request-eq/different-contents-compare-equal"
                    };
                    report(
                        key,
                        format!("protocol HttpRequest built from #{i} {x:?} == one built from #{j} {y:?} gave {got}: {a:?} vs {b:?} (evaluation {n} of {N})"),
                        json!({"kind": "HttpRequest", "left": i, "right": j}),
                    );
                    break;
                }
            }
        }
    }
    // protocol HttpResponse, HttpError: contents = the value itself (field by field)
    let specs = proto_resp_specs();
    for (i, x) in specs.iter().enumerate() {
        for (j, y) in specs.iter().enumerate() {
            st.pairs += 1;
            let want = (x.status, &x.headers, &x.body) == (y.status, &y.headers, &y.body);
            st.equal_pairs += want as u64;
            for _ in 0..N {
                st.evaluations += 1;
                let (a, b) = (x.clone(), y.clone());
                if (a == b) != want {
                    report(
                        "http-response-eq/wrong",
                        format!("protocol HttpResponse #{i} == #{j} gave {}", a == b),
                        json!({"kind": "HttpResponse", "left": i, "right": j}),
                    );
                    break;
                }
            }
        }
    }
    let specs = error_specs();
    for (i, x) in specs.iter().enumerate() {
        for (j, y) in specs.iter().enumerate() {
            st.pairs += 1;
            let want = i == j;
            st.equal_pairs += want as u64;
            for _ in 0..N {
                st.evaluations += 1;
                if (x.clone() == y.clone()) != want {
                    report(
                        "http-error-eq/wrong",
                        format!("HttpError {x:?} == {y:?} gave {}", x == y),
                        json!({"kind": "HttpError", "left": i, "right": j}),
                    );
                    break;
                }
            }
        }
    }
    st
}

pub fn run(tier: Tier, args: &[String]) -> i32 {
    let rep = Reporter::new("C11", tier);
    // the programs with the redirect middleware are part of this check's app
    crate::app::REDIRECTS.store(true, std::sync::atomic::Ordering::Relaxed);
    let depth: usize = mc_kit::arg_value(args, "--depth")
        .and_then(|s| s.parse().ok())
        .unwrap_or(tier.pick(4, 5));
    let deep: usize = mc_kit::arg_value(args, "--deep")
        .and_then(|s| s.parse().ok())
        .unwrap_or(depth + 1);
    let max_out: usize = mc_kit::arg_value(args, "--max-out")
        .and_then(|s| s.parse().ok())
        .unwrap_or(usize::MAX);
    let r = 4usize;
    let k: usize = mc_kit::arg_value(args, "--procs")
        .and_then(|s| s.parse().ok())
        .unwrap_or(tier.pick(4, 16));
    // pack/unpack self-check
    {
        let p = vec![Step::Ev(8), Step::Resp(0), Step::Ev(3), Step::Resp(2)];
        if unpack(pack(&p)) != p || !unpack(pack(&[])).is_empty() {
            mc_kit::machinery_error("C11: path packing is not invertible");
        }
    }
    // canary: the comparison must see a difference when there is one (two different histories)
    {
        let a = full_record(&[Step::Ev(8)]);
        let b = full_record(&[Step::Ev(9)]);
        if a == b {
            mc_kit::machinery_error("C11 canary: records of different histories are equal");
        }
    }
    let eq = equality(&rep);
    let limit = tier.pick(50.0, 800.0);
    let (nodes, st, replays, with_http) = explore_tree(depth, max_out, r, limit * 0.4, Some(&rep));
    let complete = !st.cut_by_deadline;
    // K fresh processes
    let exe = std::env::current_exe().expect("current_exe");
    let mut proc_results = vec![];
    let mut compared = 0u64;
    let mut procs_done = 0;
    if complete {
        for i in 0..k {
            if rep.elapsed() > limit {
                break;
            }
            let out = std::env::temp_dir().join(format!("mc-bridge-c11-{}-{i}.bin", std::process::id()));
            let status = std::process::Command::new(&exe)
                .args(["C11-child", "--depth", &depth.to_string(), "--out"])
                .arg(&out)
                .args(if max_out == usize::MAX {
                    vec![]
                } else {
                    vec!["--max-out".to_string(), max_out.to_string()]
                })
                .status();
            let ok = matches!(status, Ok(s) if s.success());
            let bytes = std::fs::read(&out).unwrap_or_default();
            let _ = std::fs::remove_file(&out);
            if !ok || bytes.len() < 8 {
                mc_kit::machinery_error("C11: a replay subprocess failed");
            }
            let theirs: Vec<(u64, u64)> = bytes[8..]
                .chunks_exact(16)
                .map(|c| {
                    (
                        u64::from_le_bytes(c[..8].try_into().unwrap()),
                        u64::from_le_bytes(c[8..].try_into().unwrap()),
                    )
                })
                .collect();
            procs_done += 1;
            let mut diffs = 0u64;
            let mine: BTreeMap<u64, u64> = nodes.iter().copied().collect();
            if theirs.len() != nodes.len() {
                rep.violation(Violation {
                    key: "history-tree/shape-differs-between-processes".into(),
                    what: format!("this process explored {} histories, subprocess {i} {}", nodes.len(), theirs.len()),
                    replay: json!({"engine": "bridgex-determinism", "steps": []}),
                    size: 0,
                });
            }
            let mut first_diff: Option<u64> = None;
            for (p, h) in &theirs {
                compared += 1;
                if mine.get(p) != Some(h) {
                    diffs += 1;
                    if first_diff.map_or(true, |q| (plen(*p), *p) < (plen(q), q)) {
                        first_diff = Some(*p);
                    }
                }
            }
            if let Some(p) = first_diff {
                let path = unpack(p);
                let f = diagnose(&path, 32).unwrap_or(Finding {
                    key: "transcript/hash-differs-between-processes".into(),
                    what: "the hash computed in a fresh process differs from this process's; in-process replays agree".into(),
                });
                rep.violation(Violation {
                    key: f.key,
                    what: format!(
                        "subprocess {i}: {diffs} histories hash differently, e.g. [{}]: {}",
                        show_steps(&path),
                        f.what
                    ),
                    replay: json!({"engine": "bridgex-determinism", "steps": path, "history": show_steps(&path)}),
                    size: path.len(),
                });
            }
            proc_results.push(json!({"process": i, "histories": theirs.len(), "differing": diffs}));
        }
    }
    // second layer: the next depth (the depth of C09's exploration in this tier), every history
    // executed on fresh cores twice in this process - its prefix steps are re-executed by every
    // extension anyway - under what is left of the budget
    let left = (limit - rep.elapsed()).max(2.0);
    let (deep_nodes, deep_st, deep_replays, _) = explore_tree(deep, max_out, 2, left, Some(&rep));
    let deep_complete = !deep_st.cut_by_deadline;
    let deep_count = deep_nodes.len();
    drop(deep_nodes);
    if with_http < 2 {
        mc_kit::machinery_error("C11: fewer than 2 histories with an HTTP request were explored");
    }
    let mut st = st;
    let samples = st.samples.take().map(|s| s.into_value()).unwrap_or(json!([]));
    let coverage = json!({
        "states": if deep_complete { deep_count as u64 } else { st.nodes },
        "transitions": (if deep_complete { deep_count as u64 } else { st.nodes }).saturating_sub(1),
        "states_note": "history-tree nodes of the deepest layer that was completed",
        "traces_validated_against_impl": replays + compared + deep_replays,
        "evaluations": replays + compared + deep_replays + eq.evaluations,
        "distinct_nontrivial": with_http,
        "rule": "a history that contains an HTTP request with several headers (menu events Http: 6 headers, Legacy: 43 header lines, 12 names with three values each), the place where a seeded hash order can reach the wire",
        "exhaustive": complete && procs_done == k,
        "exhaustive_note": "refers to layer 1 (depth_bound, R in-process replays and K processes); layer 2 is reported separately",
        "depth_bound": depth,
        "layer_2": {"depth_bound": deep, "histories": deep_count, "in_process_executions_per_history": 2,
                    "in_process_replays_total": deep_replays, "subprocesses": 0, "completed": deep_complete,
                    "nodes_by_depth": deep_st.nodes_by_depth},
        "histories": st.nodes,
        "nodes_by_depth": st.nodes_by_depth,
        "in_process_replays_per_history (R)": r,
        "in_process_replays_total": replays,
        "subprocesses (K)": k,
        "subprocesses_completed": procs_done,
        "cross_process_history_comparisons": compared,
        "per_process": proc_results,
        "event_alphabet": crate::app::MENU_NAMES,
        "app_programs": "the C09 app with redirects switched on: the legacy POST (43 header lines, body) goes through Redirect::new(2) and the Platform answer triggers a legacy GET with 6 headers through Redirect::default(); the shell's HTTP answers rotate by step number through 201 and 200 with one header name reported on 3-4 lines in DIFFERENT spellings (Set-Cookie/set-cookie/SET-COOKIE, Vary x4) and two differently spelled content types with different charsets among 10 further names and a body that is not valid UTF-8, 404, 302 + absolute Location, 307 + relative Location, Io error, 301 + absolute Location, so probe hops and final answers are covered; the view records, per response, the values of every header name in the order the response holds them, the content type and the decoded body string",
        "history_alphabet": "as C09: menu event | answer(k) for every outstanding request k; includes Http (6 headers), Kv + legacy get, Timer / LTimer (timer ids renamed by the per-core ordinal), legacy Platform + HTTP POST",
        "compared": "FNV-1a 64 (fixed keys) chain over, per step and per bridge (bincode, JSON): outcome class, the returned batch re-encoded with canonical timer ids (re-encoding of the decoded batch is checked to reproduce the bridge's bytes exactly, so this is byte-for-byte up to timer ids), and the serialized view",
        "equality": {
            "pairs": eq.pairs, "evaluations": eq.evaluations, "pairs_expected_equal": eq.equal_pairs,
            "sets": {"crux_http::Response": resp_specs().len(), "protocol HttpRequest via the Command API": req_specs().len(),
                     "protocol HttpResponse": proto_resp_specs().len(), "HttpError": error_specs().len()},
            "evaluations_per_pair": 16,
            "oracle": "x == y  <=>  contents equal (status, header multimap with value order, body / method, url, headers, body), both objects freshly built for every evaluation",
        },
        "distinct_outcomes": st.outcomes.len(),
        "outcomes": st.outcomes,
        "canary": "records of two different histories differ; path packing invertible",
        "samples": samples,
    });
    rep.finish(
        "model_checking",
        coverage,
        &[
            "hash seeds are not ownable (std RandomState inside http-types): this one dimension is sampled by the process's own seeds - a fresh seed per map, per core, per process - while histories are exhaustive within the bound; with 6 headers a seed-dependent order survives R+K-1 comparisons with probability <= (1/720)^(R+K-1)",
            "wall-clock time and thread timing: nothing in the explored code reads a clock; single shell thread (C08 owns threads)",
            "memory addresses: fresh allocations per replay and per process (ASLR) are the only variation",
        ],
    )
}

pub fn replay_file(path: &str) -> i32 {
    crate::app::REDIRECTS.store(true, std::sync::atomic::Ordering::Relaxed);
    let text = std::fs::read_to_string(path).unwrap_or_else(|e| {
        mc_kit::machinery_error(&format!("cannot read replay {path}: {e}"));
    });
    let v: serde_json::Value = serde_json::from_str(&text).expect("replay is not JSON");
    if v["case"]["engine"] == "equality" {
        println!("equality case {}: re-running the whole equality part", v["case"]["case"]);
        let rep = Reporter::new("C11", Tier::Quick);
        equality(&rep);
        return i32::from(rep.violation_count() > 0);
    }
    let steps: Vec<Step> = serde_json::from_value(v["case"]["steps"].clone()).expect("no steps");
    println!("replaying [{}] 8 times on fresh bincode + JSON bridges", show_steps(&steps));
    let recs: Vec<_> = (0..8).map(|_| full_record(&steps)).collect();
    for (i, step) in recs[0].iter().enumerate() {
        for (li, r) in step.iter().enumerate() {
            let same = recs.iter().all(|o| o.get(i).map(|s| &s[li]) == Some(r));
            println!(
                "step {i} {}: {} batch {} bytes, view {} bytes: {}",
                LANES[li].name(),
                r.0,
                r.1.len(),
                r.2.len(),
                if same { "identical in all replays" } else { "DIFFERS between replays" }
            );
            if !same && LANES[li].codec() == Some(Codec::Json) {
                for o in &recs {
                    println!("      {}", String::from_utf8_lossy(&o[i][li].1));
                }
            }
        }
    }
    match diagnose(&steps, 32) {
        Some(f) => {
            println!("FINDING {}: {}", f.key, f.what);
            1
        }
        None => 0,
    }
}
