//! Watchdog for C12: every metered call into a bridge registers its start; a monitor thread
//! turns a call that has not returned after `LIMIT_MS` into a violation (a hang cannot be
//! caught from inside the hanging thread).

use std::sync::atomic::{AtomicU64, Ordering};
use std::sync::{Arc, Mutex, OnceLock};
use std::time::Instant;

pub const LIMIT_MS: u64 = 10_000;

pub struct Slot {
    start_ms: AtomicU64,
    ctx: Mutex<String>,
    case: Mutex<Option<(bool, Vec<crate::sys::Step>, usize)>>,
}

static SLOTS: Mutex<Vec<Arc<Slot>>> = Mutex::new(Vec::new());
static T0: OnceLock<Instant> = OnceLock::new();

thread_local! {
    static MINE: Arc<Slot> = {
        let s = Arc::new(Slot { start_ms: AtomicU64::new(0), ctx: Mutex::new(String::new()), case: Mutex::new(None) });
        SLOTS.lock().unwrap().push(s.clone());
        s
    };
}

fn now_ms() -> u64 {
    T0.get_or_init(Instant::now).elapsed().as_millis() as u64 + 1
}

/// Cheap form: the case itself, serialized only if the watchdog fires.
pub fn set_case(json_codec: bool, steps: &[crate::sys::Step], fault_at: usize) {
    MINE.with(|s| *s.case.lock().unwrap() = Some((json_codec, steps.to_vec(), fault_at)));
}

pub fn begin() {
    MINE.with(|s| s.start_ms.store(now_ms(), Ordering::Relaxed));
}

pub fn end() {
    MINE.with(|s| s.start_ms.store(0, Ordering::Relaxed));
}

/// Starts the monitor. On a hang it writes a replay, prints the VIOLATION line and exits 1.
pub fn start_monitor(property: &'static str) {
    let _ = now_ms();
    std::thread::spawn(move || loop {
        std::thread::sleep(std::time::Duration::from_millis(250));
        let now = now_ms();
        let slots = SLOTS.lock().unwrap().clone();
        for s in slots {
            let st = s.start_ms.load(Ordering::Relaxed);
            if st != 0 && now.saturating_sub(st) > LIMIT_MS {
                let mut ctx = s.ctx.lock().map(|c| c.clone()).unwrap_or_default();
                if let Ok(c) = s.case.lock() {
                    if let Some((json_codec, steps, fault_at)) = c.as_ref() {
                        ctx = serde_json::json!({
                            "engine": "bridgex-faults",
                            "codec": if *json_codec { "json" } else { "bincode" },
                            "steps": steps,
                            "fault_at": fault_at,
                            "probe_after": false,
                        })
                        .to_string();
                    }
                }
                let dir = mc_kit::verif_root().join("replays");
                let _ = std::fs::create_dir_all(&dir);
                let path = dir.join(format!("{property}-hang.json"));
                let case: serde_json::Value =
                    serde_json::from_str(&ctx).unwrap_or(serde_json::Value::String(ctx));
                let body = serde_json::json!({
                    "property": property,
                    "key": "hang/over-10s",
                    "what": "a call into the bridge did not return within 10 s",
                    "case": case,
                });
                let _ = std::fs::write(&path, serde_json::to_string_pretty(&body).unwrap());
                println!("  finding key=hang/over-10s : a call into the bridge did not return within 10 s");
                println!("VIOLATION property={property} replay={}", path.display());
                std::process::exit(1);
            }
        }
    });
}
