//! C12: labels for `mc_kit::alloc::set_case` - which input the calling thread is feeding to the
//! bridge right now - composed without allocating (the label is read by the allocator itself
//! when a single request is absurdly large, just before it aborts the process).
//!
//! Format (ASCII): `c12 <codec> <trail> <target> <hex of the input>` where trail is the valid
//! history so far (`E<i>.` menu event, `R<k>.` answer to the k-th outstanding request) and target
//! is `ev`, `resp<k>` or `note<j>`. `parse` turns it back into steps for `--replay`.

use std::cell::RefCell;

use crate::sys::{Codec, Step};

thread_local! {
    static PREFIX: RefCell<([u8; 200], usize)> = const { RefCell::new(([0; 200], 0)) };
}

pub fn set_prefix(codec: Codec, trail: &str, target: &str) {
    PREFIX.with(|p| {
        let mut p = p.borrow_mut();
        let mut n = 0;
        for part in ["c12 ", codec.name(), " ", if trail.is_empty() { "-" } else { trail }, " ", target, " "] {
            for b in part.bytes() {
                if n < p.0.len() && b.is_ascii() {
                    p.0[n] = b;
                    n += 1;
                }
            }
        }
        p.1 = n;
    });
}

pub fn arm(bytes: &[u8]) {
    const HEX: &[u8; 16] = b"0123456789abcdef";
    let mut buf = [0u8; 512];
    let mut n = PREFIX.with(|p| {
        let p = p.borrow();
        buf[..p.1].copy_from_slice(&p.0[..p.1]);
        p.1
    });
    if n == 0 {
        buf[..6].copy_from_slice(b"c12 ? ");
        n = 6;
    }
    for b in bytes {
        if n + 2 > buf.len() {
            break;
        }
        buf[n] = HEX[(b >> 4) as usize];
        buf[n + 1] = HEX[(b & 15) as usize];
        n += 2;
    }
    if bytes.is_empty() && n < buf.len() {
        buf[n] = b'-';
        n += 1;
    }
    mc_kit::alloc::set_case(std::str::from_utf8(&buf[..n]).unwrap_or("c12 ?"));
}

pub fn disarm() {
    mc_kit::alloc::clear_case();
}

/// (codec, steps ending in the faulty one)
pub fn parse(label: &str) -> Option<(Codec, Vec<Step>)> {
    let mut it = label.split_whitespace();
    if it.next()? != "c12" {
        return None;
    }
    let codec = match it.next()? {
        "json" => Codec::Json,
        "bincode" => Codec::Bin,
        _ => return None,
    };
    let trail = it.next()?;
    let target = it.next()?;
    let hex = it.next().unwrap_or("-");
    let mut steps = vec![];
    if trail != "-" {
        for t in trail.split('.').filter(|t| !t.is_empty()) {
            let n: usize = t[1..].parse().ok()?;
            steps.push(match &t[..1] {
                "E" => Step::Ev(n),
                "R" => Step::Resp(n),
                _ => return None,
            });
        }
    }
    let bytes: Vec<u8> = if hex == "-" {
        vec![]
    } else {
        (0..hex.len() / 2)
            .map(|i| u8::from_str_radix(&hex[2 * i..2 * i + 2], 16))
            .collect::<Result<_, _>>()
            .ok()?
    };
    steps.push(if target == "ev" {
        Step::BadEv(bytes)
    } else if let Some(k) = target.strip_prefix("resp") {
        Step::BadResp(k.parse().ok()?, bytes)
    } else if let Some(j) = target.strip_prefix("note") {
        Step::BadNote(j.parse().ok()?, bytes)
    } else {
        return None;
    });
    Some((codec, steps))
}
