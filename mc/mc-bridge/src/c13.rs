//! C13 - finished work is released. Engine `closure`: breadth-first reachability over an action
//! alphabet with resource gauges in the state key, until no new state appears.

use std::collections::{BTreeMap, VecDeque};

use bincode::Options;
use crux_core::bridge::Bridge;
use crux_core::{App, Command, Core, Request};
use crux_time::{TimeRequest, TimeResponse, TimerId};
use mc_kit::{Reporter, Tier, Violation};
use serde::{Deserialize, Serialize};
use serde_json::json;

use crate::capp::{
    self, live_tokens, CApp, CApp2, CEvent, CModel, COp, COut, CView, Effect2, Token,
};
use crate::sys::bin_strict;

#[derive(Clone, Copy, Debug, PartialEq, Eq, PartialOrd, Ord, Serialize, Deserialize)]
pub enum Act {
    ReqC,
    ReqL,
    /// spawn(child awaiting a shell request); join_handle.await; event
    ReqJ,
    /// one task awaiting select over two shell requests
    ReqS,
    /// self-aborting command: task B request -> event, task A request -> own AbortHandle
    ReqA,
    /// request.then_stream(finite local stream).then_send
    ReqT,
    /// request.then_stream(finite local stream) consumed by hand in Command::new
    ReqU,
    /// request.then_request(request).then_stream(finite local stream).then_send
    ReqV,
    /// spawn-then-self-abort in the first pass (no request): X spawns a child and aborts its own
    /// command while a sibling is ready behind it
    ReqSA0,
    /// spawn-then-self-abort after a request, with the sibling woken by the same answer
    ReqSA,
    Respond(usize),
    /// the shell drops the k-th outstanding one-shot request unresolved (hosts that hold typed
    /// requests); on the Core host followed by one no-op event = "one further core call"
    Drop(usize),
    /// Bridge host: an undecodable answer to the k-th outstanding one-shot (must be rejected;
    /// the request is used up = dropped), followed by one no-op event
    BadAnswer(usize),
    Sub,
    Unsub,
    Item,
    Render,
    CTimerSet,
    CTimerClear,
    /// the shell answers the NotifyAfter request (live, or orphaned by a clear)
    CTimerFire,
    /// the shell answers the Clear request with Cleared
    CTimerCleared,
    LTimerSet,
    LTimerClear,
    LTimerFire,
    /// legacy task: request future built (token in the operation), never awaited, event, end
    LReqUnpolled,
    /// legacy task: select(ready(()), request) - the request is never polled
    LSelUnpolled,
    /// legacy notify_after + clear(id) in one update (through a mapped Time capability whose
    /// mapping closure owns a token)
    LTimerSetCleared,
}

#[derive(Clone, Copy, Debug, PartialEq, Eq, PartialOrd, Ord, Serialize)]
pub enum SubP {
    None,
    Live,
    /// abort flag set, command not polled since
    Aborted,
    /// task gone, the shell has not been told yet (its next item gets FinishedMany)
    Ended,
}
#[derive(Clone, Copy, Debug, PartialEq, Eq, PartialOrd, Ord, Serialize)]
pub enum CtP {
    None,
    Live,
    /// Clear request outstanding; `orphan`: the original NotifyAfter request is still held by the shell
    Clearing { orphan: bool },
    /// timer finished as cleared, the shell still holds the original NotifyAfter request
    Orphan,
}
#[derive(Clone, Copy, Debug, PartialEq, Eq, PartialOrd, Ord, Serialize)]
pub enum LtP {
    None,
    Live,
    /// clear() called, future not polled since
    LiveCleared,
    /// finished, the app still holds the id
    DoneKept,
    /// cleared and then finished by a poll nobody asked for (stale waker), the shell still holds
    /// the original request
    Orphan,
}

#[derive(Clone, Copy, Debug, PartialEq, Eq, PartialOrd, Ord, Serialize)]
pub enum HostKind {
    Bridge,
    Direct,
    /// typed `Core<CApp>`: the harness holds the typed requests and can drop them
    Core,
}

#[derive(Clone, Copy, Debug, PartialEq, Eq, PartialOrd, Ord, Serialize)]
pub enum OneKind {
    /// Command-API request.then_send
    Cmd,
    /// legacy capability request
    Legacy,
    /// request awaited by a spawned child whose JoinHandle the parent task awaits
    Join,
    /// member of a select over two requests whose task is still waiting
    Sel,
    /// request whose task has finished or gone (the losing member of a select, the victim of a
    /// self-abort); the shell still holds it
    SelOrphan,
    /// self-aborting command, task B (request -> event)
    AbB,
    /// self-aborting command, task A (request -> abort the whole command)
    AbA,
    /// request of request.then_stream.then_send (ReqT). In the reference it behaves like `Cmd`,
    /// but it is a kind of its own: merged with `Cmd` the search would extend only the path
    /// that reached the merged state first and never drop THIS program's request
    Ts,
    /// request of request.then_stream consumed by hand (ReqU); see `Ts`
    Tu,
    /// second request of request.then_request.then_stream.then_send; see `Ts`
    Chain2,
    /// request of the spawn-then-self-abort command: its task X and the sibling Z wait for it
    SpawnAbort,
    /// first request of request.then_request.then_stream.then_send (its answer issues the
    /// second request, which then behaves like `Cmd`)
    Chain1,
}

/// The reference: logical state as a function of the history alone.
#[derive(Clone, Debug, PartialEq, Eq, PartialOrd, Ord, Serialize)]
pub struct Ref {
    /// outstanding one-shots in issue order
    pub oneshots: Vec<OneKind>,
    pub sub: SubP,
    pub ct: CtP,
    pub lt: LtP,
    pub view: CView,
}

#[derive(Clone, Debug, Default)]
pub struct Hist {
    /// notifications issued (each leaves a `Never` entry: K3)
    pub notes: usize,
    /// clear() calls for timers that had already finished (each leaves an id behind: K4)
    pub stale_cleared: usize,
    /// legacy-API requests the shell dropped
    pub dropped_legacy: usize,
}

pub struct Bounds {
    pub max_oneshots: usize,
    pub sat: u8,
    /// the typed Core host also drops legacy-API requests
    pub drop_legacy: bool,
    /// thorough tier: also ReqSA (spawn-then-self-abort after a request), ReqV
    /// (request.then_request.then_stream) and ReqS (select over two requests); the quick tier
    /// leaves these three program shapes out to stay fast
    pub full_alphabet: bool,
}

impl Ref {
    fn new() -> Ref {
        Ref {
            oneshots: vec![],
            sub: SubP::None,
            ct: CtP::None,
            lt: LtP::None,
            view: CView {
                got: 0,
                items: 0,
                renders: 0,
                timers_done: 0,
                subscribed: false,
                ctimer: false,
                ltimer: false,
            },
        }
    }

    pub fn enabled(&self, host: HostKind, b: &Bounds) -> Vec<Act> {
        let mut v = vec![];
        let bridge = host != HostKind::Direct; // hosts with legacy capabilities
        // ReqT / ReqU are explored on their own (no other one-shot outstanding next to them):
        // distinct kinds in every combination would nearly double the state space
        let exclusive = self.oneshots.iter().any(|k| matches!(k, OneKind::Ts | OneKind::Tu));
        if self.oneshots.is_empty() {
            v.push(Act::ReqT);
            v.push(Act::ReqU);
        }
        if self.oneshots.len() < b.max_oneshots && !exclusive {
            v.push(Act::ReqC);
            v.push(Act::ReqJ);
            if b.full_alphabet {
                v.push(Act::ReqV);
                v.push(Act::ReqSA);
            }
            if bridge {
                v.push(Act::ReqL);
            }
        }
        if self.oneshots.len() + 2 <= b.max_oneshots && !exclusive {
            if b.full_alphabet
                && !self.oneshots.iter().any(|k| matches!(k, OneKind::Sel | OneKind::SelOrphan))
            {
                v.push(Act::ReqS);
            }
            if !self.oneshots.iter().any(|k| matches!(k, OneKind::AbA | OneKind::AbB)) {
                v.push(Act::ReqA);
            }
        }
        v.push(Act::ReqSA0);
        for k in 0..self.oneshots.len() {
            v.push(Act::Respond(k));
            if self.oneshots[k] != OneKind::Legacy || b.drop_legacy {
                v.push(if host == HostKind::Bridge {
                    Act::BadAnswer(k)
                } else {
                    Act::Drop(k)
                });
            }
        }
        match self.sub {
            SubP::None => v.push(Act::Sub),
            SubP::Live => {
                v.push(Act::Unsub);
                v.push(Act::Item);
            }
            SubP::Aborted | SubP::Ended => v.push(Act::Item),
        }
        v.push(Act::Render);
        match self.ct {
            CtP::None => v.push(Act::CTimerSet),
            CtP::Live => {
                v.push(Act::CTimerClear);
                v.push(Act::CTimerFire);
            }
            CtP::Clearing { orphan } => {
                v.push(Act::CTimerCleared);
                if orphan {
                    v.push(Act::CTimerFire);
                }
            }
            CtP::Orphan => v.push(Act::CTimerFire),
        }
        if bridge {
            v.push(Act::LReqUnpolled);
            v.push(Act::LSelUnpolled);
            if matches!(self.lt, LtP::None | LtP::DoneKept) {
                v.push(Act::LTimerSetCleared);
            }
            match self.lt {
                LtP::None => v.push(Act::LTimerSet),
                LtP::Live => {
                    v.push(Act::LTimerClear);
                    v.push(Act::LTimerFire);
                }
                LtP::LiveCleared | LtP::Orphan => v.push(Act::LTimerFire),
                LtP::DoneKept => {
                    v.push(Act::LTimerSet);
                    v.push(Act::LTimerClear);
                }
            }
        }
        v
    }

    fn step(&mut self, a: Act, h: &mut Hist, b: &Bounds) {
        let sat = |c: &mut u8| {
            if *c < b.sat {
                *c += 1
            }
        };
        match a {
            // in the reference these builder chains are one task with one request, like ReqC
            Act::ReqC => self.oneshots.push(OneKind::Cmd),
            Act::ReqT => self.oneshots.push(OneKind::Ts),
            Act::ReqU => self.oneshots.push(OneKind::Tu),
            Act::ReqV => self.oneshots.push(OneKind::Chain1),
            // the command is aborted by its own task in its first pass: nothing is left, nothing
            // reaches the shell, no event
            Act::ReqSA0 => {}
            Act::ReqSA => self.oneshots.push(OneKind::SpawnAbort),
            Act::ReqL => self.oneshots.push(OneKind::Legacy),
            Act::ReqJ => self.oneshots.push(OneKind::Join),
            Act::ReqS => {
                self.oneshots.push(OneKind::Sel);
                self.oneshots.push(OneKind::Sel);
            }
            Act::ReqA => {
                self.oneshots.push(OneKind::AbB);
                self.oneshots.push(OneKind::AbA);
            }
            Act::Respond(k) => match self.oneshots.remove(k) {
                OneKind::Cmd
                | OneKind::Legacy
                | OneKind::AbB
                | OneKind::Ts
                | OneKind::Tu
                | OneKind::Chain2 => sat(&mut self.view.got),
                OneKind::Chain1 => self.oneshots.push(OneKind::Chain2),
                // X wakes Z, spawns a child, aborts the command: no output, nothing left
                OneKind::SpawnAbort => {}
                OneKind::AbA => {
                    // no output; the whole command is aborted, task B with it
                    for o in self.oneshots.iter_mut() {
                        if *o == OneKind::AbB {
                            *o = OneKind::SelOrphan;
                        }
                    }
                }
                OneKind::Join => {
                    // the child's event, then the parent's
                    sat(&mut self.view.got);
                    sat(&mut self.view.got);
                }
                OneKind::Sel => {
                    sat(&mut self.view.got);
                    for o in self.oneshots.iter_mut() {
                        if *o == OneKind::Sel {
                            *o = OneKind::SelOrphan;
                        }
                    }
                }
                OneKind::SelOrphan => {}
            },
            Act::Drop(k) | Act::BadAnswer(k) => match self.oneshots.remove(k) {
                // the task is cancelled, nothing is delivered
                OneKind::Cmd
                | OneKind::SelOrphan
                | OneKind::Sel
                | OneKind::AbA
                | OneKind::AbB
                // X is cancelled, which drops the channel Z waits on: Z ends, the command is done
                | OneKind::SpawnAbort
                | OneKind::Ts
                | OneKind::Tu
                | OneKind::Chain2
                | OneKind::Chain1 => {}
                OneKind::Legacy => h.dropped_legacy += 1,
                // the child is cancelled, which concludes it: the parent carries on
                OneKind::Join => sat(&mut self.view.got),
            },
            Act::Sub => {
                self.sub = SubP::Live;
                self.view.subscribed = true;
            }
            Act::Unsub => {
                self.sub = SubP::Aborted;
                self.view.subscribed = false;
            }
            Act::Item => match self.sub {
                SubP::Live => sat(&mut self.view.items),
                SubP::Aborted => self.sub = SubP::Ended,
                SubP::Ended => self.sub = SubP::None,
                SubP::None => unreachable!(),
            },
            Act::Render => {
                sat(&mut self.view.renders);
                h.notes += 1;
            }
            Act::CTimerSet => {
                self.ct = CtP::Live;
                self.view.ctimer = true;
            }
            Act::CTimerClear => {
                self.ct = CtP::Clearing { orphan: true };
                self.view.ctimer = false;
            }
            Act::CTimerFire => match self.ct {
                CtP::Live => {
                    self.ct = CtP::None;
                    self.view.ctimer = false;
                    sat(&mut self.view.timers_done);
                }
                CtP::Clearing { .. } => self.ct = CtP::Clearing { orphan: false },
                CtP::Orphan => self.ct = CtP::None,
                CtP::None => unreachable!(),
            },
            Act::CTimerCleared => {
                let CtP::Clearing { orphan } = self.ct else { unreachable!() };
                self.ct = if orphan { CtP::Orphan } else { CtP::None };
                sat(&mut self.view.timers_done);
            }
            Act::LTimerSet => {
                self.lt = LtP::Live;
                self.view.ltimer = true;
            }
            Act::LTimerClear => {
                h.notes += 1;
                self.view.ltimer = false;
                match self.lt {
                    LtP::Live => self.lt = LtP::LiveCleared,
                    LtP::DoneKept => {
                        self.lt = LtP::None;
                        h.stale_cleared += 1;
                    }
                    _ => unreachable!(),
                }
            }
            // nothing reaches the shell, the task's event is applied, nothing stays behind
            Act::LReqUnpolled | Act::LSelUnpolled => sat(&mut self.view.got),
            Act::LTimerSetCleared => {
                // only the Clear notification reaches the shell; the timer reports Cleared
                h.notes += 1;
                sat(&mut self.view.timers_done);
                self.lt = LtP::None;
                self.view.ltimer = false;
            }
            Act::LTimerFire => {
                if self.lt != LtP::Orphan {
                    sat(&mut self.view.timers_done);
                }
                self.lt = match self.lt {
                    LtP::Live => LtP::DoneKept,
                    LtP::LiveCleared | LtP::Orphan => LtP::None,
                    _ => unreachable!(),
                };
            }
        }
    }

    /// "May" transitions: work whose release is lazy (an aborted subscription, a cleared legacy
    /// timer) is finished by the next poll of its task, and a poll can come from a stale waker
    /// at any step (e.g. the last sender of an answered request's channel wakes the executor
    /// slot its long-gone receiver task once had). The alternatives only ever LOWER the bounds.
    fn alternatives(&self, b: &Bounds) -> Vec<Ref> {
        let mut out = vec![];
        for lt in [false, true] {
            for sub in [false, true] {
                if !lt && !sub {
                    continue;
                }
                let mut r = self.clone();
                if lt {
                    if r.lt != LtP::LiveCleared {
                        continue;
                    }
                    r.lt = LtP::Orphan;
                    if r.view.timers_done < b.sat {
                        r.view.timers_done += 1;
                    }
                }
                if sub {
                    if r.sub != SubP::Aborted {
                        continue;
                    }
                    r.sub = SubP::Ended;
                }
                out.push(r);
            }
        }
        out
    }

    /// Bounds in terms of outstanding work.
    fn expected(&self) -> Expected {
        let n = self.oneshots.len();
        let count = |k: OneKind| self.oneshots.iter().filter(|o| **o == k).count();
        let sel = (count(OneKind::Sel) > 0) as usize;
        let ab = count(OneKind::AbA) + count(OneKind::AbB);
        let ab_cmd = (ab > 0) as usize;
        let cmd_like = count(OneKind::Cmd)
            + count(OneKind::Chain1)
            + count(OneKind::Chain2)
            + count(OneKind::Ts)
            + count(OneKind::Tu);
        // spawn-then-self-abort: one command, tasks X and Z, X holds one token
        let sa = count(OneKind::SpawnAbort);
        let one_exec = cmd_like + count(OneKind::Legacy) + count(OneKind::Join) + sel + ab_cmd + sa;
        let one_cmd = cmd_like + 2 * count(OneKind::Join) + sel + ab + 2 * sa;
        let one_tok =
            cmd_like + count(OneKind::Legacy) + 2 * count(OneKind::Join) + sel + ab + sa;
        let lt_live = matches!(self.lt, LtP::Live | LtP::LiveCleared) as usize;
        let lt_req = lt_live + (self.lt == LtP::Orphan) as usize;
        let ct_reqs = match self.ct {
            CtP::None => 0,
            CtP::Live | CtP::Orphan => 1,
            CtP::Clearing { orphan } => 1 + orphan as usize,
        };
        let ct_task = matches!(self.ct, CtP::Live | CtP::Clearing { .. }) as usize;
        let sub_task = matches!(self.sub, SubP::Live | SubP::Aborted) as usize;
        Expected {
            once: n + lt_req + ct_reqs,
            many: (self.sub != SubP::None) as usize,
            tasks: one_exec + sub_task + lt_live + ct_task,
            cmd_tasks: one_cmd + sub_task + ct_task,
            tokens: one_tok + sub_task + lt_live + ct_task,
            cleared: (self.lt == LtP::LiveCleared) as usize,
            held_payload_tokens: n + (self.sub != SubP::None) as usize,
        }
    }
}

#[derive(Debug, Clone, Copy)]
struct Expected {
    once: usize,
    many: usize,
    /// executor task slots (Bridge / Core host) = live commands (direct host)
    tasks: usize,
    /// tasks inside live commands (direct host)
    cmd_tasks: usize,
    /// tokens held by live tasks
    tokens: usize,
    cleared: usize,
    /// direct host only: COp payloads inside the typed requests the shell holds
    held_payload_tokens: usize,
}

#[derive(Clone, Debug, PartialEq, Eq, PartialOrd, Ord, Serialize, Deserialize, Default)]
pub struct Gauges {
    /// (never, once, many); direct host: zeros
    pub registry: (usize, usize, usize),
    /// executor task slots (bridge host) / live commands (direct host)
    pub tasks: usize,
    /// sum of Command::verif_live_tasks (direct host only)
    pub cmd_tasks: usize,
    /// (queued spawns, queued wake-ups, undelivered effects, unapplied events)
    pub queues: (usize, usize, usize, usize),
    pub cleared: usize,
    pub tokens: i64,
}

#[derive(Debug, Clone)]
pub struct Found {
    pub key: String,
    pub what: String,
    /// a dimension a listed finding makes unbounded: projected out of the key, search continues
    pub projectable: bool,
}

// ---------------------------------------------------------------------------------------------
// host 1: the bincode bridge

type BReq = crux_core::bridge::Request<capp::EffectFfi>;

struct BridgeHost {
    bridge: Bridge<CApp>,
    oneshots: Vec<u32>,
    stream: Option<u32>,
    ct_req: Option<(u32, TimerId)>,
    ct_clear: Option<(u32, TimerId)>,
    lt_req: Option<(u32, TimerId)>,
    cleared_base: usize,
    unexpected: Vec<String>,
}

impl BridgeHost {
    fn new() -> Self {
        BridgeHost {
            cleared_base: crux_time::verif_cleared_len(),
            bridge: Bridge::new(Core::new()),
            oneshots: vec![],
            stream: None,
            ct_req: None,
            ct_clear: None,
            lt_req: None,
            unexpected: vec![],
        }
    }

    fn absorb(&mut self, bytes: Vec<u8>) {
        let reqs: Vec<BReq> = match bin_strict().deserialize(&bytes) {
            Ok(r) => r,
            Err(e) => {
                self.unexpected.push(format!("undecodable batch: {e}"));
                return;
            }
        };
        for r in reqs {
            match r.effect {
                capp::EffectFfi::CTiny(COp::Ask(_)) => self.oneshots.push(r.id.0),
                capp::EffectFfi::CTiny(COp::Watch(_)) => {
                    if self.stream.replace(r.id.0).is_some() {
                        self.unexpected.push("second stream request".into());
                    }
                }
                capp::EffectFfi::Render(_) => {}
                capp::EffectFfi::Time(TimeRequest::NotifyAfter { id, duration }) => {
                    let ms = std::time::Duration::from(duration).as_millis();
                    let slot = if ms == 100 { &mut self.ct_req } else { &mut self.lt_req };
                    if slot.replace((r.id.0, id)).is_some() {
                        self.unexpected.push("second timer request of one kind".into());
                    }
                }
                capp::EffectFfi::Time(TimeRequest::Clear { id }) => {
                    if self.ct_req.map(|(_, t)| t) == Some(id) {
                        self.ct_clear = Some((r.id.0, id));
                    }
                    // otherwise: the legacy clear notification
                }
                capp::EffectFfi::Time(other) => {
                    self.unexpected.push(format!("unexpected time request {other:?}"))
                }
            }
        }
    }

    fn event(&mut self, ev: CEvent) -> Result<(), String> {
        let bytes = bin_strict().serialize(&ev).unwrap();
        drop(ev);
        let out = self.bridge.process_event(&bytes).map_err(|e| e.to_string())?;
        self.absorb(out);
        Ok(())
    }

    fn answer<T: Serialize>(&mut self, id: u32, v: &T) -> Result<(), String> {
        let bytes = bin_strict().serialize(v).unwrap();
        let out = self
            .bridge
            .handle_response(id, &bytes)
            .map_err(|e| e.to_string())?;
        self.absorb(out);
        Ok(())
    }

    /// Performs the action; `Err` = the bridge returned an error (expected for exactly one action).
    fn act(&mut self, a: Act) -> Result<(), String> {
        match a {
            Act::ReqC => self.event(CEvent::ReqC(Token::new())),
            Act::ReqL => self.event(CEvent::ReqL(Token::new())),
            Act::ReqJ => self.event(CEvent::ReqJ(Token::new())),
            Act::ReqS => self.event(CEvent::ReqS(Token::new())),
            Act::ReqA => self.event(CEvent::ReqA(Token::new())),
            Act::ReqT => self.event(CEvent::ReqT(Token::new())),
            Act::ReqU => self.event(CEvent::ReqU(Token::new())),
            Act::ReqV => self.event(CEvent::ReqV(Token::new())),
            Act::ReqSA0 => self.event(CEvent::ReqSA0),
            Act::ReqSA => self.event(CEvent::ReqSA(Token::new())),
            Act::Drop(_) => Err("the byte-level bridge cannot drop a request".into()),
            Act::BadAnswer(k) => {
                let id = self.oneshots.remove(k);
                match self.bridge.handle_response(id, &[]) {
                    Err(e) if e.to_string().contains("could not deserialize provided effect output") => {
                        // the rejected call does not run the core: one further call
                        self.event(CEvent::Noop)
                    }
                    Err(e) => Err(format!("undecodable answer: unexpected error {e}")),
                    Ok(_) => Err("an undecodable answer was accepted".into()),
                }
            }
            Act::Respond(k) => {
                let id = self.oneshots.remove(k);
                self.answer(id, &COut(7, Token::new()))
            }
            Act::Sub => self.event(CEvent::Sub(Token::new())),
            Act::Unsub => self.event(CEvent::Unsub),
            Act::Item => {
                let id = self.stream.ok_or("no stream id")?;
                self.answer(id, &COut(9, Token::new()))
            }
            Act::Render => self.event(CEvent::Render),
            Act::CTimerSet => self.event(CEvent::CTimerSet),
            Act::CTimerClear => self.event(CEvent::CTimerClear),
            Act::CTimerFire => {
                let (id, t) = self.ct_req.take().ok_or("no timer request")?;
                self.answer(id, &TimeResponse::DurationElapsed { id: t })
            }
            Act::CTimerCleared => {
                let (id, t) = self.ct_clear.take().ok_or("no clear request")?;
                self.answer(id, &TimeResponse::Cleared { id: t })
            }
            Act::LTimerSet => self.event(CEvent::LTimerSet),
            Act::LTimerClear => self.event(CEvent::LTimerClear),
            Act::LReqUnpolled => self.event(CEvent::LReqUnpolled(Token::new())),
            Act::LSelUnpolled => self.event(CEvent::LSelUnpolled(Token::new())),
            Act::LTimerSetCleared => self.event(CEvent::LTimerSetCleared),
            Act::LTimerFire => {
                let (id, t) = self.lt_req.take().ok_or("no legacy timer request")?;
                self.answer(id, &TimeResponse::DurationElapsed { id: t })
            }
        }
    }

    fn gauges(&self) -> Gauges {
        let (tasks, spawns, ready, effects, events) = self.bridge.verif_core().verif_stats();
        Gauges {
            registry: self.bridge.verif_registry_kinds(),
            tasks,
            cmd_tasks: 0,
            queues: (spawns, ready, effects, events),
            cleared: crux_time::verif_cleared_len().saturating_sub(self.cleared_base),
            tokens: live_tokens(),
        }
    }

    fn view(&self) -> Option<CView> {
        let b = self.bridge.view().ok()?;
        bin_strict().deserialize(&b).ok()
    }
}

// ---------------------------------------------------------------------------------------------
// host 2: the harness hosts the Commands itself (the way the repository's tests do)

struct DirectHost {
    app: CApp2,
    model: CModel,
    cmds: Vec<Command<Effect2, CEvent>>,
    oneshots: Vec<Request<COp>>,
    stream: Option<Request<COp>>,
    ct_req: Option<Request<TimeRequest>>,
    ct_clear: Option<Request<TimeRequest>>,
    unexpected: Vec<String>,
}

impl DirectHost {
    fn new() -> Self {
        DirectHost {
            app: CApp2,
            model: CModel::default(),
            cmds: vec![],
            oneshots: vec![],
            stream: None,
            ct_req: None,
            ct_clear: None,
            unexpected: vec![],
        }
    }

    fn settle(&mut self) {
        loop {
            let mut events = vec![];
            let mut effects = vec![];
            for c in self.cmds.iter_mut() {
                events.extend(c.events());
                effects.extend(c.effects());
            }
            for e in effects {
                match e {
                    Effect2::CTiny(r) => match r.operation {
                        COp::Ask(_) => self.oneshots.push(r),
                        COp::Watch(_) => {
                            if self.stream.replace(r).is_some() {
                                self.unexpected.push("second stream request".into());
                            }
                        }
                    },
                    Effect2::Render(_) => {}
                    Effect2::Time(r) => match r.operation {
                        TimeRequest::NotifyAfter { .. } => {
                            if self.ct_req.replace(r).is_some() {
                                self.unexpected.push("second timer request".into());
                            }
                        }
                        TimeRequest::Clear { .. } => self.ct_clear = Some(r),
                        _ => self.unexpected.push("unexpected time request".into()),
                    },
                }
            }
            if events.is_empty() {
                break;
            }
            for ev in events {
                let c = self.app.update(ev, &mut self.model, &());
                self.cmds.push(c);
            }
        }
        self.cmds.retain_mut(|c| !c.is_done());
    }

    fn event(&mut self, ev: CEvent) -> Result<(), String> {
        let c = self.app.update(ev, &mut self.model, &());
        self.cmds.push(c);
        self.settle();
        Ok(())
    }

    fn timer_id(r: &Request<TimeRequest>) -> TimerId {
        match r.operation {
            TimeRequest::NotifyAfter { id, .. }
            | TimeRequest::NotifyAt { id, .. }
            | TimeRequest::Clear { id } => id,
            TimeRequest::Now => TimerId(0),
        }
    }

    fn act(&mut self, a: Act) -> Result<(), String> {
        match a {
            Act::ReqC => self.event(CEvent::ReqC(Token::new())),
            Act::ReqJ => self.event(CEvent::ReqJ(Token::new())),
            Act::ReqS => self.event(CEvent::ReqS(Token::new())),
            Act::ReqA => self.event(CEvent::ReqA(Token::new())),
            Act::ReqT => self.event(CEvent::ReqT(Token::new())),
            Act::ReqU => self.event(CEvent::ReqU(Token::new())),
            Act::ReqV => self.event(CEvent::ReqV(Token::new())),
            Act::ReqSA0 => self.event(CEvent::ReqSA0),
            Act::ReqSA => self.event(CEvent::ReqSA(Token::new())),
            Act::Drop(k) => {
                drop(self.oneshots.remove(k));
                // the next poll of the commands (the way a test calls effects()/events())
                self.settle();
                Ok(())
            }
            Act::Respond(k) => {
                let mut r = self.oneshots.remove(k);
                let res = r.resolve(COut(7, Token::new())).map_err(|e| e.to_string());
                drop(r);
                self.settle();
                res
            }
            Act::Sub => self.event(CEvent::Sub(Token::new())),
            Act::Unsub => self.event(CEvent::Unsub),
            Act::Item => {
                let r = self.stream.as_mut().ok_or("no stream request")?;
                let res = r.resolve(COut(9, Token::new())).map_err(|e| e.to_string());
                if res.is_err() {
                    // told FinishedMany: the shell forgets the request
                    self.stream = None;
                }
                self.settle();
                res
            }
            Act::Render => self.event(CEvent::Render),
            Act::CTimerSet => self.event(CEvent::CTimerSet),
            Act::CTimerClear => self.event(CEvent::CTimerClear),
            Act::CTimerFire => {
                let mut r = self.ct_req.take().ok_or("no timer request")?;
                let id = Self::timer_id(&r);
                let res = r
                    .resolve(TimeResponse::DurationElapsed { id })
                    .map_err(|e| e.to_string());
                self.settle();
                res
            }
            Act::CTimerCleared => {
                let mut r = self.ct_clear.take().ok_or("no clear request")?;
                let id = Self::timer_id(&r);
                let res = r.resolve(TimeResponse::Cleared { id }).map_err(|e| e.to_string());
                self.settle();
                res
            }
            Act::ReqL
            | Act::LTimerSet
            | Act::LTimerClear
            | Act::LTimerFire
            | Act::LReqUnpolled
            | Act::LSelUnpolled
            | Act::LTimerSetCleared
            | Act::BadAnswer(_) => {
                Err("action not available on the direct host".into())
            }
        }
    }

    fn gauges(&self) -> Gauges {
        let mut pending = (0, 0);
        for c in &self.cmds {
            let (a, b) = c.verif_pending_outputs();
            pending.0 += a;
            pending.1 += b;
        }
        Gauges {
            registry: (0, 0, 0),
            tasks: self.cmds.len(),
            cmd_tasks: self.cmds.iter().map(|c| c.verif_live_tasks()).sum(),
            queues: (0, 0, pending.0, pending.1),
            cleared: 0,
            tokens: live_tokens(),
        }
    }
}

// ---------------------------------------------------------------------------------------------
// host 3: typed Core<CApp>; the harness holds the typed requests and may drop them

struct CoreHost {
    core: Core<CApp>,
    oneshots: Vec<Request<COp>>,
    stream: Option<Request<COp>>,
    ct_req: Option<Request<TimeRequest>>,
    ct_clear: Option<Request<TimeRequest>>,
    lt_req: Option<Request<TimeRequest>>,
    cleared_base: usize,
    unexpected: Vec<String>,
}

impl CoreHost {
    fn new() -> Self {
        CoreHost {
            cleared_base: crux_time::verif_cleared_len(),
            core: Core::new(),
            oneshots: vec![],
            stream: None,
            ct_req: None,
            ct_clear: None,
            lt_req: None,
            unexpected: vec![],
        }
    }

    fn absorb(&mut self, effects: Vec<capp::Effect>) {
        for e in effects {
            match e {
                capp::Effect::CTiny(r) => match r.operation {
                    COp::Ask(_) => self.oneshots.push(r),
                    COp::Watch(_) => {
                        if self.stream.replace(r).is_some() {
                            self.unexpected.push("second stream request".into());
                        }
                    }
                },
                capp::Effect::Render(_) => {}
                capp::Effect::Time(r) => match r.operation {
                    TimeRequest::NotifyAfter { duration, .. } => {
                        let ms = std::time::Duration::from(duration).as_millis();
                        let slot = if ms == 100 { &mut self.ct_req } else { &mut self.lt_req };
                        if slot.replace(r).is_some() {
                            self.unexpected.push("second timer request of one kind".into());
                        }
                    }
                    TimeRequest::Clear { id } => {
                        if self.ct_req.as_ref().map(DirectHost::timer_id) == Some(id) {
                            self.ct_clear = Some(r);
                        }
                        // otherwise: the legacy clear notification
                    }
                    _ => self.unexpected.push("unexpected time request".into()),
                },
            }
        }
    }

    fn event(&mut self, ev: CEvent) -> Result<(), String> {
        let effects = self.core.process_event(ev);
        self.absorb(effects);
        Ok(())
    }

    /// `Core::resolve` debug_asserts success (K1, not this property's): the assertion is taken
    /// as the error return it stands in front of.
    fn resolve<Op: crux_core::capability::Operation>(
        &mut self,
        req: &mut Request<Op>,
        out: Op::Output,
    ) -> Result<(), String> {
        let core = &self.core;
        let r = mc_kit::catch(|| core.resolve(req, out));
        match r {
            Ok(Ok(effects)) => {
                self.absorb(effects);
                Ok(())
            }
            Ok(Err(e)) => Err(e.to_string()),
            Err(p) if p.message.contains("resolve_result.is_ok()") => {
                Err("resolve failed (debug assertion in Core::resolve)".into())
            }
            Err(p) => std::panic::panic_any(p.message),
        }
    }

    fn act(&mut self, a: Act) -> Result<(), String> {
        match a {
            Act::ReqC => self.event(CEvent::ReqC(Token::new())),
            Act::ReqL => self.event(CEvent::ReqL(Token::new())),
            Act::ReqJ => self.event(CEvent::ReqJ(Token::new())),
            Act::ReqS => self.event(CEvent::ReqS(Token::new())),
            Act::ReqA => self.event(CEvent::ReqA(Token::new())),
            Act::ReqT => self.event(CEvent::ReqT(Token::new())),
            Act::ReqU => self.event(CEvent::ReqU(Token::new())),
            Act::ReqV => self.event(CEvent::ReqV(Token::new())),
            Act::ReqSA0 => self.event(CEvent::ReqSA0),
            Act::ReqSA => self.event(CEvent::ReqSA(Token::new())),
            Act::Respond(k) => {
                let mut r = self.oneshots.remove(k);
                self.resolve(&mut r, COut(7, Token::new()))
            }
            Act::Drop(k) => {
                drop(self.oneshots.remove(k));
                // the drop is not a call: its consequences surface at the next one
                self.event(CEvent::Noop)
            }
            Act::BadAnswer(_) => Err("bytes offered to the typed core".into()),
            Act::Sub => self.event(CEvent::Sub(Token::new())),
            Act::Unsub => self.event(CEvent::Unsub),
            Act::Item => {
                let mut r = self.stream.take().ok_or("no stream request")?;
                let res = self.resolve(&mut r, COut(9, Token::new()));
                if res.is_ok() {
                    self.stream = Some(r);
                }
                res
            }
            Act::Render => self.event(CEvent::Render),
            Act::CTimerSet => self.event(CEvent::CTimerSet),
            Act::CTimerClear => self.event(CEvent::CTimerClear),
            Act::CTimerFire => {
                let mut r = self.ct_req.take().ok_or("no timer request")?;
                let id = DirectHost::timer_id(&r);
                self.resolve(&mut r, TimeResponse::DurationElapsed { id })
            }
            Act::CTimerCleared => {
                let mut r = self.ct_clear.take().ok_or("no clear request")?;
                let id = DirectHost::timer_id(&r);
                self.resolve(&mut r, TimeResponse::Cleared { id })
            }
            Act::LTimerSet => self.event(CEvent::LTimerSet),
            Act::LTimerClear => self.event(CEvent::LTimerClear),
            Act::LReqUnpolled => self.event(CEvent::LReqUnpolled(Token::new())),
            Act::LSelUnpolled => self.event(CEvent::LSelUnpolled(Token::new())),
            Act::LTimerSetCleared => self.event(CEvent::LTimerSetCleared),
            Act::LTimerFire => {
                let mut r = self.lt_req.take().ok_or("no legacy timer request")?;
                let id = DirectHost::timer_id(&r);
                self.resolve(&mut r, TimeResponse::DurationElapsed { id })
            }
        }
    }

    fn gauges(&self) -> Gauges {
        let (tasks, spawns, ready, effects, events) = self.core.verif_stats();
        Gauges {
            registry: (0, 0, 0),
            tasks,
            cmd_tasks: 0,
            queues: (spawns, ready, effects, events),
            cleared: crux_time::verif_cleared_len().saturating_sub(self.cleared_base),
            tokens: live_tokens(),
        }
    }
}

enum Host {
    B(BridgeHost),
    D(DirectHost),
    C(CoreHost),
}

// ---------------------------------------------------------------------------------------------
// one execution of a path on fresh objects

pub struct RunOut {
    pub rf: Ref,
    pub hist: Hist,
    pub gauges: Gauges,
    pub found: Vec<Found>,
    pub trace: Vec<String>,
    /// stuck legacy tasks accepted under the listed finding (projected out of the key)
    pub stuck_legacy: usize,
}

pub fn run_path(host: HostKind, path: &[Act], b: &Bounds, trace: bool) -> RunOut {
    capp::set_saturation(b.sat);
    let tokens_before = live_tokens();
    let mut h = match host {
        HostKind::Bridge => Host::B(BridgeHost::new()),
        HostKind::Direct => Host::D(DirectHost::new()),
        HostKind::Core => Host::C(CoreHost::new()),
    };
    let mut rf = Ref::new();
    let mut hist = Hist::default();
    let mut found = vec![];
    let mut tr = vec![];
    let mut gauges = Gauges::default();
    for (i, a) in path.iter().enumerate() {
        let told_finished = *a == Act::Item && rf.sub == SubP::Ended;
        let r = mc_kit::catch(|| match &mut h {
            Host::B(x) => x.act(*a),
            Host::D(x) => x.act(*a),
            Host::C(x) => x.act(*a),
        });
        rf.step(*a, &mut hist, b);
        match r {
            Err(p) => {
                found.push(Found {
                    key: crate::sys::panic_key(&p),
                    what: format!("panic: {} ({}:{})", p.message, p.file, p.line),
                    projectable: false,
                });
                break;
            }
            Ok(Err(e)) if !told_finished => found.push(Found {
                key: "reference/unexpected-error".into(),
                what: format!("step {i} ({a:?}) returned an error: {e}"),
                projectable: false,
            }),
            Ok(Ok(())) if told_finished => found.push(Found {
                key: "reference/finished-stream-accepted-item".into(),
                what: format!("step {i}: an item for an ended subscription was accepted"),
                projectable: false,
            }),
            Ok(_) => {}
        }
        if told_finished {
            if let Host::B(x) = &mut h {
                // the shell has been told FinishedMany: it forgets the id
                x.stream = None;
            }
        }
        gauges = match &h {
            Host::B(x) => x.gauges(),
            Host::D(x) => x.gauges(),
            Host::C(x) => x.gauges(),
        };
        gauges.tokens -= tokens_before;
        if trace {
            tr.push(format!("step {i}: {a:?}\n    reference {rf:?}\n    gauges    {gauges:?}"));
        }
        {
            // reconcile the reference with lazy releases that have already happened
            let f = check(host, &rf, &hist, &gauges, Some(host_view(&h)));
            if f.iter().any(|x| x.key.starts_with("reference/")) {
                for alt in rf.alternatives(b) {
                    let fa = check(host, &alt, &hist, &gauges, Some(host_view(&h)));
                    if !fa.iter().any(|x| x.key.starts_with("reference/")) {
                        if trace {
                            tr.push("    (a lazily released task has been polled: reference follows)".into());
                        }
                        rf = alt;
                        break;
                    }
                }
            }
        }
        if i + 1 == path.len() || trace {
            let f = check(host, &rf, &hist, &gauges, Some(host_view(&h)));
            if trace {
                for x in &f {
                    tr.push(format!("    FINDING {}: {}", x.key, x.what));
                }
            }
            if i + 1 == path.len() {
                found.extend(f);
            }
        }
    }
    // drop everything: all tokens must be released (field order in Core, executor outliving
    // the user types)
    let unexpected = match &mut h {
        Host::B(x) => std::mem::take(&mut x.unexpected),
        Host::D(x) => std::mem::take(&mut x.unexpected),
        Host::C(x) => std::mem::take(&mut x.unexpected),
    };
    for u in unexpected {
        found.push(Found {
            key: "reference/unexpected-effects".into(),
            what: u,
            projectable: false,
        });
    }
    let dropped = mc_kit::catch(move || drop(h));
    let left = live_tokens() - tokens_before;
    if let Err(p) = dropped {
        found.push(Found {
            key: format!("drop/{}", crate::sys::panic_key(&p)),
            what: format!("dropping the host panicked: {}", p.message),
            projectable: false,
        });
    } else if left != 0 {
        found.push(Found {
            key: "tokens/held-after-drop".into(),
            what: format!("{left} drop-tokens still alive after the host was dropped"),
            projectable: false,
        });
        // keep later runs on this thread meaningful
    }
    if trace {
        tr.push(format!("drop host: {left} tokens left"));
    }
    let stuck = stuck_legacy(host, &rf, &hist, &gauges);
    RunOut {
        rf,
        hist,
        gauges,
        found,
        trace: tr,
        stuck_legacy: stuck,
    }
}

/// Legacy tasks whose request the shell dropped and that are still there (listed finding
/// `legacy/dropped-request-task-never-released`): accepted only if EVERY dropped legacy request
/// accounts for exactly one stuck executor slot - anything else is judged without allowance, so
/// a different leak cannot hide in this dimension.
fn stuck_legacy(host: HostKind, rf: &Ref, hist: &Hist, g: &Gauges) -> usize {
    let e = rf.expected();
    if host != HostKind::Direct && hist.dropped_legacy > 0 && g.tasks == e.tasks + hist.dropped_legacy
    {
        hist.dropped_legacy
    } else {
        0
    }
}

fn host_view(h: &Host) -> Option<CView> {
    match h {
        Host::B(x) => x.view(),
        Host::D(x) => Some(capp::view_of(&x.model)),
        Host::C(x) => Some(x.core.view()),
    }
}

/// `view`: the host's view (None in the canaries, which feed doctored gauges and no host).
fn check(
    host: HostKind,
    rf: &Ref,
    hist: &Hist,
    g: &Gauges,
    view: Option<Option<CView>>,
) -> Vec<Found> {
    let mut e = rf.expected();
    let stuck = stuck_legacy(host, rf, hist, g);
    // each stuck legacy task keeps its slot and the one token it captured
    e.tasks += stuck;
    e.tokens += stuck;
    let mut f = vec![];
    let mut over = |key: &str, what: String, projectable: bool| {
        f.push(Found {
            key: key.into(),
            what,
            projectable,
        })
    };
    let below = |name: &str, got: usize, want: usize| Found {
        key: format!("reference/{name}-below-outstanding-work"),
        what: format!("{name}: {got} where the reference counts {want} pieces of outstanding work"),
        projectable: false,
    };
    let mut extra = vec![];
    if stuck > 0 {
        over(
            "legacy/dropped-request-task-never-released",
            format!("{stuck} executor slots (and the tokens their futures captured) belong to legacy-capability tasks whose {} requests the shell dropped unresolved; nothing wakes or evicts them", hist.dropped_legacy),
            true,
        );
    }
    if host == HostKind::Bridge {
        let (never, once, many) = g.registry;
        if never > hist.notes {
            over(
                "registry/used-up-entry-not-removed",
                format!("{never} `Never` entries in the registry but only {} notifications were ever sent: entries of answered requests are still there", hist.notes),
                false,
            );
        } else if never > 0 {
            over(
                "registry/never-entry",
                format!("{never} `Never` entries in the registry for {} notifications sent so far; a notification can never be resolved", hist.notes),
                true,
            );
        }
        if once > e.once {
            over(
                "registry/once-entry-exceeds-outstanding",
                format!("{once} one-shot entries, {} one-shot requests outstanding", e.once),
                false,
            );
        } else if once < e.once {
            extra.push(below("registry-once", once, e.once));
        }
        if many > e.many {
            over(
                "registry/ended-subscription-entry",
                format!("{many} stream entries in the registry, {} subscriptions the shell has not been told are finished", e.many),
                false,
            );
        } else if many < e.many {
            extra.push(below("registry-many", many, e.many));
        }
    }
    if host != HostKind::Direct {
        let stale = hist.stale_cleared;
        if g.cleared > e.cleared {
            if g.cleared == e.cleared + stale {
                over(
                    "cleared-set/clear-after-finish",
                    format!("{} ids in the cleared-timer set, {} cleared timers still pending ({} clear() calls hit timers that had already finished)", g.cleared, e.cleared, stale),
                    true,
                );
            } else {
                over(
                    "cleared-set/exceeds-live-timers",
                    format!("{} ids in the cleared-timer set, {} cleared timers pending, {} stale clears", g.cleared, e.cleared, stale),
                    false,
                );
            }
        } else if g.cleared < e.cleared {
            extra.push(below("cleared-set", g.cleared, e.cleared));
        }
    }
    if g.tasks > e.tasks {
        over(
            if host != HostKind::Direct {
                "executor/tasks-exceed-live-work"
            } else {
                "command/not-done-without-live-work"
            },
            format!("{} task slots / live commands, {} pieces of live work", g.tasks, e.tasks),
            false,
        );
    } else if g.tasks < e.tasks {
        extra.push(below("tasks", g.tasks, e.tasks));
    }
    if host == HostKind::Direct {
        if g.cmd_tasks > e.cmd_tasks {
            over(
                "command/tasks-exceed-live-work",
                format!("commands hold {} tasks, {} are live", g.cmd_tasks, e.cmd_tasks),
                false,
            );
        } else if g.cmd_tasks < e.cmd_tasks {
            extra.push(below("command-tasks", g.cmd_tasks, e.cmd_tasks));
        }
    }
    let want_tokens = e.tokens
        + if host != HostKind::Bridge {
            e.held_payload_tokens
        } else {
            0
        };
    if g.tokens > want_tokens as i64 {
        over(
            "tokens/held-after-finish",
            format!("{} drop-tokens alive, {} owned by outstanding work", g.tokens, want_tokens),
            false,
        );
    } else if g.tokens < want_tokens as i64 {
        extra.push(below("tokens", g.tokens.max(0) as usize, want_tokens));
    }
    if g.queues != (0, 0, 0, 0) {
        over(
            "queues/not-drained",
            format!("(spawns, wake-ups, effects, events) left queued after the call: {:?}", g.queues),
            false,
        );
    }
    if let Some(view) = view.filter(|v| v.as_ref() != Some(&rf.view)) {
        over(
            "reference/view-differs",
            format!("view {:?}, reference {:?}", view, rf.view),
            false,
        );
    }
    f.extend(extra);
    f
}

// ---------------------------------------------------------------------------------------------
// closure

#[derive(Clone, Debug, PartialEq, Eq, PartialOrd, Ord, Serialize)]
struct Key {
    rf: Ref,
    gauges: Gauges,
}

fn key_of(o: &RunOut) -> Key {
    let mut g = o.gauges.clone();
    // dimensions a listed finding makes unbounded, projected out (each is reported)
    g.registry.0 = 0;
    g.cleared = g.cleared.saturating_sub(o.hist.stale_cleared);
    g.tasks = g.tasks.saturating_sub(o.stuck_legacy);
    g.tokens -= o.stuck_legacy as i64;
    Key {
        rf: o.rf.clone(),
        gauges: g,
    }
}

#[derive(Serialize, Deserialize)]
struct Closure {
    states: usize,
    transitions: u64,
    steps: u64,
    closed: bool,
    cut_states: usize,
    max_depth: usize,
    max_gauges: Gauges,
    samples: Vec<serde_json::Value>,
    by_sub: BTreeMap<String, usize>,
    frontier_left: usize,
    /// smallest case per key: (key, what, replay, size, occurrences)
    violations: Vec<(String, String, serde_json::Value, usize, u64)>,
}

fn explore(host: HostKind, b: &Bounds, cap: usize, limit_s: f64) -> Closure {
    let deadline = mc_kit::Deadline::new(limit_s);
    let mut vio: BTreeMap<String, (String, serde_json::Value, usize, u64)> = BTreeMap::new();
    let mut seen: std::collections::BTreeSet<Key> = Default::default();
    let mut queue: VecDeque<(Vec<Act>, Ref)> = VecDeque::new();
    let first = run_path(host, &[], b, false);
    seen.insert(key_of(&first));
    queue.push_back((vec![], first.rf.clone()));
    let mut c = Closure {
        states: 1,
        transitions: 0,
        steps: 0,
        closed: true,
        cut_states: 0,
        max_depth: 0,
        max_gauges: Gauges::default(),
        samples: vec![],
        by_sub: BTreeMap::new(),
        frontier_left: 0,
        violations: vec![],
    };
    while let Some((path, rf)) = queue.pop_front() {
        if seen.len() >= cap || deadline.expired() {
            c.closed = false;
            c.frontier_left = queue.len() + 1;
            break;
        }
        for a in rf.enabled(host, b) {
            let mut p = path.clone();
            p.push(a);
            let out = run_path(host, &p, b, false);
            c.transitions += 1;
            c.steps += p.len() as u64;
            let mut cut = false;
            for f in &out.found {
                match vio.get_mut(&f.key) {
                    // breadth-first: the first case of a key is a shortest one
                    Some(v) => v.3 += 1,
                    None => {
                        vio.insert(
                            f.key.clone(),
                            (
                                format!("{host:?} host, after {p:?}: {}", f.what),
                                json!({"engine": "closure", "host": host, "path": p,
                                       "bounds": {"max_oneshots": b.max_oneshots, "saturation": b.sat, "drop_legacy": b.drop_legacy}}),
                                p.len(),
                                1,
                            ),
                        );
                    }
                }
                cut |= !f.projectable;
            }
            if cut {
                c.cut_states += 1;
                continue;
            }
            let k = key_of(&out);
            if !seen.contains(&k) {
                c.max_depth = c.max_depth.max(p.len());
                let g = &out.gauges;
                let m = &mut c.max_gauges;
                m.registry.1 = m.registry.1.max(g.registry.1);
                m.registry.2 = m.registry.2.max(g.registry.2);
                m.tasks = m.tasks.max(g.tasks);
                m.cmd_tasks = m.cmd_tasks.max(g.cmd_tasks);
                m.tokens = m.tokens.max(g.tokens);
                m.cleared = m.cleared.max(k.gauges.cleared);
                *c.by_sub.entry(format!("{:?}", out.rf.sub)).or_default() += 1;
                if seen.len().is_power_of_two() && c.samples.len() < 16 {
                    c.samples.push(json!({"host": host, "path": p, "reference": out.rf,
                                          "gauges": out.gauges}));
                }
                seen.insert(k);
                queue.push_back((p, out.rf.clone()));
            }
        }
    }
    c.states = seen.len();
    c.violations = vio
        .into_iter()
        .map(|(k, (what, replay, size, n))| (k, what, replay, size, n))
        .collect();
    c
}

/// Scripted scale family: an explicit list of LONG paths (hundreds to thousands of steps) over the
/// same alphabet, each executed once on one live host, gauges compared with the reference at the
/// stated checkpoints (peak of outstanding work, end). Constants in the code (slab capacities of
/// 1024, id thresholds of 64 / 128, channel capacities) are out of reach of the closure, whose
/// shortest paths are a dozen steps long. Enumeration of a stated list, not sampling.
fn scale_paths(host: HostKind) -> Vec<(&'static str, Vec<Act>, Vec<usize>)> {
    let mut v: Vec<(&'static str, Vec<Act>, Vec<usize>)> = vec![];
    let rep = |a: &[Act], n: usize| -> Vec<Act> { (0..n).flat_map(|_| a.iter().copied()).collect() };
    for n in [130usize, 1100] {
        // n one-shots outstanding at once, answered oldest first / newest first
        let mut p = rep(&[Act::ReqC], n);
        p.extend(rep(&[Act::Respond(0)], n));
        v.push(("burst of command-API one-shots, answered oldest first", p, vec![n, 2 * n]));
        let mut p = rep(&[Act::ReqC], n);
        p.extend((0..n).rev().map(Act::Respond));
        v.push(("burst of command-API one-shots, answered newest first", p, vec![n, 2 * n]));
    }
    // a long history with little outstanding work at any time
    v.push(("one-shot issued and answered 1500 times", rep(&[Act::ReqC, Act::Respond(0)], 1500), vec![3000]));
    v.push(("join-handle programs issued and answered 300 times", rep(&[Act::ReqJ, Act::Respond(0)], 300), vec![600]));
    v.push(("one outstanding one-shot kept while 1200 others come and go", {
        let mut p = vec![Act::ReqC];
        p.extend(rep(&[Act::ReqC, Act::Respond(1)], 1200));
        p.push(Act::Respond(0));
        p
    }, vec![2401, 2402]));
    // a subscription fed with many items, ended, and subscribed again
    v.push(("subscription: 300 items, unsubscribe, late item", {
        let mut p = vec![Act::Sub];
        p.extend(rep(&[Act::Item], 300));
        p.push(Act::Unsub);
        p.push(Act::Item);
        p
    }, vec![301, 303]));
    // timers come and go: ids grow past 64 / 128 / 256
    v.push(("command-API timer set and fired 300 times", rep(&[Act::CTimerSet, Act::CTimerFire], 300), vec![600]));
    v.push(("command-API timer set, cleared, clear answered, orphan fired 150 times", rep(&[Act::CTimerSet, Act::CTimerClear, Act::CTimerCleared, Act::CTimerFire], 150), vec![600]));
    if host != HostKind::Direct {
        for n in [130usize, 1100] {
            let mut p = rep(&[Act::ReqL], n);
            p.extend((0..n).rev().map(Act::Respond));
            v.push(("burst of legacy-API one-shots, answered newest first", p, vec![n, 2 * n]));
        }
        v.push(("legacy one-shot issued and answered 1500 times", rep(&[Act::ReqL, Act::Respond(0)], 1500), vec![3000]));
        v.push(("legacy timer set and fired 300 times", rep(&[Act::LTimerSet, Act::LTimerFire], 300), vec![600]));
        v.push(("legacy timer set, cleared while live, fired 300 times", rep(&[Act::LTimerSet, Act::LTimerClear, Act::LTimerFire], 300), vec![900]));
        v.push(("legacy request futures never polled, 400 times", rep(&[Act::LReqUnpolled, Act::LSelUnpolled], 200), vec![400]));
        v.push(("mixed: legacy and command one-shots interleaved with timers, 200 rounds", rep(&[Act::ReqL, Act::ReqC, Act::CTimerSet, Act::Respond(1), Act::CTimerFire, Act::Respond(0)], 200), vec![1200]));
    }
    v
}

#[derive(Serialize, Deserialize, Default)]
struct ScaleOut {
    members: usize,
    steps: u64,
    max_outstanding: usize,
    /// (key, what, replay)
    violations: Vec<(String, String, serde_json::Value)>,
}

fn scale_bounds() -> Bounds {
    Bounds { max_oneshots: 100_000, sat: 1, drop_legacy: true, full_alphabet: true }
}

fn run_scale(host: HostKind) -> ScaleOut {
    let b = scale_bounds();
    let mut out = ScaleOut::default();
    for (name, path, checkpoints) in scale_paths(host) {
        // every step of a scripted path must be one the reference allows at that point
        {
            let mut rf = Ref::new();
            let mut hist = Hist::default();
            for (i, a) in path.iter().enumerate() {
                if !rf.enabled(host, &b).contains(a) {
                    mc_kit::machinery_error(&format!("C13 scale member `{name}`: step {i} ({a:?}) is not enabled in the reference"));
                }
                rf.step(*a, &mut hist, &b);
                out.max_outstanding = out.max_outstanding.max(rf.oneshots.len());
            }
        }
        out.members += 1;
        for cp in checkpoints {
            let o = run_path(host, &path[..cp], &b, false);
            out.steps += cp as u64;
            let mut stop = false;
            for f in o.found.iter().filter(|f| !f.projectable) {
                if !out.violations.iter().any(|(k, _, _)| *k == f.key) {
                    out.violations.push((
                        f.key.clone(),
                        format!("{host:?} host, scripted scale member `{name}`, after {cp} steps: {}", f.what),
                        json!({"engine": "closure", "host": host, "path": &path[..cp], "scale_member": name,
                               "bounds": {"max_oneshots": b.max_oneshots, "saturation": b.sat, "drop_legacy": b.drop_legacy}}),
                    ));
                }
                stop = true;
            }
            if stop {
                break;
            }
        }
    }
    out
}

fn host_name(h: HostKind) -> &'static str {
    match h {
        HostKind::Bridge => "Bridge",
        HostKind::Direct => "Direct",
        HostKind::Core => "Core",
    }
}

/// Hidden subcommand: the closure of ONE host in its own process (crux_time's cleared set and
/// id counter are process-global, so hosts cannot share a process concurrently).
pub fn host_child(args: &[String]) -> i32 {
    let get = |n: &str| mc_kit::arg_value(args, n);
    let host = match get("--host").as_deref() {
        Some("Direct") => HostKind::Direct,
        Some("Core") => HostKind::Core,
        _ => HostKind::Bridge,
    };
    let b = Bounds {
        max_oneshots: get("--max-oneshots").and_then(|s| s.parse().ok()).unwrap_or(2),
        sat: get("--sat").and_then(|s| s.parse().ok()).unwrap_or(1),
        drop_legacy: !args.iter().any(|a| a == "--no-drop-legacy"),
        full_alphabet: args.iter().any(|a| a == "--full-alphabet"),
    };
    if args.iter().any(|a| a == "--scale") {
        let o = run_scale(host);
        std::fs::write(get("--out").expect("--out"), serde_json::to_vec(&o).unwrap()).expect("write");
        return 0;
    }
    let cap = get("--cap").and_then(|s| s.parse().ok()).unwrap_or(60_000);
    let limit = get("--limit").and_then(|s| s.parse().ok()).unwrap_or(45.0);
    let c = explore(host, &b, cap, limit);
    std::fs::write(get("--out").expect("--out"), serde_json::to_vec(&c).unwrap()).expect("write");
    0
}

/// One process per (bounds, host), all concurrently. Result: (index of the bounds, host, closure).
fn explore_in_processes(
    configs: &[Bounds],
    cap: usize,
    limit: f64,
) -> Vec<(usize, HostKind, Closure)> {
    let exe = std::env::current_exe().expect("current_exe");
    let hosts = [HostKind::Direct, HostKind::Core, HostKind::Bridge];
    let mut children = vec![];
    for (bi, b) in configs.iter().enumerate() {
      for h in hosts {
        let out = std::env::temp_dir().join(format!(
            "mc-bridge-c13-{}-{}-{}.json",
            std::process::id(),
            bi,
            host_name(h)
        ));
        let mut cmd = std::process::Command::new(&exe);
        cmd.args(["C13-host", "--host", host_name(h)])
            .args(["--max-oneshots", &b.max_oneshots.to_string()])
            .args(["--sat", &b.sat.to_string()])
            .args(["--cap", &cap.to_string()])
            .args(["--limit", &limit.to_string()])
            .arg("--out")
            .arg(&out);
        if !b.drop_legacy {
            cmd.arg("--no-drop-legacy");
        }
        if b.full_alphabet {
            cmd.arg("--full-alphabet");
        }
        let child = cmd.spawn().unwrap_or_else(|e| {
            mc_kit::machinery_error(&format!("C13: cannot start a host process: {e}"))
        });
        children.push((child, out, bi, h));
      }
    }
    let mut res = vec![];
    for (mut child, out, bi, h) in children {
        let ok = child.wait().map(|s| s.success()).unwrap_or(false);
        let bytes = std::fs::read(&out).unwrap_or_default();
        let _ = std::fs::remove_file(&out);
        match (ok, serde_json::from_slice::<Closure>(&bytes)) {
            (true, Ok(c)) => res.push((bi, h, c)),
            _ => mc_kit::machinery_error("C13: a host process failed"),
        }
    }
    res
}

pub fn run(tier: Tier, args: &[String]) -> i32 {
    let rep = Reporter::new("C13", tier);
    let drop_legacy = !args.iter().any(|a| a == "--no-drop-legacy");
    let full_alphabet = tier == Tier::Thorough || args.iter().any(|a| a == "--full-alphabet");
    let arg_max: Option<usize> =
        mc_kit::arg_value(args, "--max-oneshots").and_then(|s| s.parse().ok());
    let arg_sat: Option<u8> = mc_kit::arg_value(args, "--sat").and_then(|s| s.parse().ok());
    // thorough: two sets of app bounds - more outstanding one-shots, and counters that
    // saturate later - each closed on its own
    let mut configs: Vec<Bounds> = match tier {
        Tier::Quick => vec![Bounds { max_oneshots: 2, sat: 1, drop_legacy, full_alphabet }],
        Tier::Thorough => vec![
            Bounds { max_oneshots: 3, sat: 1, drop_legacy, full_alphabet },
            Bounds { max_oneshots: 2, sat: 2, drop_legacy, full_alphabet },
        ],
    };
    if arg_max.is_some() || arg_sat.is_some() {
        configs = vec![Bounds {
            max_oneshots: arg_max.unwrap_or(2),
            sat: arg_sat.unwrap_or(1),
            drop_legacy,
            full_alphabet,
        }];
    }
    let b = Bounds {
        max_oneshots: configs[0].max_oneshots,
        sat: configs[0].sat,
        drop_legacy,
        full_alphabet,
    };
    let cap = mc_kit::arg_value(args, "--cap")
        .and_then(|s| s.parse().ok())
        .unwrap_or(tier.pick(80_000, 3_000_000));
    // canary: a reference told that an aborted subscription is released immediately must be
    // contradicted by the implementation (lazy abort)
    {
        let out = run_path(HostKind::Bridge, &[Act::Sub, Act::Unsub], &b, false);
        let e = out.rf.expected();
        if !(out.gauges.tokens == e.tasks as i64 && e.tasks == 1) {
            mc_kit::machinery_error("C13 canary: the token gauge does not see the task of an aborted, not yet polled subscription");
        }
        let leak = Token::new();
        let seen = live_tokens();
        drop(leak);
        if seen != live_tokens() + 1 {
            mc_kit::machinery_error("C13 canary: the token counter does not count");
        }
    }
    // canaries for the three projections: the gauge exactly at its allowance is the listed
    // finding (projectable), ONE above it must be an unlisted, unprojectable one
    {
        let unlisted = |f: &[Found], key: &str| f.iter().any(|x| x.key == key && !x.projectable);
        let listed_only = |f: &[Found], key: &str| {
            f.iter().any(|x| x.key == key && x.projectable) && f.iter().all(|x| x.projectable)
        };
        // K3: one notification sent, one Never entry; a second Never entry is something else
        let o = run_path(HostKind::Bridge, &[Act::Render], &b, false);
        let mut g = o.gauges.clone();
        let at = check(HostKind::Bridge, &o.rf, &o.hist, &g, None);
        g.registry.0 += 1;
        let above = check(HostKind::Bridge, &o.rf, &o.hist, &g, None);
        if !listed_only(&at, "registry/never-entry")
            || !unlisted(&above, "registry/used-up-entry-not-removed")
        {
            mc_kit::machinery_error("C13 canary: the K3 projection absorbs an extra Never entry");
        }
        // K4: one clear() after finish, one stale id; a second id is something else
        let o = run_path(
            HostKind::Bridge,
            &[Act::LTimerSet, Act::LTimerFire, Act::LTimerClear],
            &b,
            false,
        );
        let mut g = o.gauges.clone();
        let at = check(HostKind::Bridge, &o.rf, &o.hist, &g, None);
        g.cleared += 1;
        let above = check(HostKind::Bridge, &o.rf, &o.hist, &g, None);
        if !listed_only(&at, "cleared-set/clear-after-finish")
            || !unlisted(&above, "cleared-set/exceeds-live-timers")
        {
            mc_kit::machinery_error("C13 canary: the K4 projection absorbs an extra cleared id");
        }
        // legacy: one dropped legacy request, one slot + one token; one more of either is not it
        let o = run_path(HostKind::Core, &[Act::ReqL, Act::Drop(0)], &b, false);
        let at = check(HostKind::Core, &o.rf, &o.hist, &o.gauges, None);
        let mut g = o.gauges.clone();
        g.tasks += 1;
        let slot_above = check(HostKind::Core, &o.rf, &o.hist, &g, None);
        let mut g = o.gauges.clone();
        g.tokens += 1;
        let token_above = check(HostKind::Core, &o.rf, &o.hist, &g, None);
        let mut hist2 = o.hist.clone();
        hist2.dropped_legacy = 0;
        let not_legacy = check(HostKind::Core, &o.rf, &hist2, &o.gauges, None);
        if b.drop_legacy
            && (!listed_only(&at, "legacy/dropped-request-task-never-released")
                || !unlisted(&slot_above, "executor/tasks-exceed-live-work")
                || !unlisted(&token_above, "tokens/held-after-finish")
                || !unlisted(&not_legacy, "executor/tasks-exceed-live-work"))
        {
            mc_kit::machinery_error(
                "C13 canary: the legacy-task projection absorbs a slot or token that is not a dropped legacy request's",
            );
        }
    }
    // harness determinism: one path twice
    {
        let p = [Act::ReqC, Act::Sub, Act::LTimerSet, Act::LTimerClear, Act::Respond(0)];
        let a = run_path(HostKind::Bridge, &p, &b, false);
        let c = run_path(HostKind::Bridge, &p, &b, false);
        if key_of(&a) != key_of(&c) {
            mc_kit::machinery_error("C13: two executions of one path differ (harness)");
        }
    }
    let limit = tier.pick(45.0, 780.0);
    // one process per (bounds, host), concurrently
    // the scripted scale family runs next to the closures, one process per host
    let scale_children: Vec<(std::process::Child, std::path::PathBuf, HostKind)> = [HostKind::Direct, HostKind::Core, HostKind::Bridge]
        .into_iter()
        .map(|h| {
            let out = std::env::temp_dir().join(format!("mc-bridge-c13-scale-{}-{}.json", std::process::id(), host_name(h)));
            let child = std::process::Command::new(std::env::current_exe().expect("current_exe"))
                .args(["C13-host", "--scale", "--host", host_name(h)])
                .arg("--out")
                .arg(&out)
                .spawn()
                .unwrap_or_else(|e| mc_kit::machinery_error(&format!("C13: cannot start a scale process: {e}")));
            (child, out, h)
        })
        .collect();
    let all = explore_in_processes(&configs, cap, limit);
    let mut scale_info = vec![];
    for (mut child, out, h) in scale_children {
        let ok = child.wait().map(|s| s.success()).unwrap_or(false);
        let bytes = std::fs::read(&out).unwrap_or_default();
        let _ = std::fs::remove_file(&out);
        let Some(o) = serde_json::from_slice::<ScaleOut>(&bytes).ok().filter(|_| ok) else {
            mc_kit::machinery_error("C13: a scale process failed");
        };
        for (key, what, replay) in &o.violations {
            rep.violation(Violation { key: key.clone(), what: what.clone(), replay: replay.clone(), size: 1_000 });
        }
        scale_info.push(json!({"host": host_name(h), "scripted_paths": o.members, "steps_executed": o.steps, "max_outstanding_one_shots": o.max_outstanding,
            "violations": o.violations.len()}));
    }
    for (_, _, c) in &all {
        for (key, what, replay, size, n) in &c.violations {
            for _ in 0..(*n).min(3) {
                rep.violation(Violation {
                    key: key.clone(),
                    what: what.clone(),
                    replay: replay.clone(),
                    size: *size,
                });
            }
        }
    }
    let describe = |h: HostKind| match h {
        HostKind::Bridge => "bincode Bridge over Core (derive(Effect), legacy capabilities available)",
        HostKind::Core => "typed Core<CApp> (derive(Effect), legacy capabilities available); the harness holds the typed requests and can drop them",
        HostKind::Direct => "harness-hosted Commands (#[effect] enum, Capabilities = ()); Command::verif_live_tasks readable",
    };
    let show = |bi: usize, h: HostKind, c: &Closure| {
        json!({
            "host": describe(h),
            "app_bounds": {"max_outstanding_one_shots": configs[bi].max_oneshots, "model_counters_saturate_at": configs[bi].sat},
            "distinct_states": c.states,
            "transitions": c.transitions,
            "steps_executed_including_prefix_replays": c.steps,
            "closed": c.closed,
            "unexpanded_states_when_stopped": c.frontier_left,
            "states_cut_at_a_violation": c.cut_states,
            "longest_shortest_path": c.max_depth,
            "max_gauges_seen": c.max_gauges,
            "states_by_subscription_phase": c.by_sub,
            "findings_with_occurrences": c.violations.iter().map(|v| (v.0.clone(), v.4)).collect::<BTreeMap<_, _>>(),
        })
    };
    if all.iter().any(|(_, _, c)| c.states < 2) {
        mc_kit::machinery_error("C13: fewer than 2 non-trivial states on a host");
    }
    let mut samples = vec![];
    for (_, _, c) in &all {
        samples.extend(c.samples.iter().take(8).cloned());
    }
    let total_states: usize = all.iter().map(|(_, _, c)| c.states).sum();
    let total_transitions: u64 = all.iter().map(|(_, _, c)| c.transitions).sum();
    let nontrivial = total_states - all.len();
    let all_closed = all.iter().all(|(_, _, c)| c.closed);
    let hosts_json: Vec<serde_json::Value> = all.iter().map(|(bi, h, c)| show(*bi, *h, c)).collect();
    let closed_json: Vec<serde_json::Value> = all
        .iter()
        .map(|(bi, h, c)| json!({"bounds": bi, "host": host_name(*h), "closed": c.closed}))
        .collect();
    let coverage = json!({
        "states": total_states,
        "transitions": total_transitions,
        "traces_validated_against_impl": total_transitions,
        "evaluations": total_transitions,
        "distinct_nontrivial": nontrivial,
        "rule": "a merged state other than the initial one (state key = reference logical state + view + gauges)",
        "exhaustive": all_closed,
        "exhaustive_note": if full_alphabet { "the reachable set closed under the full action alphabet" } else { "the reachable set closed under the QUICK action alphabet: the program shapes ReqSA (spawn-then-self-abort after a request), ReqV (request.then_request.then_stream.then_send) and ReqS (select over two requests) are explored in the thorough tier only; ReqSA0, ReqT, ReqU and everything else are in both" },
        "thorough_only_actions": ["ReqSA", "ReqV", "ReqS"],
        "full_action_alphabet_in_this_run": full_alphabet,
        "closed": closed_json,
        "state_cap": cap,
        "hosts": hosts_json,
        "action_alphabet": "ReqC (Command-API one-shot), ReqL (legacy one-shot), ReqJ (task: spawn(child awaiting a shell request); join_handle.await; event), ReqT (request.then_stream(finite local stream).then_send), ReqU (request.then_stream consumed by hand inside Command::new), ReqV (request.then_request.then_stream.then_send) - each with answer and drop / undecodable answer at every position, ReqSA0 / ReqSA (spawn-then-self-abort: a task ctx.spawn()s a child capturing a token and calls its own command's AbortHandle in one poll while a sibling task is queued behind it in the same pass - immediately, or after a request whose answer also wakes the sibling), ReqS (one task awaiting select over two shell requests), ReqA (self-aborting command: task B request -> event, task A request -> the command's own AbortHandle, no output), Respond(k) for every outstanding one-shot k (also the orphaned member of a finished select), BadAnswer(k): an undecodable answer to the k-th outstanding one-shot on the Bridge host (must be rejected; the request is used up; followed by one no-op event), Drop(k): the shell drops the k-th outstanding one-shot unresolved (Command-API requests on both hosts, legacy requests on the typed-Core host) (direct and typed-Core hosts; on the Core host followed by one no-op event = one further core call; the bridge cannot drop), Sub, Unsub (AbortHandle kept in the model), Item (stream item; also after unsubscribe and after the task ended), Render, CTimerSet / CTimerClear (TimerHandle) / CTimerFire (answer NotifyAfter, also the orphaned one) / CTimerCleared (answer Clear), LTimerSet / LTimerClear (also after the timer finished) / LTimerFire; legacy request futures that are created and never polled: LReqUnpolled (built, not awaited, event, end), LSelUnpolled (select(ready, request)), LTimerSetCleared (notify_after + clear(id) in one update through a mapped Time capability whose mapping closure owns a token) - none leaves outstanding work; after EVERY explored path the host is dropped",
        "scripted_scale_family": {"what": "explicit list of long paths over the same alphabet (bursts of 130 / 1100 outstanding one-shots answered in both orders, 1500 issue-answer rounds, 300 stream items, 150-300 timer rounds, never-polled legacy futures, mixed rounds), each executed on one live host per checkpoint and judged by the same gauge oracle at the peak and at the end; enumeration of a stated list, not sampling", "per_host": scale_info},
        "app_bounds": {"configurations (max outstanding one-shots, counters saturate at)": configs.iter().map(|c| (c.max_oneshots, c.sat)).collect::<Vec<_>>(), "live_subscriptions": 1, "command_api_timers": 1, "legacy_timers": 1},
        "state_key": "(reference: outstanding one-shots with their API in issue order, subscription phase, timer phases, expected view; gauges: registry once/many entries, executor task slots | live commands, sum of Command::verif_live_tasks, queued spawns/wake-ups/effects/events, cleared-timer-set size relative to the start of the path, live drop-tokens). Projected out because a listed finding makes them unbounded (each reported): `Never` registry entries (K3), cleared-set ids of timers cleared after they finished (K4), executor slots and tokens of legacy tasks whose request was dropped (accepted only when exactly one slot per dropped legacy request is stuck)",
        "oracle": "in every reachable state: registry once <= outstanding one-shot requests the shell holds, many <= subscriptions the shell has not been told are finished, never == 0; executor tasks / live commands / command tasks <= live pieces of work; cleared set <= cleared pending timers; live tokens <= tokens owned by live tasks (+ payloads of requests the harness holds); all queues empty after the call; after dropping the host 0 tokens; view == reference view; gauge BELOW the reference = reference error, reported under reference/*",
        "unbounded_history_argument": "the reachable set is closed under the action alphabet: every action from every reachable merged state leads to a reachable merged state, and every gauge in every such state is within its bound",
        "canary": "gauge sees the still-held task of an aborted, unpolled subscription; token counter counts; for each of the three projected findings (K3, K4, never-released legacy task) the oracle fed a gauge exactly at the allowance gives the listed key only, one above it gives an unlisted unprojectable key",
        "samples": samples,
    });
    rep.finish(
        "model_checking",
        coverage,
        &[
            "merging: two histories with equal key are assumed to have equal futures (logical state by construction of the app, resources because the gauges are in the key); slab free-list order is not in the key",
            "requests the shell still holds (incl. the NotifyAfter request orphaned by a Command-API clear) count as outstanding work",
            "each host is explored single-threaded in its own process (crux_time's cleared set is process-global); the three processes run concurrently",
        ],
    )
}

pub fn replay_file(path: &str) -> i32 {
    let text = std::fs::read_to_string(path).unwrap_or_else(|e| {
        mc_kit::machinery_error(&format!("cannot read replay {path}: {e}"));
    });
    let v: serde_json::Value = serde_json::from_str(&text).expect("replay is not JSON");
    let case = &v["case"];
    let p: Vec<Act> = serde_json::from_value(case["path"].clone()).expect("no path");
    let host = match case["host"].as_str() {
        Some("Direct") => HostKind::Direct,
        Some("Core") => HostKind::Core,
        _ => HostKind::Bridge,
    };
    let b = Bounds {
        max_oneshots: case["bounds"]["max_oneshots"].as_u64().unwrap_or(2) as usize,
        sat: case["bounds"]["saturation"].as_u64().unwrap_or(1) as u8,
        drop_legacy: case["bounds"]["drop_legacy"].as_bool().unwrap_or(true),
        full_alphabet: true,
    };
    println!("replaying {p:?} on the {host:?} host");
    let out = run_path(host, &p, &b, true);
    for l in &out.trace {
        println!("{l}");
    }
    for f in &out.found {
        println!("FINDING {}: {}", f.key, f.what);
    }
    i32::from(!out.found.is_empty())
}
