//! Verification app for the `closure` engine (C13): bounded logical state, and a counted RAII
//! token inside every task, effect payload and event the app creates.
//!
//! The same Command-API `update` logic is hosted twice: by a `Bridge` (Effect from
//! `#[derive(Effect)]`, legacy capabilities available) and directly by the harness (Effect from
//! the `#[effect]` attribute macro, `Capabilities = ()`), where `Command::verif_live_tasks` can be
//! read.

use std::cell::Cell;
use std::time::Duration;

use crux_core::capability::{CapabilityContext, Operation};
use crux_core::macros::{effect, Capability, Effect};
use crux_core::render::{Render, RenderOperation};
use crux_core::{Command, Request};
use crux_time::command::{Time as TimeCmd, TimerHandle, TimerOutcome};
use crux_time::{Time, TimeRequest, TimeResponse, TimerId};
use serde::{Deserialize, Serialize};

// ---------------------------------------------------------------------------------------------
// drop tokens (per thread: every history runs on one thread)

thread_local! {
    static LIVE: Cell<i64> = const { Cell::new(0) };
    static SAT: Cell<u8> = const { Cell::new(1) };
}

pub fn live_tokens() -> i64 {
    LIVE.with(|l| l.get())
}

/// Counters in the model saturate at this value (bounds the logical state).
pub fn set_saturation(n: u8) {
    SAT.with(|s| s.set(n));
}

fn sat_inc(c: &mut u8) {
    let m = SAT.with(|s| s.get());
    if *c < m {
        *c += 1;
    }
}

#[derive(Debug)]
pub struct Token(());

impl Token {
    pub fn new() -> Token {
        LIVE.with(|l| l.set(l.get() + 1));
        Token(())
    }
}
impl Drop for Token {
    fn drop(&mut self) {
        LIVE.with(|l| l.set(l.get() - 1));
    }
}
impl Clone for Token {
    fn clone(&self) -> Token {
        Token::new()
    }
}
impl PartialEq for Token {
    fn eq(&self, _: &Token) -> bool {
        true
    }
}
impl Serialize for Token {
    fn serialize<S: serde::Serializer>(&self, s: S) -> Result<S::Ok, S::Error> {
        s.serialize_unit()
    }
}
impl<'de> Deserialize<'de> for Token {
    fn deserialize<D: serde::Deserializer<'de>>(d: D) -> Result<Token, D::Error> {
        <()>::deserialize(d)?;
        Ok(Token::new())
    }
}

// ---------------------------------------------------------------------------------------------
// capability

#[derive(Clone, Debug, PartialEq, Serialize, Deserialize)]
pub enum COp {
    Ask(Token),
    Watch(Token),
}

#[derive(Debug, Serialize, Deserialize)]
pub struct COut(pub u8, pub Token);

impl Operation for COp {
    type Output = COut;
}

#[derive(Capability)]
pub struct CTiny<Ev> {
    context: CapabilityContext<COp, Ev>,
}

impl<Ev: 'static> CTiny<Ev> {
    pub fn new(context: CapabilityContext<COp, Ev>) -> Self {
        Self { context }
    }
    pub fn ask<F>(&self, callback: F)
    where
        F: FnOnce(COut) -> Ev + Send + 'static,
    {
        self.context.spawn({
            let context = self.context.clone();
            async move {
                let out = context.request_from_shell(COp::Ask(Token::new())).await;
                context.update_app(callback(out));
            }
        });
    }

    /// A task that builds the request future (a drop-token inside the operation), does not
    /// await it - "cache hit" - emits its event and ends. Nothing reaches the shell.
    pub fn ask_unpolled<F>(&self, callback: F)
    where
        F: FnOnce() -> Ev + Send + 'static,
    {
        self.context.spawn({
            let context = self.context.clone();
            async move {
                let _never_awaited = context.request_from_shell(COp::Ask(Token::new()));
                context.update_app(callback());
            }
        });
    }

    /// A race the request loses before its first poll: `select` polls the ready branch first.
    pub fn select_unpolled<F>(&self, callback: F)
    where
        F: FnOnce() -> Ev + Send + 'static,
    {
        self.context.spawn({
            let context = self.context.clone();
            async move {
                let request = context.request_from_shell(COp::Ask(Token::new()));
                let _ = futures::future::select(futures::future::ready(()), request).await;
                context.update_app(callback());
            }
        });
    }
}

// ---------------------------------------------------------------------------------------------
// events, model

#[derive(Serialize, Deserialize, Debug)]
pub enum CEvent {
    /// Command-API one-shot
    ReqC(Token),
    /// legacy-API one-shot (hosts with capabilities only)
    ReqL(Token),
    /// task that spawns a child awaiting a shell request, awaits the child's JoinHandle, then
    /// sends an event
    ReqJ(Token),
    /// one task awaiting `select` over two shell requests
    ReqS(Token),
    /// a command that aborts itself: task B: request -> event; task A: request, then the
    /// command's own AbortHandle ("first to finish wins"), no output
    ReqA(Token),
    /// request.then_stream(..).then_send(..): the stream is a finite local one made from the
    /// answer (no further shell traffic)
    ReqT(Token),
    /// request.then_stream(..) consumed by hand inside Command::new
    ReqU(Token),
    /// request.then_request(..).then_stream(..).then_send(..)
    ReqV(Token),
    /// spawn-then-self-abort, immediately: task X `ctx.spawn`s a child (capturing a token) and
    /// aborts its own command in one poll, with a sibling task Z ready behind it in the same pass
    ReqSA0,
    /// the same after a request: X awaits request a, wakes the sibling Z (a channel Z awaits),
    /// `ctx.spawn`s a child capturing a token and calls the command's own AbortHandle
    ReqSA(Token),
    /// nothing: one further core call
    Noop,
    Sub(Token),
    Unsub,
    /// legacy render (bridge host) / Command-API render (direct host)
    Render,
    CTimerSet,
    CTimerClear,
    /// legacy timer (bridge host only)
    LTimerSet,
    LTimerClear,
    /// legacy: a request future built and never polled (hosts with capabilities)
    LReqUnpolled(Token),
    /// legacy: select(ready, request) - the request is never polled
    LSelUnpolled(Token),
    /// legacy notify_after + clear(id) inside one update: the timer future returns Cleared
    /// without ever polling its request
    LTimerSetCleared,
    #[serde(skip)]
    Got(COut, Token),
    #[serde(skip)]
    Joined(Token),
    #[serde(skip)]
    Item(COut),
    #[serde(skip)]
    CTimerDone(TimerOutcome, Token),
    #[serde(skip)]
    LTimerDone(TimeResponse, Token),
}

#[derive(Default)]
pub struct CModel {
    pub got: u8,
    pub items: u8,
    pub renders: u8,
    pub timers_done: u8,
    pub sub: Option<Box<dyn Fn() + Send + Sync>>,
    pub ctimer: Option<TimerHandle>,
    pub ltimer: Option<TimerId>,
}

#[derive(Serialize, Deserialize, Debug, Clone, PartialEq, Eq, PartialOrd, Ord)]
pub struct CView {
    pub got: u8,
    pub items: u8,
    pub renders: u8,
    pub timers_done: u8,
    pub subscribed: bool,
    pub ctimer: bool,
    pub ltimer: bool,
}

pub fn view_of(m: &CModel) -> CView {
    CView {
        got: m.got,
        items: m.items,
        renders: m.renders,
        timers_done: m.timers_done,
        subscribed: m.sub.is_some(),
        ctimer: m.ctimer.is_some(),
        ltimer: m.ltimer.is_some(),
    }
}

/// The Command-API part of `update`, shared by both hosts. `Err(event)` = not handled here.
pub fn update_cmd<Ef>(event: CEvent, model: &mut CModel) -> Result<Command<Ef, CEvent>, CEvent>
where
    Ef: From<Request<COp>> + From<Request<TimeRequest>> + Send + 'static,
{
    Ok(match event {
        CEvent::ReqC(tok) => {
            // one token in the payload, one captured by the continuation
            Command::request_from_shell(COp::Ask(Token::new()))
                .then_send(move |o| CEvent::Got(o, tok))
        }
        CEvent::ReqJ(tok) => Command::new(|ctx| async move {
            let child_tok = Token::new();
            let child = ctx.spawn(|ctx| async move {
                let out = ctx.request_from_shell(COp::Ask(Token::new())).await;
                ctx.send_event(CEvent::Got(out, child_tok));
            });
            child.await;
            ctx.send_event(CEvent::Joined(tok));
        }),
        CEvent::ReqS(tok) => Command::new(|ctx| async move {
            let a = ctx.request_from_shell(COp::Ask(Token::new()));
            let b = ctx.request_from_shell(COp::Ask(Token::new()));
            let out = match futures::future::select(a, b).await {
                futures::future::Either::Left((o, _)) | futures::future::Either::Right((o, _)) => o,
            };
            ctx.send_event(CEvent::Got(out, tok));
        }),
        CEvent::ReqA(tok_b) => {
            let mut cmd = Command::request_from_shell(COp::Ask(Token::new()))
                .then_send(move |o| CEvent::Got(o, tok_b));
            let own = cmd.abort_handle();
            let tok_a = Token::new();
            cmd.spawn(move |ctx| async move {
                let _held = tok_a;
                let _out = ctx.request_from_shell(COp::Ask(Token::new())).await;
                // first to finish wins: cancel whatever else this command is still doing
                own.abort();
            });
            cmd
        }
        CEvent::ReqT(tok) => Command::request_from_shell(COp::Ask(Token::new()))
            .then_stream(|out: COut| {
                crux_core::command::StreamBuilder::new(move |_ctx| futures::stream::iter(vec![out]))
            })
            .then_send(move |o| {
                let _held = &tok;
                CEvent::Got(o, Token::new())
            }),
        CEvent::ReqU(tok) => {
            let builder = Command::request_from_shell(COp::Ask(Token::new())).then_stream(
                |out: COut| {
                    crux_core::command::StreamBuilder::new(move |_ctx| {
                        futures::stream::iter(vec![out])
                    })
                },
            );
            Command::new(|ctx| async move {
                let _held = tok;
                let mut stream = std::pin::pin!(builder.into_stream(ctx.clone()));
                while let Some(o) = futures::StreamExt::next(&mut stream).await {
                    ctx.send_event(CEvent::Got(o, Token::new()));
                }
            })
        }
        CEvent::ReqV(tok) => Command::request_from_shell(COp::Ask(Token::new()))
            .then_request(|_first: COut| Command::request_from_shell(COp::Ask(Token::new())))
            .then_stream(|out: COut| {
                crux_core::command::StreamBuilder::new(move |_ctx| futures::stream::iter(vec![out]))
            })
            .then_send(move |o| {
                let _held = &tok;
                CEvent::Got(o, Token::new())
            }),
        CEvent::ReqSA0 => {
            let mut cmd = Command::done();
            let own = cmd.abort_handle();
            cmd.spawn(move |ctx| async move {
                let child_tok = Token::new();
                ctx.spawn(move |_ctx| async move {
                    let _held = child_tok;
                });
                own.abort();
            });
            cmd.spawn(|_ctx| async move {});
            cmd
        }
        CEvent::ReqSA(tok_x) => {
            let mut cmd = Command::done();
            let own = cmd.abort_handle();
            let (tx, rx) = futures::channel::oneshot::channel::<()>();
            cmd.spawn(move |ctx| async move {
                let _held = tok_x;
                let _v = ctx.request_from_shell(COp::Ask(Token::new())).await;
                // the sibling is woken by the same answer and queued behind this task
                let _ = tx.send(());
                let child_tok = Token::new();
                ctx.spawn(move |_ctx| async move {
                    let _held = child_tok;
                });
                own.abort();
            });
            cmd.spawn(move |_ctx| async move {
                let _ = rx.await;
            });
            cmd
        }
        CEvent::Noop => Command::done(),
        CEvent::Joined(_tok) => {
            sat_inc(&mut model.got);
            Command::done()
        }
        CEvent::Sub(tok) => {
            if model.sub.is_some() {
                return Ok(Command::done());
            }
            let cmd = Command::stream_from_shell(COp::Watch(Token::new())).then_send(move |o| {
                let _held = &tok;
                CEvent::Item(o)
            });
            let h = cmd.abort_handle();
            model.sub = Some(Box::new(move || h.abort()));
            cmd
        }
        CEvent::Unsub => {
            if let Some(abort) = model.sub.take() {
                abort();
            }
            Command::done()
        }
        CEvent::CTimerSet => {
            if model.ctimer.is_some() {
                return Ok(Command::done());
            }
            let (builder, handle) = TimeCmd::notify_after(Duration::from_millis(100));
            model.ctimer = Some(handle);
            let tok = Token::new();
            builder.then_send(move |o| CEvent::CTimerDone(o, tok))
        }
        CEvent::CTimerClear => {
            if let Some(h) = model.ctimer.take() {
                h.clear();
            }
            Command::done()
        }
        CEvent::Got(_out, _tok) => {
            sat_inc(&mut model.got);
            Command::done()
        }
        CEvent::Item(_out) => {
            sat_inc(&mut model.items);
            Command::done()
        }
        CEvent::CTimerDone(_outcome, _tok) => {
            sat_inc(&mut model.timers_done);
            // the handle of a finished timer is stale; dropping it wakes nobody that matters
            model.ctimer = None;
            Command::done()
        }
        other => return Err(other),
    })
}

// ---------------------------------------------------------------------------------------------
// host 1: Bridge / Core, Effect from #[derive(Effect)]

#[derive(Effect)]
pub struct CCaps {
    pub render: Render<CEvent>,
    pub time: Time<CEvent>,
    pub ctiny: CTiny<CEvent>,
}

#[derive(Default)]
pub struct CApp;

impl crux_core::App for CApp {
    type Event = CEvent;
    type Model = CModel;
    type ViewModel = CView;
    type Capabilities = CCaps;
    type Effect = Effect;

    fn update(&self, event: CEvent, model: &mut CModel, caps: &CCaps) -> Command<Effect, CEvent> {
        match update_cmd::<Effect>(event, model) {
            Ok(cmd) => cmd,
            Err(CEvent::ReqL(tok)) => {
                caps.ctiny.ask(move |o| CEvent::Got(o, tok));
                Command::done()
            }
            Err(CEvent::Render) => {
                sat_inc(&mut model.renders);
                caps.render.render();
                Command::done()
            }
            Err(CEvent::LReqUnpolled(tok)) => {
                caps.ctiny.ask_unpolled(move || CEvent::Joined(tok));
                Command::done()
            }
            Err(CEvent::LSelUnpolled(tok)) => {
                caps.ctiny.select_unpolled(move || CEvent::Joined(tok));
                Command::done()
            }
            Err(CEvent::LTimerSetCleared) => {
                // the Time capability is mapped through a closure of ours that owns a token:
                // whatever keeps a clone of that capability context alive keeps the token alive
                let ctx_tok = Token::new();
                let time = crux_core::Capability::map_event(&caps.time, move |e: CEvent| {
                    let _owned = &ctx_tok;
                    e
                });
                let tok = Token::new();
                let id = time
                    .notify_after(Duration::from_millis(200), move |r| CEvent::LTimerDone(r, tok));
                time.clear(id);
                model.ltimer = None;
                Command::done()
            }
            Err(CEvent::LTimerSet) => {
                let tok = Token::new();
                let id = caps
                    .time
                    .notify_after(Duration::from_millis(200), move |r| CEvent::LTimerDone(r, tok));
                model.ltimer = Some(id);
                Command::done()
            }
            Err(CEvent::LTimerClear) => {
                if let Some(id) = model.ltimer.take() {
                    caps.time.clear(id);
                }
                Command::done()
            }
            Err(CEvent::LTimerDone(_resp, _tok)) => {
                sat_inc(&mut model.timers_done);
                // the id is kept: the app may still call clear() for a timer that has finished
                Command::done()
            }
            Err(_) => Command::done(),
        }
    }

    fn view(&self, model: &CModel) -> CView {
        view_of(model)
    }
}

// ---------------------------------------------------------------------------------------------
// host 2: the harness holds the Commands; Effect from the #[effect] attribute macro

#[effect]
pub enum Effect2 {
    CTiny(COp),
    Render(RenderOperation),
    Time(TimeRequest),
}

#[derive(Default)]
pub struct CApp2;

impl crux_core::App for CApp2 {
    type Event = CEvent;
    type Model = CModel;
    type ViewModel = CView;
    type Capabilities = ();
    type Effect = Effect2;

    fn update(&self, event: CEvent, model: &mut CModel, _caps: &()) -> Command<Effect2, CEvent> {
        match update_cmd::<Effect2>(event, model) {
            Ok(cmd) => cmd,
            Err(CEvent::Render) => {
                sat_inc(&mut model.renders);
                crux_core::render::render()
            }
            Err(_) => Command::done(),
        }
    }

    fn view(&self, model: &CModel) -> CView {
        view_of(model)
    }
}
