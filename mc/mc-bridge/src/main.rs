fn main() { eprintln!("engine not built yet"); std::process::exit(2); }
