//! mc-bridge: engines `bridgex` (C09, C12, C11) and `closure` (C13).
//! Usage: mc-bridge <C09|C11|C12|C13> --tier quick|thorough [--replay <path>]

mod app;
mod c09;
mod c09_shapes;
mod c11;
mod c12;
mod c13;
mod capp;
mod explore;
mod fault;
mod label;
mod faultsys;
mod sys;
mod watch;

#[global_allocator]
static ALLOC: mc_kit::alloc::Counting = mc_kit::alloc::Counting;

fn main() {
    // captured panics are findings, not crashes: no backtrace capture (std, anyhow, http-types)
    std::env::set_var("RUST_BACKTRACE", "0");
    std::env::set_var("RUST_LIB_BACKTRACE", "0");
    let args: Vec<String> = std::env::args().skip(1).collect();
    mc_kit::install_panic_hook();
    let Some(id) = args.first().cloned() else {
        eprintln!("usage: mc-bridge <C09|C11|C12|C13> --tier quick|thorough [--replay <path>]");
        std::process::exit(2);
    };
    let tier = mc_kit::Tier::from_args(&args);
    let replay = mc_kit::arg_value(&args, "--replay");
    let code = match (id.as_str(), replay) {
        ("C09", Some(p)) => c09::replay_file(&p),
        ("C09", None) => c09::run(tier, &args),
        ("C11", Some(p)) => c11::replay_file(&p),
        ("C11", None) => c11::run(tier, &args),
        ("C11-child", _) => c11::child(&args),
        // the whole C12 invocation runs in a guarded child: an input that makes the subject ask
        // for an absurd allocation aborts that child, and the parent reports the input
        ("C12", Some(p)) => mc_kit::guarded::run("C12", tier, || c12::replay_file(&p)),
        ("C12", None) => mc_kit::guarded::run("C12", tier, || c12::run(tier, &args)),
        ("C13", Some(p)) => c13::replay_file(&p),
        ("C13", None) => c13::run(tier, &args),
        ("C13-host", _) => c13::host_child(&args),
        _ => {
            eprintln!("MACHINERY-ERROR: unknown property {id}");
            2
        }
    };
    std::process::exit(code);
}
