//! Verification app for the `bridgex` engine (C09, C12, C11).
//!
//! Capabilities: Render, Http, KeyValue, Time, Platform and the tiny custom capability `Tiny`
//! (small payloads keep encodings short). Both the legacy capability API (`caps.*`) and the
//! Command API are used. Every continuation writes "site <- value" into the model's log, so the
//! view shows who received what.
//!
//! Shell-facing events come first in `Event`; events only the app itself creates are
//! `#[serde(skip)]` and come last (a skipped variant in the middle would shift serde's variant
//! indices - see DESIGN C10).

use std::time::{Duration, SystemTime};

use crux_core::capability::{CapabilityContext, Operation};
use crux_core::macros::{Capability, Effect};
use crux_core::render::{render, Render};
use crux_core::Command;
use crux_http::command::Http as HttpCmd;
use crux_http::middleware::Redirect;
use crux_http::Http;
use crux_kv::command::KeyValue as KvCmd;
use crux_kv::error::KeyValueError;
use crux_kv::KeyValue;
use crux_platform::{Platform, PlatformResponse};
use crux_time::command::{Time as TimeCmd, TimerHandle, TimerOutcome};
use crux_time::{Time, TimeResponse, TimerId};
use futures::StreamExt;
use serde::{Deserialize, Serialize};

// ---------------------------------------------------------------------------------------------
// the tiny custom capability

#[derive(Clone, Debug, PartialEq, Eq, Serialize, Deserialize)]
pub enum TinyOp {
    Ask(u8),
    Watch(u8),
    Note(u8),
    /// question number of a burst request
    AskN(u16),
    /// an operation whose serialization fails for one particular value
    Weird(Fussy),
}

/// Serializes like a u8 - except for the value 13, for which `Serialize` returns an error (the
/// way a SystemTime before the epoch or a non-UTF-8 path does).
#[derive(Clone, Copy, Debug, PartialEq, Eq, Default, Deserialize)]
pub struct Fussy(pub u8);

pub const FUSSY_MARKER: u8 = 13;

impl Serialize for Fussy {
    fn serialize<S: serde::Serializer>(&self, s: S) -> Result<S::Ok, S::Error> {
        if self.0 == FUSSY_MARKER {
            Err(serde::ser::Error::custom("this value cannot be serialized"))
        } else {
            s.serialize_u8(self.0)
        }
    }
}

#[derive(Clone, Debug, PartialEq, Eq, Serialize, Deserialize)]
pub struct TinyOut(pub u16);

impl Operation for TinyOp {
    type Output = TinyOut;
}

#[derive(Capability)]
pub struct Tiny<Ev> {
    context: CapabilityContext<TinyOp, Ev>,
}

impl<Ev: 'static> Tiny<Ev> {
    pub fn new(context: CapabilityContext<TinyOp, Ev>) -> Self {
        Self { context }
    }

    pub fn ask<F>(&self, n: u8, callback: F)
    where
        F: FnOnce(TinyOut) -> Ev + Send + 'static,
    {
        self.context.spawn({
            let context = self.context.clone();
            async move {
                let out = context.request_from_shell(TinyOp::Ask(n)).await;
                context.update_app(callback(out));
            }
        });
    }

    #[allow(dead_code)]
    pub fn watch<F>(&self, n: u8, callback: F)
    where
        F: Fn(TinyOut) -> Ev + Send + 'static,
    {
        self.context.spawn({
            let context = self.context.clone();
            async move {
                let mut stream = context.stream_from_shell(TinyOp::Watch(n));
                while let Some(out) = stream.next().await {
                    context.update_app(callback(out));
                }
            }
        });
    }

    #[allow(dead_code)]
    pub fn note(&self, n: u8) {
        self.context.spawn({
            let context = self.context.clone();
            async move {
                context.notify_shell(TinyOp::Note(n)).await;
            }
        });
    }
}

// ---------------------------------------------------------------------------------------------
// the app

#[derive(Effect)]
pub struct Capabilities {
    pub render: Render<Event>,
    pub http: Http<Event>,
    pub kv: KeyValue<Event>,
    pub time: Time<Event>,
    pub platform: Platform<Event>,
    pub tiny: Tiny<Event>,
}

/// Number of shell-facing variants (the menu).
pub const MENU: usize = 16;
pub const MENU_NAMES: [&str; MENU] = [
    "Single", "Two", "Sub", "Chain", "Render", "Timer", "LTimer", "Kv", "Http", "Legacy", "Quiet",
    "FailTwo", "FailOne", "FussyView", "TwoQuiet", "ThreeQuiet",
];

/// Render-free menu: no event of it (and no continuation) ever renders or notifies, so the
/// bridge's registry never holds a `Never` entry in histories made of these events only.
pub fn render_free_menu() -> Vec<usize> {
    vec![14, 15, 0, 10]
}

/// The ten effectful menu events (the main explorations); `Quiet` (index 10) joins the
/// reduced-menu deep run of C09.
pub fn main_menu() -> Vec<usize> {
    (0..10).collect()
}

#[derive(Serialize, Deserialize, Debug)]
pub enum Event {
    // ---- shell-facing menu -------------------------------------------------------------------
    /// one request through the legacy capability API (site 1)
    Single,
    /// two concurrent look-alike requests (sites 2 and 3: identical payloads) plus a render
    Two,
    /// toggles a subscription (site 4): start (the consumer ends by itself after two items),
    /// or abort the live one via its AbortHandle
    Sub,
    /// (request -> request -> event (sites 5, 6), whose update answers with a further legacy
    /// effect).then(request -> event (site 7))
    Chain,
    /// render only (legacy capability)
    Render,
    /// Command-API timer: clears the previous handle (if any) and sets a new timer
    Timer,
    /// legacy timers: clears the two previous legacy timers (if any) and sets two new ones
    LTimer,
    /// key-value set (Command API) with shell-provided key and value; the answer triggers a
    /// legacy `get` plus a render
    Kv(String, #[serde(with = "serde_bytes")] Vec<u8>),
    /// HTTP GET with six headers (Command API); the answer triggers a notification
    Http,
    /// legacy Platform request (whose answer triggers a legacy GET with six headers through
    /// `Redirect::default()`) + legacy HTTP POST with 43 header lines (12 names with three
    /// values each) and a body through `Redirect::new(2)`
    Legacy,
    /// only mutates the model: no effect at all, not even a render
    Quiet,
    /// [ordinary request, request whose operation cannot be serialized] in one batch
    FailTwo,
    /// a request whose operation cannot be serialized, alone
    FailOne,
    /// toggles a model state whose VIEW cannot be serialized (no effect)
    FussyView,
    /// two parallel one-shot requests, no render, continuations only log
    TwoQuiet,
    /// three parallel one-shot requests, no render, continuations only log
    ThreeQuiet,
    /// burst(n): n one-shot requests at once, each continuation folds (question, answer) into
    /// the view. Not part of the explored menus: used by C09's scripted scale family.
    Burst(u16),
    // ---- app-internal, but deserializable (they widen the decode surface for C12) ------------
    GotHttp(crux_http::Result<crux_http::Response<Vec<u8>>>),
    GotKvSet(Result<Option<Vec<u8>>, KeyValueError>),
    // ---- app-internal, not serializable: last ------------------------------------------------
    #[serde(skip)]
    Got(u8, TinyOut),
    #[serde(skip)]
    GotN(u16, TinyOut),
    #[serde(skip)]
    GotChain(TinyOut, TinyOut),
    #[serde(skip)]
    GotKvGet(Result<Option<Vec<u8>>, KeyValueError>),
    #[serde(skip)]
    GotHttpL(crux_http::Result<crux_http::Response<Vec<u8>>>),
    #[serde(skip)]
    GotPlatform(PlatformResponse),
    #[serde(skip)]
    GotNow(TimeResponse),
    #[serde(skip)]
    TimerDone(u32, TimerOutcome),
    #[serde(skip)]
    LTimerDone(TimeResponse),
}

pub fn menu_event(i: usize) -> Event {
    match i {
        0 => Event::Single,
        1 => Event::Two,
        2 => Event::Sub,
        3 => Event::Chain,
        4 => Event::Render,
        5 => Event::Timer,
        6 => Event::LTimer,
        7 => Event::Kv("k1".to_string(), vec![7, 8]),
        8 => Event::Http,
        9 => Event::Legacy,
        10 => Event::Quiet,
        11 => Event::FailTwo,
        12 => Event::FailOne,
        13 => Event::FussyView,
        14 => Event::TwoQuiet,
        15 => Event::ThreeQuiet,
        _ => panic!("no such menu event"),
    }
}

#[derive(Default)]
pub struct Model {
    log: Vec<String>,
    renders: u32,
    quiet: u32,
    burst_answers: u32,
    burst_digest: u64,
    fussy_view: bool,
    sub: Option<Box<dyn Fn() + Send + Sync>>,
    ctimer: Option<TimerHandle>,
    ctimers_made: u32,
    ltimers_live: Vec<TimerId>,
    ltimers_all: Vec<TimerId>,
}

#[derive(Serialize, Deserialize, Debug, Clone, PartialEq, Eq)]
pub struct ViewModel {
    pub log: Vec<String>,
    pub renders: u32,
    pub quiet: u32,
    /// answers to burst requests so far, and an order-sensitive fold of every
    /// (question, answer) pair: any answer reaching another continuation changes it
    pub burst: (u32, u64),
    /// `Fussy(13)` while the model is in the state whose view cannot be serialized
    pub fussy: Fussy,
    pub subscribed: bool,
    pub timers: (u32, u32),
}

#[derive(Default)]
pub struct App;

/// Program selection (set once, before any exploration thread starts): with redirects on, the
/// legacy POST and a legacy GET go through crux_http's `Redirect` middleware and the shell answers
/// HTTP requests with 301/302/307 + Location as well. C11 runs with it on; C09 and C12 leave it
/// off (redirects are C16's subject and every HTTP exchange multiplies C12's fault families).
pub static REDIRECTS: std::sync::atomic::AtomicBool = std::sync::atomic::AtomicBool::new(false);

pub fn redirects() -> bool {
    REDIRECTS.load(std::sync::atomic::Ordering::Relaxed)
}

/// 12 names with three values each (given in an order that is NOT sorted) and 4 single-valued
/// names: with h-one, h-two and the content type the legacy POST carries 43 header lines.
pub fn many_headers() -> Vec<(String, Vec<crux_http::http::headers::HeaderValue>)> {
    use std::str::FromStr;
    let hv = |s: &str| crux_http::http::headers::HeaderValue::from_str(s).expect("ascii");
    let mut v = vec![];
    for i in 0..12 {
        v.push((
            format!("m-{i:02}"),
            vec![hv(&format!("m{i}")), hv("a"), hv(&format!("z{i}"))],
        ));
    }
    for i in 0..4 {
        v.push((format!("s-{i}"), vec![hv(&format!("{i}"))]));
    }
    v
}

fn show_http(site: &str, res: crux_http::Result<crux_http::Response<Vec<u8>>>) -> String {
    match res {
        Ok(mut r) => {
            // names sorted (the response keeps them in a hash map), but the values of every name
            // in the order the response holds them: that order is observable (`.last()`, the
            // content type, the charset the body is decoded with)
            let mut hs: Vec<String> = r
                .iter()
                .map(|(n, vs)| {
                    let vals: Vec<&str> = vs.iter().map(|v| v.as_str()).collect();
                    format!("{n}:{}", vals.join("|"))
                })
                .collect();
            hs.sort();
            let status = u16::from(r.status());
            let body = r.body().cloned();
            let content_type = r.content_type().map(|m| m.to_string());
            let text = r.body_string();
            format!("{site}<-http {status} {hs:?} {body:?} type {content_type:?} text {text:?}")
        }
        Err(e) => format!("{site}<-http error {e:?}"),
    }
}

impl crux_core::App for App {
    type Event = Event;
    type Model = Model;
    type ViewModel = ViewModel;
    type Capabilities = Capabilities;
    type Effect = Effect;

    fn update(
        &self,
        event: Event,
        model: &mut Model,
        caps: &Capabilities,
    ) -> Command<Effect, Event> {
        match event {
            Event::Single => {
                caps.tiny.ask(1, |o| Event::Got(1, o));
                Command::done()
            }
            Event::Two => Command::all([
                Command::request_from_shell(TinyOp::Ask(2)).then_send(|o| Event::Got(2, o)),
                Command::request_from_shell(TinyOp::Ask(2)).then_send(|o| Event::Got(3, o)),
                render(),
            ]),
            Event::Sub => match model.sub.take() {
                Some(abort) => {
                    abort();
                    model.log.push("unsub".into());
                    Command::done()
                }
                None => {
                    // the consumer takes two items and ends by itself (a later item is answered
                    // FinishedMany and the id becomes free for the next request); it can also
                    // be aborted before that
                    let cmd = Command::new(|ctx| async move {
                        let mut stream = ctx.stream_from_shell(TinyOp::Watch(3));
                        let mut taken = 0;
                        while let Some(o) = stream.next().await {
                            ctx.send_event(Event::Got(4, o));
                            taken += 1;
                            if taken == 2 {
                                break;
                            }
                        }
                    });
                    let handle = cmd.abort_handle();
                    model.sub = Some(Box::new(move || handle.abort()));
                    cmd
                }
            },
            // (request -> request -> event) THEN (request -> event): the second command starts
            // when the first is done - also when the first is done because the shell dropped
            // its request
            Event::Chain => Command::request_from_shell(TinyOp::Ask(4))
                .then_request(|a| Command::request_from_shell(TinyOp::Ask(5)).map(move |b| (a, b)))
                .then_send(|(a, b)| Event::GotChain(a, b))
                .then(
                    Command::request_from_shell(TinyOp::Ask(6)).then_send(|o| Event::Got(7, o)),
                ),
            Event::Burst(n) => Command::all((0..n).map(|q| {
                Command::request_from_shell(TinyOp::AskN(q)).then_send(move |o| Event::GotN(q, o))
            })),
            Event::GotN(q, out) => {
                model.burst_answers += 1;
                model.burst_digest = model
                    .burst_digest
                    .wrapping_mul(0x100000001b3)
                    .wrapping_add((u64::from(q) << 16) | u64::from(out.0));
                Command::done()
            }
            Event::TwoQuiet => Command::all([
                Command::request_from_shell(TinyOp::Ask(10)).then_send(|o| Event::Got(10, o)),
                Command::request_from_shell(TinyOp::Ask(11)).then_send(|o| Event::Got(11, o)),
            ]),
            Event::ThreeQuiet => Command::all([
                Command::request_from_shell(TinyOp::Ask(12)).then_send(|o| Event::Got(12, o)),
                Command::request_from_shell(TinyOp::Ask(13)).then_send(|o| Event::Got(13, o)),
                Command::request_from_shell(TinyOp::Ask(14)).then_send(|o| Event::Got(14, o)),
            ]),
            Event::FailTwo => Command::all([
                Command::request_from_shell(TinyOp::Ask(8)).then_send(|o| Event::Got(8, o)),
                Command::request_from_shell(TinyOp::Weird(Fussy(FUSSY_MARKER)))
                    .then_send(|o| Event::Got(9, o)),
            ]),
            Event::FailOne => Command::request_from_shell(TinyOp::Weird(Fussy(FUSSY_MARKER)))
                .then_send(|o| Event::Got(9, o)),
            Event::FussyView => {
                model.fussy_view = !model.fussy_view;
                Command::done()
            }
            Event::Quiet => {
                model.quiet += 1;
                Command::done()
            }
            Event::Render => {
                model.renders += 1;
                caps.render.render();
                Command::done()
            }
            Event::Timer => {
                if let Some(h) = model.ctimer.take() {
                    // a no-op if that timer has already finished
                    h.clear();
                }
                let n = model.ctimers_made;
                model.ctimers_made += 1;
                let (builder, handle) =
                    TimeCmd::notify_after(Duration::from_millis(1000 + u64::from(n)));
                model.ctimer = Some(handle);
                builder.then_send(move |o| Event::TimerDone(n, o))
            }
            Event::LTimer => {
                for id in std::mem::take(&mut model.ltimers_live) {
                    caps.time.clear(id);
                }
                for _ in 0..2 {
                    let n = model.ltimers_all.len() as u64;
                    let id = caps.time.notify_at(
                        SystemTime::UNIX_EPOCH + Duration::from_secs(5000 + n),
                        Event::LTimerDone,
                    );
                    model.ltimers_live.push(id);
                    model.ltimers_all.push(id);
                }
                Command::done()
            }
            Event::Kv(key, value) => KvCmd::set(key, value).then_send(Event::GotKvSet),
            Event::Http => HttpCmd::get("https://example.com/a?b=1")
                .header("x-alpha", "1")
                .header("x-bravo", "2")
                .header("x-charlie", "3")
                .header("x-delta", "4")
                .header("x-echo", "5")
                .header("x-foxtrot", "6")
                .build()
                .then_send(Event::GotHttp),
            Event::Legacy => {
                caps.platform.get(Event::GotPlatform);
                let mut post = caps
                    .http
                    .post("https://example.com/p")
                    .header("h-one", "v")
                    .header("h-two", "w");
                for (name, values) in many_headers() {
                    post = post.header(name.as_str(), &values[..]);
                }
                // with the redirect middleware: body-less probes (up to two) before the request
                if redirects() {
                    post = post.middleware(Redirect::new(2));
                }
                post.body_bytes([1u8, 2, 3]).send(Event::GotHttpL);
                Command::done()
            }
            Event::Got(site, out) => {
                model.log.push(format!("s{site}<-{}", out.0));
                Command::done()
            }
            Event::GotChain(a, b) => {
                model.log.push(format!("s5<-{} s6<-{}", a.0, b.0));
                caps.time.now(Event::GotNow);
                Command::done()
            }
            Event::GotKvSet(res) => {
                model.log.push(format!("kvset<-{res:?}"));
                caps.kv.get("k2".to_string(), Event::GotKvGet);
                render()
            }
            Event::GotKvGet(res) => {
                model.log.push(format!("kvget<-{res:?}"));
                Command::done()
            }
            Event::GotHttp(res) => {
                model.log.push(show_http("http", res));
                Command::notify_shell(TinyOp::Note(9)).into()
            }
            Event::GotHttpL(res) => {
                model.log.push(show_http("httpL", res));
                Command::done()
            }
            Event::GotPlatform(p) => {
                model.log.push(format!("platform<-{}", p.0));
                // GET with six headers through the redirect middleware (capability API: the
                // Command API ignores middleware, K7)
                if !redirects() {
                    return Command::done();
                }
                caps.http
                    .get("https://example.com/g/start")
                    .header("x-alpha", "1")
                    .header("x-bravo", "2")
                    .header("x-charlie", "3")
                    .header("x-delta", "4")
                    .header("x-echo", "5")
                    .header("x-foxtrot", "6")
                    .middleware(Redirect::default())
                    .send(Event::GotHttpL);
                Command::done()
            }
            Event::GotNow(t) => {
                // no timer ids in the view: they come from a process-wide counter
                model.log.push(match t {
                    TimeResponse::Now { instant } => format!("now<-{instant:?}"),
                    TimeResponse::InstantArrived { .. } => "now<-(arrived)".into(),
                    TimeResponse::DurationElapsed { .. } => "now<-(elapsed)".into(),
                    TimeResponse::Cleared { .. } => "now<-(cleared)".into(),
                });
                Command::done()
            }
            Event::TimerDone(n, outcome) => {
                let what = match outcome {
                    TimerOutcome::Completed(_) => "completed",
                    TimerOutcome::Cleared => "cleared",
                };
                model.log.push(format!("timer{n}<-{what}"));
                Command::done()
            }
            Event::LTimerDone(resp) => {
                let (what, id) = match resp {
                    TimeResponse::Now { .. } => ("now", None),
                    TimeResponse::InstantArrived { id } => ("arrived", Some(id)),
                    TimeResponse::DurationElapsed { id } => ("elapsed", Some(id)),
                    TimeResponse::Cleared { id } => ("cleared", Some(id)),
                };
                // timer ids come from a process-wide counter: show the per-core ordinal instead
                let ordinal = id.and_then(|id| model.ltimers_all.iter().position(|x| *x == id));
                model.ltimers_live.retain(|x| Some(*x) != id);
                model.log.push(format!("ltimer{ordinal:?}<-{what}"));
                Command::done()
            }
        }
    }

    fn view(&self, model: &Model) -> ViewModel {
        ViewModel {
            log: model.log.clone(),
            renders: model.renders,
            quiet: model.quiet,
            burst: (model.burst_answers, model.burst_digest),
            fussy: Fussy(if model.fussy_view { FUSSY_MARKER } else { 0 }),
            subscribed: model.sub.is_some(),
            timers: (model.ctimers_made, model.ltimers_all.len() as u32),
        }
    }
}
