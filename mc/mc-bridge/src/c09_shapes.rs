//! C09, effect-enum shapes: an app whose `#[effect]` enum is *unusual* - two variants over one
//! generic operation type (`StoreRequest<Disk>`, `StoreRequest<Cloud>`), a variant whose name has
//! nothing to do with its operation (`Alias(PingOperation)`), a variant named like *another*
//! operation's stem (`Ping(PingRequest)`), next to the ordinary `Render(RenderOperation)`. The code
//! the macro generates (the FFI enum, its serde form, the pairing of a request with its resolve
//! closure) is part of the bridge; the main C09 app has one conventionally named variant per
//! capability and cannot tell whether that code depends on names.
//!
//! Every event sequence up to the depth bound x every order of answering what is outstanding at
//! the end, on three lanes (typed core, bincode bridge, JSON bridge): the decoded requests of both
//! bridges must be the typed core's after every step (variant, payload, order), ids of outstanding
//! requests pairwise distinct, the decoded view equal at the end.

use std::marker::PhantomData;

use bincode::Options;
use crux_core::bridge::{Bridge, BridgeWithSerializer, Request};
use crux_core::capability::Operation;
use crux_core::macros::effect;
use crux_core::render::{render, RenderOperation};
use crux_core::{Command, Core};
use serde::{Deserialize, Serialize};
use serde_json::json;

#[derive(Debug, Clone, Copy, PartialEq, Eq, Serialize, Deserialize)]
pub struct Disk;
#[derive(Debug, Clone, Copy, PartialEq, Eq, Serialize, Deserialize)]
pub struct Cloud;

#[derive(Debug, Clone, PartialEq, Eq, Serialize, Deserialize)]
pub struct StoreRequest<S> {
    pub key: String,
    #[serde(skip)]
    store: PhantomData<S>,
}

impl<S> StoreRequest<S> {
    fn new(key: &str) -> Self {
        Self { key: key.to_string(), store: PhantomData }
    }
}

impl Operation for StoreRequest<Disk> {
    type Output = String;
}
impl Operation for StoreRequest<Cloud> {
    type Output = String;
}

#[derive(Debug, Clone, PartialEq, Eq, Serialize, Deserialize)]
pub struct PingOperation(pub String);
impl Operation for PingOperation {
    type Output = String;
}

#[derive(Debug, Clone, PartialEq, Eq, Serialize, Deserialize)]
pub struct PingRequest {
    pub to: String,
}
impl Operation for PingRequest {
    type Output = String;
}

#[effect]
pub enum Effect {
    Render(RenderOperation),
    Disk(StoreRequest<Disk>),
    Cloud(StoreRequest<Cloud>),
    Alias(PingOperation),
    Ping(PingRequest),
}

#[derive(Debug, Clone, Serialize, Deserialize)]
pub enum Event {
    Disk(String),
    Cloud(String),
    Alias(String),
    Ping(String),
    /// cloud first, then disk, alias and ping in one batch
    All(String),
    #[serde(skip)]
    Got(u8, String),
}

#[derive(Default)]
pub struct Model {
    log: Vec<(u8, String)>,
}

#[derive(Debug, Default, PartialEq, Eq, Serialize, Deserialize)]
pub struct ViewModel {
    pub log: Vec<(u8, String)>,
}

#[derive(Default)]
pub struct App;

impl crux_core::App for App {
    type Event = Event;
    type Model = Model;
    type ViewModel = ViewModel;
    type Capabilities = ();
    type Effect = Effect;

    fn update(&self, event: Event, model: &mut Model, _caps: &()) -> Command<Effect, Event> {
        let disk = |k: &str| Command::request_from_shell(StoreRequest::<Disk>::new(k)).then_send(|v| Event::Got(1, v));
        let cloud = |k: &str| Command::request_from_shell(StoreRequest::<Cloud>::new(k)).then_send(|v| Event::Got(2, v));
        let alias = |k: &str| Command::request_from_shell(PingOperation(k.to_string())).then_send(|v| Event::Got(3, v));
        let ping = |k: &str| Command::request_from_shell(PingRequest { to: k.to_string() }).then_send(|v| Event::Got(4, v));
        match event {
            Event::Disk(k) => disk(&k),
            Event::Cloud(k) => cloud(&k),
            Event::Alias(k) => alias(&k),
            Event::Ping(k) => ping(&k),
            Event::All(k) => Command::all([cloud(&k), disk(&k), alias(&k), ping(&k)]),
            Event::Got(site, v) => {
                model.log.push((site, v));
                render()
            }
        }
    }

    fn view(&self, model: &Model) -> ViewModel {
        ViewModel { log: model.log.clone() }
    }
}

/// What a shell makes of one request: (variant, payload)
#[derive(Debug, Clone, PartialEq, Eq, PartialOrd, Ord)]
pub enum Seen {
    Render,
    Disk(String),
    Cloud(String),
    Alias(String),
    Ping(String),
}

fn seen_typed(e: &Effect) -> Seen {
    match e {
        Effect::Render(_) => Seen::Render,
        Effect::Disk(r) => Seen::Disk(r.operation.key.clone()),
        Effect::Cloud(r) => Seen::Cloud(r.operation.key.clone()),
        Effect::Alias(r) => Seen::Alias(r.operation.0.clone()),
        Effect::Ping(r) => Seen::Ping(r.operation.to.clone()),
    }
}

fn seen_ffi(e: &EffectFfi) -> Seen {
    match e {
        EffectFfi::Render(_) => Seen::Render,
        EffectFfi::Disk(r) => Seen::Disk(r.key.clone()),
        EffectFfi::Cloud(r) => Seen::Cloud(r.key.clone()),
        EffectFfi::Alias(r) => Seen::Alias(r.0.clone()),
        EffectFfi::Ping(r) => Seen::Ping(r.to.clone()),
    }
}

fn opts() -> impl bincode::Options + Copy {
    bincode::DefaultOptions::new().with_fixint_encoding().allow_trailing_bytes()
}

const MENU: usize = 5;

fn event(i: usize, n: usize) -> Event {
    let k = format!("k{n}");
    match i {
        0 => Event::Disk(k),
        1 => Event::Cloud(k),
        2 => Event::Alias(k),
        3 => Event::Ping(k),
        _ => Event::All(k),
    }
}

fn event_json(i: usize, n: usize) -> serde_json::Value {
    let k = format!("k{n}");
    match i {
        0 => json!({"Disk": k}),
        1 => json!({"Cloud": k}),
        2 => json!({"Alias": k}),
        3 => json!({"Ping": k}),
        _ => json!({"All": k}),
    }
}

pub struct Outcome {
    pub histories: u64,
    pub steps: u64,
    pub distinct_request_lists: usize,
    /// (key, what, replay)
    pub violations: Vec<(String, String, serde_json::Value)>,
}

/// One history: the events, then the answers in the given order (positions among the outstanding
/// non-render requests). Returns the first divergence.
fn run_history(events: &[usize], order: &[usize], lists: &mut std::collections::BTreeSet<String>) -> Result<u64, (String, String)> {
    let typed: Core<App> = Core::default();
    let bin: Bridge<App> = Bridge::new(Core::default());
    let js: BridgeWithSerializer<App> = BridgeWithSerializer::new(Core::default());
    let mut steps = 0u64;
    let mut t_out: Vec<Effect> = vec![];
    let mut b_out: Vec<Request<EffectFfi>> = vec![];
    let mut j_out: Vec<Request<EffectFfi>> = vec![];
    let check = |what: &str, t: &[Effect], b: &[Request<EffectFfi>], j: &[Request<EffectFfi>]| -> Result<(), (String, String)> {
        let ts: Vec<Seen> = t.iter().map(seen_typed).collect();
        let bs: Vec<Seen> = b.iter().map(|r| seen_ffi(&r.effect)).collect();
        let jsn: Vec<Seen> = j.iter().map(|r| seen_ffi(&r.effect)).collect();
        if bs != ts {
            return Err(("effect-shapes/bincode-requests-differ".into(), format!("{what}: the bincode bridge's requests decode to {bs:?}, the typed core returned {ts:?}")));
        }
        if jsn != ts {
            return Err(("effect-shapes/json-requests-differ".into(), format!("{what}: the JSON bridge's requests decode to {jsn:?}, the typed core returned {ts:?}")));
        }
        Ok(())
    };
    for (n, &e) in events.iter().enumerate() {
        let t = typed.process_event(event(e, n));
        let b: Vec<Request<EffectFfi>> = match bin.process_event(&opts().serialize(&event(e, n)).expect("event encodes")) {
            Ok(bytes) => opts().deserialize(&bytes).map_err(|e| ("effect-shapes/bincode-batch-undecodable".to_string(), format!("event {n}: {e}")))?,
            Err(e) => return Err(("effect-shapes/bincode-event-refused".into(), format!("event {n}: {e}"))),
        };
        let mut out = vec![];
        js.process_event(&event_json(e, n), &mut serde_json::Serializer::new(&mut out))
            .map_err(|e| ("effect-shapes/json-event-refused".to_string(), format!("event {n}: {e}")))?;
        let j: Vec<Request<EffectFfi>> = serde_json::from_slice(&out).map_err(|e| ("effect-shapes/json-batch-undecodable".to_string(), format!("event {n}: {e}: {}", String::from_utf8_lossy(&out))))?;
        steps += 3;
        check(&format!("after event {n}"), &t, &b, &j)?;
        lists.insert(format!("{:?}", t.iter().map(seen_typed).collect::<Vec<_>>()));
        t_out.extend(t);
        b_out.extend(b);
        j_out.extend(j);
    }
    for out in [&b_out, &j_out] {
        let mut ids: Vec<u32> = out.iter().map(|r| r.id.0).collect();
        ids.sort_unstable();
        ids.dedup();
        if ids.len() != out.len() {
            return Err(("effect-shapes/ids-not-distinct".into(), format!("ids of outstanding requests: {:?}", out.iter().map(|r| r.id.0).collect::<Vec<_>>())));
        }
    }
    for (k, &pos) in order.iter().enumerate() {
        let answer = format!("a{k}-for-{pos}");
        let t = match &mut t_out[pos] {
            Effect::Disk(r) => typed.resolve(r, answer.clone()),
            Effect::Cloud(r) => typed.resolve(r, answer.clone()),
            Effect::Alias(r) => typed.resolve(r, answer.clone()),
            Effect::Ping(r) => typed.resolve(r, answer.clone()),
            Effect::Render(_) => unreachable!("only requests are outstanding"),
        }
        .map_err(|e| ("effect-shapes/typed-resolve-refused".to_string(), format!("answer {k}: {e}")))?;
        let b: Vec<Request<EffectFfi>> = match bin.handle_response(b_out[pos].id.0, &opts().serialize(&answer).expect("answer encodes")) {
            Ok(bytes) => opts().deserialize(&bytes).map_err(|e| ("effect-shapes/bincode-batch-undecodable".to_string(), format!("answer {k}: {e}")))?,
            Err(e) => return Err(("effect-shapes/bincode-response-refused".into(), format!("answer {k} to request {pos}: {e}"))),
        };
        let mut out = vec![];
        js.handle_response(j_out[pos].id.0, &json!(answer), &mut serde_json::Serializer::new(&mut out))
            .map_err(|e| ("effect-shapes/json-response-refused".to_string(), format!("answer {k} to request {pos}: {e}")))?;
        let j: Vec<Request<EffectFfi>> = serde_json::from_slice(&out).map_err(|e| ("effect-shapes/json-batch-undecodable".to_string(), format!("answer {k}: {e}")))?;
        steps += 3;
        check(&format!("after answer {k} to request {pos}"), &t, &b, &j)?;
    }
    let tv = typed.view();
    let bv: ViewModel = opts().deserialize(&bin.view().map_err(|e| ("effect-shapes/bincode-view-refused".to_string(), e.to_string()))?).map_err(|e| ("effect-shapes/bincode-view-undecodable".to_string(), e.to_string()))?;
    let mut out = vec![];
    js.view(&mut serde_json::Serializer::new(&mut out)).map_err(|e| ("effect-shapes/json-view-refused".to_string(), e.to_string()))?;
    let jv: ViewModel = serde_json::from_slice(&out).map_err(|e| ("effect-shapes/json-view-undecodable".to_string(), e.to_string()))?;
    if bv != tv {
        return Err(("effect-shapes/bincode-view-differs".into(), format!("view through the bincode bridge {bv:?}, typed {tv:?}")));
    }
    if jv != tv {
        return Err(("effect-shapes/json-view-differs".into(), format!("view through the JSON bridge {jv:?}, typed {tv:?}")));
    }
    Ok(steps)
}

fn permutations(n: usize) -> Vec<Vec<usize>> {
    if n == 0 {
        return vec![vec![]];
    }
    let mut out = vec![];
    for p in permutations(n - 1) {
        for i in 0..=p.len() {
            let mut q = p.clone();
            q.insert(i, n - 1);
            out.push(q);
        }
    }
    out
}

fn outstanding_after(events: &[usize]) -> usize {
    events.iter().map(|e| if *e == 4 { 4 } else { 1 }).sum()
}

pub fn explore(depth: usize) -> Outcome {
    let mut o = Outcome { histories: 0, steps: 0, distinct_request_lists: 0, violations: vec![] };
    let mut lists = std::collections::BTreeSet::new();
    let mut seqs: Vec<Vec<usize>> = vec![vec![]];
    let mut frontier: Vec<Vec<usize>> = vec![vec![]];
    for _ in 0..depth {
        let mut next = vec![];
        for s in &frontier {
            for e in 0..MENU {
                let mut t = s.clone();
                t.push(e);
                next.push(t);
            }
        }
        seqs.extend(next.iter().cloned());
        frontier = next;
    }
    for events in &seqs {
        let n = outstanding_after(events);
        // every order for up to 4 outstanding requests, oldest-first / newest-first / rotated beyond
        let orders: Vec<Vec<usize>> = if n <= 4 {
            permutations(n)
        } else {
            vec![(0..n).collect(), (0..n).rev().collect(), (0..n).map(|i| (i * 3 + 1) % n).collect::<std::collections::BTreeSet<_>>().into_iter().collect()]
        };
        for order in orders {
            if order.len() != n {
                continue;
            }
            o.histories += 1;
            match mc_kit::catch(|| run_history(events, &order, &mut lists)) {
                Ok(Ok(steps)) => o.steps += steps,
                Ok(Err((key, what))) => {
                    if !o.violations.iter().any(|(k, _, _)| *k == key) {
                        o.violations.push((key, format!("effect-shape app, events {events:?}, answer order {order:?}: {what}"), json!({"engine": "bridgex/effect-shapes", "events": events, "order": order})));
                    }
                }
                Err(p) => {
                    let key = format!("effect-shapes/panic/{}", crate::sys::panic_key(&p));
                    if !o.violations.iter().any(|(k, _, _)| *k == key) {
                        o.violations.push((key, format!("effect-shape app, events {events:?}, answer order {order:?}: panic: {}", p.message), json!({"engine": "bridgex/effect-shapes", "events": events, "order": order})));
                    }
                }
            }
        }
    }
    o.distinct_request_lists = lists.len();
    o
}

pub fn replay(case: &serde_json::Value) -> i32 {
    let events: Vec<usize> = serde_json::from_value(case["events"].clone()).unwrap_or_default();
    let order: Vec<usize> = serde_json::from_value(case["order"].clone()).unwrap_or_default();
    let mut lists = std::collections::BTreeSet::new();
    match mc_kit::catch(|| run_history(&events, &order, &mut lists)) {
        Ok(Ok(_)) => {
            println!("effect-shape app, events {events:?}, answer order {order:?}: both bridges agree with the typed core");
            0
        }
        Ok(Err((k, w))) => {
            println!("DIVERGENCE {k}: {w}");
            1
        }
        Err(p) => {
            println!("DIVERGENCE panic: {}", p.message);
            1
        }
    }
}
