//! C12: malformed bytes offered to the bridge lane of a `[typed twin, bridge]` system, and what
//! the twin is told instead (nothing / the request dropped / the decoded value).

use std::collections::BTreeMap;

use crux_time::{TimeResponse, TimerId};

use crate::app::{menu_event, Event, MENU};
use crate::fault::{bin_faults, json_faults, record, Marks};
use crate::sys::{
    dec_lenient, dec_resp, enc, enc_resp, panic_key, Codec, Finding, Gauges, HttpRes, Kind, Op,
    Outcome, Reject, Resp, System,
};

pub const ALLOC_LIMIT: usize = 16 << 20;

#[allow(dead_code)]
pub struct FaultCtx {
    pub codec: Codec,
    /// members of the event fault family the harness cannot decode as an `Event`
    pub ev_bad: Vec<Vec<u8>>,
    /// members that are still well-formed events (another variant, same variant + trailing bytes)
    pub ev_mut: Vec<Vec<u8>>,
    pub valid_events: Vec<Vec<u8>>,
}

impl FaultCtx {
    /// The event fault families of the given menu events.
    pub fn new(codec: Codec, events: &[usize]) -> FaultCtx {
        let mut bad = std::collections::BTreeSet::new();
        let mut mutants = std::collections::BTreeSet::new();
        let mut valid = vec![];
        for i in events.iter().copied().filter(|i| *i < MENU) {
            let ev = menu_event(i);
            let (e, faults) = match codec {
                Codec::Bin => {
                    let (e, m) = record(&ev);
                    let f = bin_faults(&e, &m);
                    (e, f)
                }
                Codec::Json => {
                    let e = enc(codec, &ev);
                    let f = json_faults(&e);
                    (e, f)
                }
            };
            valid.push(e);
            for f in faults {
                if dec_lenient::<Event>(codec, &f).is_ok() {
                    mutants.insert(f);
                } else {
                    bad.insert(f);
                }
            }
        }
        FaultCtx {
            codec,
            ev_bad: bad.into_iter().collect(),
            ev_mut: mutants.into_iter().collect(),
            valid_events: valid,
        }
    }
}

/// The fault family of a valid answer.
pub fn response_faults(codec: Codec, resp: &Resp) -> (Vec<u8>, Vec<Vec<u8>>) {
    match codec {
        Codec::Json => {
            let e = enc_resp(codec, resp);
            let f = json_faults(&e);
            (e, f)
        }
        Codec::Bin => {
            let (e, m) = match resp {
                Resp::Tiny(v) => record(v),
                Resp::Kv(v) => record(v),
                Resp::Time(v) => record(v),
                Resp::Platform(s) => record(&crux_platform::PlatformResponse(s.clone())),
                Resp::Unit => record(&()),
                Resp::Http(h) => {
                    let e = enc_resp(codec, resp);
                    let mut m = Marks::default();
                    m.tags.push(0);
                    match h {
                        HttpRes::Ok(r) => {
                            let (_, inner) = record(r);
                            m.lens.extend(inner.lens.iter().map(|o| o + 4));
                            m.tags.extend(inner.tags.iter().map(|o| o + 4));
                            m.opts.extend(inner.opts.iter().map(|o| o + 4));
                        }
                        HttpRes::ErrUrl(_) | HttpRes::ErrIo(_) => {
                            m.tags.push(4);
                            m.lens.push(8);
                        }
                        HttpRes::ErrTimeout => m.tags.push(4),
                    }
                    (e, m)
                }
            };
            let f = bin_faults(&e, &m);
            (e, f)
        }
    }
}

pub const LISTED_PANIC_KEYS: [&str; 3] = [
    "kv/response-kind-mismatch",
    "time/response-kind-mismatch",
    "status-not-in-enum",
];

/// Which listed cause (DESIGN K9 / K5) a well-formed answer to `op` really is an instance of:
/// a KeyValueResponse of another kind than the operation, a TimeResponse of another kind or
/// with another timer id than the request (the Command-API requests check that; the app's
/// Command-API timers are NotifyAfter and the Clear that expects an answer), an HTTP status
/// outside http-types' enum. `None`: the answer matches its request - a panic on it is NOT
/// the listed finding, wherever it is raised.
pub fn listed_cause(op: &Op, kind: Kind, resp: &Resp) -> Option<&'static str> {
    use crux_kv::{KeyValueOperation as O, KeyValueResponse as R, KeyValueResult};
    use crux_time::TimeRequest as T;
    match (op, resp) {
        (Op::Kv(o), Resp::Kv(KeyValueResult::Ok { response })) => {
            let matches = matches!(
                (o, response),
                (O::Get { .. }, R::Get { .. })
                    | (O::Set { .. }, R::Set { .. })
                    | (O::Delete { .. }, R::Delete { .. })
                    | (O::Exists { .. }, R::Exists { .. })
                    | (O::ListKeys { .. }, R::ListKeys { .. })
            );
            (!matches).then_some("kv/response-kind-mismatch")
        }
        (Op::Time(t), Resp::Time(r)) if kind == Kind::Once => {
            let matches = match (t, r) {
                (T::NotifyAfter { id, .. }, TimeResponse::DurationElapsed { id: got }) => id == got,
                (T::Clear { id }, TimeResponse::Cleared { id: got }) => id == got,
                // the app's NotifyAt and Now requests come from the legacy API, which hands any
                // TimeResponse to the app unchecked
                (T::NotifyAt { .. }, _) | (T::Now, _) => true,
                _ => false,
            };
            (!matches).then_some("time/response-kind-mismatch")
        }
        (Op::Http(_), Resp::Http(HttpRes::Ok(r))) => crux_http::http::StatusCode::try_from(r.status)
            .is_err()
            .then_some("status-not-in-enum"),
        _ => None,
    }
}

/// The key of a captured panic, narrowed: a listed key survives only if the input really is an
/// instance of that listed cause.
pub fn narrowed_panic_key(p: &mc_kit::PanicInfo, cause: Option<&'static str>) -> String {
    let key = panic_key(p);
    if LISTED_PANIC_KEYS.contains(&key.as_str()) && cause != Some(key.as_str()) {
        format!("panic-at-listed-site-for-another-input/{key}")
    } else {
        key
    }
}

#[derive(Default, Clone, Debug)]
pub struct FaultStats {
    pub inputs: u64,
    pub by_outcome: BTreeMap<String, u64>,
    pub max_peak: usize,
    pub max_nanos: u128,
    /// fnv of every distinct faulty input offered (target kind + bytes)
    pub distinct: std::collections::BTreeSet<u64>,
    pub rejected_with_others_outstanding: u64,
}

impl FaultStats {
    pub fn merge(&mut self, o: &FaultStats) {
        self.inputs += o.inputs;
        for (k, v) in &o.by_outcome {
            *self.by_outcome.entry(k.clone()).or_default() += v;
        }
        self.max_peak = self.max_peak.max(o.max_peak);
        self.max_nanos = self.max_nanos.max(o.max_nanos);
        self.distinct.extend(o.distinct.iter().copied());
        self.rejected_with_others_outstanding += o.rejected_with_others_outstanding;
    }
}

#[derive(Clone, Debug, PartialEq, Eq)]
pub struct Fingerprint {
    pub view: Vec<u8>,
    pub gauges: Gauges,
}

const X: usize = 1; // the bridge lane
const T: usize = 0; // the typed twin

impl System {
    fn codec(&self) -> Codec {
        self.lanes[X].kind.codec().expect("lane 1 must be a bridge")
    }

    pub fn fingerprint(&mut self) -> Fingerprint {
        Fingerprint {
            view: self.lanes[X].view_bytes(),
            gauges: self.lanes[X].gauges(),
        }
    }

    fn account(&mut self, target: &str, bytes: &[u8], class: &str) -> Vec<Finding> {
        let mut f = vec![];
        let (peak, nanos) = (self.lanes[X].last_peak, self.lanes[X].last_nanos);
        let codec = self.codec();
        let st = &mut self.fstats;
        st.inputs += 1;
        *st.by_outcome.entry(format!("{target}:{class}")).or_default() += 1;
        st.max_peak = st.max_peak.max(peak);
        st.max_nanos = st.max_nanos.max(nanos);
        let mut key = target.as_bytes().to_vec();
        key.push(codec as u8);
        key.extend_from_slice(bytes);
        st.distinct.insert(mc_kit::fnv64(&key));
        // a captured panic is its own finding (and unwinding allocates on its own account)
        if class == "panic" {
            return f;
        }
        if peak >= ALLOC_LIMIT {
            f.push(Finding {
                key: format!("alloc/over-16MiB/{target}"),
                what: format!("peak allocation during the call: {peak} bytes"),
            });
        }
        if nanos > u128::from(crate::watch::LIMIT_MS) * 1_000_000 {
            f.push(Finding {
                key: "hang/over-10s".into(),
                what: format!("the call took {} ms", nanos / 1_000_000),
            });
        }
        f
    }

    fn panic_finding(&self, p: &mc_kit::PanicInfo) -> Finding {
        self.panic_finding_for(p, None)
    }

    /// `cause`: the listed cause the offered input really is an instance of, if any.
    fn panic_finding_for(&self, p: &mc_kit::PanicInfo, cause: Option<&'static str>) -> Finding {
        Finding {
            key: narrowed_panic_key(p, cause),
            what: format!(
                "{} panicked: {} ({}:{})",
                self.lanes[X].kind.name(),
                p.message.lines().next().unwrap_or(""),
                p.file,
                p.line
            ),
        }
    }

    /// All undecodable event faults on this one instance; each must be rejected and leave view,
    /// registry and core gauges exactly as they were.
    pub fn bad_event_batch(&mut self) -> Vec<Finding> {
        let ctx = self.fault.clone().expect("fault context");
        self.lanes[X].meter = true;
        crate::label::set_prefix(self.codec(), &self.trail, "ev");
        let before = self.fingerprint();
        for (n, b) in ctx.ev_bad.iter().enumerate() {
            let mut f = self.bad_event_undecodable(b, &before);
            if !f.is_empty() {
                for x in f.iter_mut() {
                    x.what = format!(
                        "{} [input {n} of the batch: 0x{} = {:?}]",
                        x.what,
                        b.iter().map(|x| format!("{x:02x}")).collect::<String>(),
                        String::from_utf8_lossy(b)
                    );
                }
                return f;
            }
        }
        self.last = format!("{} undecodable events rejected", ctx.ev_bad.len());
        vec![]
    }

    fn bad_event_undecodable(&mut self, b: &[u8], before: &Fingerprint) -> Vec<Finding> {
        let o = self.lanes[X].event_bytes(b);
        let mut f = self.account("event", b, &o.class());
        match &o {
            Outcome::Rejected(Reject::DeserializeEvent, _) => {
                let after = self.fingerprint();
                if &after != before {
                    f.push(Finding {
                        key: "rejected-event/state-changed".into(),
                        what: format!(
                            "a rejected event changed the app or the bridge: before {before:?}, after {after:?}"
                        ),
                    });
                }
            }
            Outcome::Rejected(_, msg) => f.push(Finding {
                key: "event/unexpected-error-kind".into(),
                what: format!("undecodable event answered with: {msg}"),
            }),
            Outcome::Ok(_) => f.push(Finding {
                key: "event/accepted-undecodable".into(),
                what: "the bridge accepted an event the harness cannot decode".into(),
            }),
            Outcome::Panicked(p) => f.push(self.panic_finding(p)),
        }
        f
    }

    /// One faulty event: well-formed mutants are given to the twin typed, undecodable ones not at
    /// all.
    pub fn bad_event(&mut self, b: &[u8]) -> Vec<Finding> {
        self.lanes[X].meter = true;
        let codec = self.codec();
        crate::label::set_prefix(codec, &self.trail, "ev");
        match dec_lenient::<Event>(codec, b) {
            Err(_) => {
                let before = self.fingerprint();
                let mut f = self.bad_event_undecodable(b, &before);
                if f.is_empty() {
                    self.last = "event rejected".into();
                    f.extend(self.check_state());
                }
                f
            }
            Ok(ev) => {
                self.snapshot_registry();
                let o = self.lanes[X].event_bytes(b);
                let mut f = self.account("event-wellformed", b, &o.class());
                if let Outcome::Panicked(p) = &o {
                    f.push(self.panic_finding(p));
                    return f;
                }
                let o0 = self.lanes[T].event_typed(ev);
                f.extend(self.absorb(vec![o0, o], true));
                f
            }
        }
    }

    fn translate(&self, r: &Resp) -> Resp {
        let tr = |id: TimerId| -> TimerId {
            match self.lanes[X]
                .canon_of_raw_timer(id.0)
                .and_then(|c| self.lanes[T].raw_timer(c))
            {
                Some(raw) => TimerId(raw),
                // an id the bridge's core never issued: one the twin never issued either
                None => TimerId(id.0.wrapping_add(1 << 40)),
            }
        };
        match r {
            Resp::Time(t) => Resp::Time(match *t {
                TimeResponse::Now { instant } => TimeResponse::Now { instant },
                TimeResponse::InstantArrived { id } => TimeResponse::InstantArrived { id: tr(id) },
                TimeResponse::DurationElapsed { id } => {
                    TimeResponse::DurationElapsed { id: tr(id) }
                }
                TimeResponse::Cleared { id } => TimeResponse::Cleared { id: tr(id) },
            }),
            other => other.clone(),
        }
    }

    /// Faulty bytes as the answer to the k-th outstanding request.
    pub fn bad_response(&mut self, k: usize, b: &[u8]) -> Vec<Finding> {
        self.lanes[X].meter = true;
        let codec = self.codec();
        crate::label::set_prefix(codec, &self.trail, &format!("resp{k}"));
        let (hx, ht, kind) = {
            let e = &self.out[k];
            (e.h[X], e.h[T], e.kind)
        };
        let others = self.out.len() - 1;
        let raw: Op = self.lanes[X].reqs[hx].raw.clone();
        let decoded = dec_resp(codec, &raw, b);
        let o = self.lanes[X].respond_bytes(hx, b);
        let target = match kind {
            Kind::Once => "answer-to-one-shot",
            Kind::Many => "stream-item",
            Kind::Never => "answer-to-notification",
        };
        self.last = format!("typed twin not yet told | {}", o.class());
        let wf = if decoded.is_ok() { "-wellformed" } else { "" };
        let mut f = self.account(&format!("{target}{wf}"), b, &o.class());
        // a NotifyAfter whose timer the app has since cleared is an orphan: its task has moved on
        // to the Clear request, nobody looks at its answer any more (so no listed cause either)
        let orphaned = match &raw {
            Op::Time(crux_time::TimeRequest::NotifyAfter { id, .. }) => {
                self.lanes[X].reqs.iter().any(|r| {
                    matches!(&r.raw, Op::Time(crux_time::TimeRequest::Clear { id: c }) if c == id)
                })
            }
            _ => false,
        };
        let cause = decoded
            .as_ref()
            .ok()
            .filter(|_| !orphaned)
            .and_then(|r| listed_cause(&raw, kind, r));
        if let Outcome::Panicked(p) = &o {
            f.push(self.panic_finding_for(p, cause));
            return f;
        }
        if let (Some(cause), Outcome::Ok(_)) = (cause, &o) {
            // today such an answer panics (listed); if it is accepted instead, the app must at
            // least be told about an error - an answer of the wrong kind delivered as a success
            // is a different, unlisted violation
            let log = self.lanes[X].view().map(|v| v.log).unwrap_or_default();
            let told = log.last().is_some_and(|l| l.contains("Err") || l.contains("error"));
            if !told {
                f.push(Finding {
                    key: format!("{cause}/accepted-and-delivered-as-success"),
                    what: format!(
                        "a well-formed answer of the wrong kind to {raw:?} was accepted without panic or error; last log entry {:?}",
                        log.last()
                    ),
                });
                return f;
            }
        }
        match decoded {
            Ok(resp_x) => {
                let resp_t = self.translate(&resp_x);
                let o0 = self.lanes[T].respond_typed(ht, &resp_t);
                if let Outcome::Panicked(p0) = &o0 {
                    f.push(Finding {
                        key: "wellformed-answer/bridge-accepts-what-the-typed-core-panics-on".into(),
                        what: format!(
                            "the bridge answered {} to {raw:?} where the typed core panicked: {}",
                            o.class(),
                            p0.message.lines().next().unwrap_or("")
                        ),
                    });
                    return f;
                }
                if !self.lanes[T].reqs[ht].live {
                    let e = self.out.remove(k);
                    self.freed[X].insert(self.lanes[X].reqs[e.h[X]].id);
                }
                f.extend(self.absorb(vec![o0, o], true));
            }
            Err(_) => match &o {
                Outcome::Rejected(Reject::DeserializeOutput, _) => {
                    if others > 0 {
                        self.fstats.rejected_with_others_outstanding += 1;
                    }
                    if kind == Kind::Once {
                        // the addressed request - and only it - is gone
                        self.lanes[T].drop_request(ht);
                        let e = self.out.remove(k);
                        self.freed[X].insert(self.lanes[X].reqs[e.h[X]].id);
                    }
                    self.last = "answer rejected".into();
                    f.extend(self.check_state());
                }
                Outcome::Rejected(_, msg) => f.push(Finding {
                    key: "response/unexpected-error-kind".into(),
                    what: format!("undecodable answer to {raw:?} answered with: {msg}"),
                }),
                Outcome::Ok(_) => f.push(Finding {
                    key: "response/accepted-undecodable".into(),
                    what: format!(
                        "the bridge accepted an answer to {raw:?} the harness cannot decode"
                    ),
                }),
                Outcome::Panicked(_) => unreachable!(),
            },
        }
        f
    }

    /// Bytes sent to the id of a notification: always `Err(Never)`, nothing else happens.
    pub fn bad_note(&mut self, j: usize, b: &[u8]) -> Vec<Finding> {
        self.lanes[X].meter = true;
        crate::label::set_prefix(self.codec(), &self.trail, &format!("note{j}"));
        let hx = self.notes[j].h[X];
        let o = self.lanes[X].respond_bytes(hx, b);
        let mut f = self.account("answer-to-notification", b, &o.class());
        match &o {
            Outcome::Rejected(Reject::Never, _) => {
                let ht = self.notes[j].h[T];
                self.lanes[T].reqs[ht].live = false;
                self.notes.remove(j);
                self.last = "answer to a notification rejected".into();
                f.extend(self.check_state());
            }
            Outcome::Panicked(p) => f.push(self.panic_finding(p)),
            other => f.push(Finding {
                key: "notification/answer-not-rejected".into(),
                what: format!("answering a notification gave {other:?}"),
            }),
        }
        f
    }

    /// After a fault: every remaining outstanding request is answered (streams get one item),
    /// then one more event and its answer; every step is compared with the twin.
    pub fn probe(&mut self) -> Vec<Finding> {
        let mut stream_seen = 0;
        let mut guard = 0;
        while self.out.len() > stream_seen && guard < 64 {
            guard += 1;
            let k = stream_seen;
            let is_stream = self.out[k].kind == Kind::Many;
            let f = self.apply(&crate::sys::Step::Resp(k), true);
            if !f.is_empty() {
                return f;
            }
            if is_stream && self.out.get(k).map(|e| e.kind) == Some(Kind::Many) {
                stream_seen += 1;
            }
        }
        let f = self.apply(&crate::sys::Step::Ev(0), true);
        if !f.is_empty() {
            return f;
        }
        if let Some(k) = self.out.iter().position(|e| e.kind == Kind::Once) {
            return self.apply(&crate::sys::Step::Resp(k), true);
        }
        vec![]
    }
}
