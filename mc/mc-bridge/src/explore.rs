//! Depth-first enumeration of ALL histories up to a depth bound. No state merging: every node
//! of the history tree is executed on fresh real objects by replaying its path from scratch
//! (a `Core` cannot be cloned).

use std::collections::BTreeMap;
use std::sync::atomic::{AtomicBool, Ordering};

use mc_kit::{Deadline, Samples};
use serde_json::json;

use crate::sys::{show_steps, Finding, LaneKind, Step, System};

pub struct Cfg {
    pub kinds: Vec<LaneKind>,
    pub depth: usize,
    /// events are enabled only while fewer than this many requests are outstanding
    pub max_out: usize,
    pub deadline: Deadline,
    pub want_canon: bool,
    /// C12: fault context handed to every replayed system
    pub fault: Option<std::sync::Arc<crate::faultsys::FaultCtx>>,
    /// breadth-first until at least this many subtrees exist
    pub min_frontier: usize,
    /// C11: keep the transcript hash chain
    pub record: bool,
    /// C09: the history alphabet includes one undecodable answer per history
    pub garbage: bool,
    /// restrict the menu events to these (None = all)
    pub menu: Option<Vec<usize>>,
}

impl Cfg {
    fn steps(&self, sys: &System) -> Vec<Step> {
        let mut v = sys.enabled(self.max_out, self.garbage);
        if let Some(menu) = &self.menu {
            v.retain(|s| match s {
                Step::Ev(i) => menu.contains(i),
                _ => true,
            });
        }
        v
    }
}

#[derive(Default)]
pub struct Stats {
    pub nodes: u64,
    pub leaves: u64,
    pub steps_executed: u64,
    pub nodes_by_depth: BTreeMap<usize, u64>,
    pub nontrivial: u64,
    pub max_outstanding: usize,
    pub ids_reused: u64,
    pub outcomes: BTreeMap<String, u64>,
    pub failed_nodes: u64,
    pub undelivered_entries: u64,
    pub samples: Option<Samples>,
    pub cut_by_deadline: bool,
}

impl Stats {
    pub fn merge(&mut self, o: Stats) {
        self.nodes += o.nodes;
        self.leaves += o.leaves;
        self.steps_executed += o.steps_executed;
        for (k, v) in o.nodes_by_depth {
            *self.nodes_by_depth.entry(k).or_default() += v;
        }
        self.nontrivial += o.nontrivial;
        self.max_outstanding = self.max_outstanding.max(o.max_outstanding);
        self.ids_reused += o.ids_reused;
        for (k, v) in o.outcomes {
            *self.outcomes.entry(k).or_default() += v;
        }
        self.failed_nodes += o.failed_nodes;
        self.undelivered_entries += o.undelivered_entries;
        self.cut_by_deadline |= o.cut_by_deadline;
        match (&mut self.samples, o.samples) {
            (Some(a), Some(b)) => a.merge(b),
            (a @ None, b) => *a = b,
            _ => {}
        }
    }
}

pub trait Visitor: Sync {
    /// Called once per node whose own step passed the step oracle, with the freshly replayed
    /// system. Extra findings stop the descent below this node.
    fn visit(&self, path: &[Step], sys: &mut System) -> Vec<Finding>;
    /// Called for every node with findings (from the step oracle or from `visit`).
    fn report(&self, path: &[Step], failing_step: usize, findings: &[Finding]);
}

static STOP: AtomicBool = AtomicBool::new(false);

pub fn node(cfg: &Cfg, v: &dyn Visitor, path: &mut Vec<Step>, st: &mut Stats) {
    if STOP.load(Ordering::Relaxed) || cfg.deadline.expired() {
        STOP.store(true, Ordering::Relaxed);
        st.cut_by_deadline = true;
        return;
    }
    let check_from = path.len().saturating_sub(1);
    let (mut sys, fail) = replay_cfg(cfg, path, check_from);
    st.nodes += 1;
    st.steps_executed += path.len() as u64;
    *st.nodes_by_depth.entry(path.len()).or_default() += 1;
    if let Some((i, f)) = fail {
        st.failed_nodes += 1;
        v.report(path, i, &f);
        return;
    }
    *st.outcomes.entry(sys.last.clone()).or_default() += 1;
    if let Some(Step::Resp(_)) = path.last() {
        // the answered request has already left `out`
        if sys.out.len() + 1 >= 2 {
            st.nontrivial += 1;
        }
    }
    let extra = v.visit(path, &mut sys);
    if !extra.is_empty() {
        st.failed_nodes += 1;
        v.report(path, path.len().saturating_sub(1), &extra);
        return;
    }
    st.max_outstanding = st.max_outstanding.max(sys.stats.max_outstanding);
    st.ids_reused += sys.stats.ids_reused_last;
    if matches!(path.last(), Some(Step::Ev(11 | 12))) {
        st.undelivered_entries += sys.lanes.iter().map(|l| l.undelivered.0 + l.undelivered.1 + l.undelivered.2).sum::<usize>() as u64
            - 0;
    }
    if let Some(s) = st.samples.as_mut() {
        s.offer(|| {
            json!({"history": show_steps(path), "outcome_of_last_step": sys.last,
                   "outstanding_after": sys.out.iter().map(|e| e.op.short()).collect::<Vec<_>>()})
        });
    }
    if path.len() >= cfg.depth {
        st.leaves += 1;
        return;
    }
    let enabled = cfg.steps(&sys);
    drop(sys);
    for s in enabled {
        path.push(s);
        node(cfg, v, path, st);
        path.pop();
    }
}

pub fn replay_cfg(
    cfg: &Cfg,
    path: &[Step],
    check_from: usize,
) -> (System, Option<(usize, Vec<Finding>)>) {
    crate::sys::replay_with(&cfg.kinds, path, check_from, |sys| {
        for l in sys.lanes.iter_mut() {
            l.want_canon = cfg.want_canon;
        }
        sys.fault = cfg.fault.clone();
        sys.record = cfg.record;
    })
}

/// Explores the whole tree: the first levels breadth-first (each level on the worker pool)
/// until there are enough subtrees, then the subtrees depth-first on the worker pool.
pub fn run(cfg: &Cfg, v: &dyn Visitor, sample_cap: usize) -> Stats {
    STOP.store(false, Ordering::Relaxed);
    // frontier of prefixes whose nodes have NOT been visited yet
    let mut frontier: Vec<Vec<Step>> = vec![vec![]];
    let mut total = Stats {
        samples: Some(Samples::new(sample_cap)),
        ..Default::default()
    };
    let mut level = 0;
    while frontier.len() < cfg.min_frontier && level < cfg.depth {
        // visit the frontier nodes themselves (depth-limited to their own level), collect children
        let parts = mc_kit::par_map(&frontier, |_, p| {
            let shallow = Cfg {
                kinds: cfg.kinds.clone(),
                depth: p.len(),
                max_out: cfg.max_out,
                deadline: Deadline::new(1e9),
                want_canon: cfg.want_canon,
                fault: cfg.fault.clone(),
                min_frontier: cfg.min_frontier,
                record: cfg.record,
                garbage: cfg.garbage,
                menu: cfg.menu.clone(),
            };
            let mut st = Stats {
                samples: Some(Samples::new(2)),
                ..Default::default()
            };
            let mut path = p.clone();
            node(&shallow, v, &mut path, &mut st);
            st.leaves = 0;
            let mut next = vec![];
            if st.failed_nodes == 0 {
                let (sys, _) = replay_cfg(cfg, p, usize::MAX);
                for s in cfg.steps(&sys) {
                    let mut c = p.clone();
                    c.push(s);
                    next.push(c);
                }
            }
            (st, next)
        });
        frontier = vec![];
        for (st, next) in parts {
            total.merge(st);
            frontier.extend(next);
        }
        level += 1;
    }
    let parts = mc_kit::par_map(&frontier, |_, p| {
        let mut st = Stats {
            samples: Some(Samples::new(sample_cap / 4 + 1)),
            ..Default::default()
        };
        let mut path = p.clone();
        node(cfg, v, &mut path, &mut st);
        st
    });
    for p in parts {
        total.merge(p);
    }
    total
}
